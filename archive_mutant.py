#!/usr/bin/env python3
"""Development aid: confirm a candidate mutant, run the claimed checks against it and archive it under /verif/seeded/<id>/.
   ./archive_mutant.py <srcdir> <seeded-id> <property> "<what it needs to manifest>" <check> [<check>...]"""
import json, os, re, shutil, subprocess, sys
src, sid, prop, needs = sys.argv[1:5]
checks = sys.argv[5:]
dst = f"/verif/seeded/{sid}"
os.makedirs(dst, exist_ok=True)
shutil.copy(os.path.join(src, "patch.diff"), os.path.join(dst, "patch.diff"))
if os.path.isdir(os.path.join(dst, "demo")):
    shutil.rmtree(os.path.join(dst, "demo"))
shutil.copytree(os.path.join(src, "demo"), os.path.join(dst, "demo"))
if os.path.exists(os.path.join(src, "README.md")):
    shutil.copy(os.path.join(src, "README.md"), os.path.join(dst, "README.md"))
conf = subprocess.run(["/verif/confirm_mutant.sh", src], capture_output=True, text=True).stdout.strip().splitlines()[-1]
try:
    conf = json.loads(conf)
except ValueError:
    conf = {"error": conf}
det = {}
out = subprocess.run(["/verif/mutant_eval.sh", os.path.join(src, "patch.diff")] + checks, capture_output=True, text=True).stdout
cur = None
for line in out.splitlines():
    m = re.match(r"== (\S+) exit=(\d+)", line)
    if m:
        cur = m.group(1)
        det[cur] = {"exit": int(m.group(2)), "signatures": []}
        continue
    m = re.match(r"\s+signature: (\S+)", line)
    if m and cur:
        det[cur]["signatures"].append(m.group(1))
    m = re.search(r"(quick|thorough): runs=(\d+).*wall=([\d.]+)s", line)
    if m and cur:
        det[cur]["runs"] = int(m.group(2)); det[cur]["wall_s"] = float(m.group(3))
head = subprocess.run(["git", "-C", "/repo", "rev-parse", "--short", "HEAD"], capture_output=True, text=True).stdout.strip()
vhead = subprocess.run(["git", "-C", "/verif", "rev-parse", "--short", "HEAD"], capture_output=True, text=True).stdout.strip()
meta = {
    "id": sid, "breaks_property": prop, "needs_to_manifest": needs,
    "origin": "written by a fresh sub-agent that saw only the property text and a scratch worktree of /repo",
    "confirmed": conf,
    "what_was_run": [f"/verif/confirm_mutant.sh {src} (scratch worktree of /repo at {head}: git apply, go build ./... (with and without -tags verif), "
                     f"go test of the touched packages, demo with the patch, demo without it)",
                     f"/verif/mutant_eval.sh patch.diff {' '.join(checks)} (scratch worktree + VERIF_REPO, quick tier, /verif at {vhead})"],
    "detected_by": {k: v for k, v in det.items() if v["exit"] == 1},
    "missed_by": [k for k, v in det.items() if v["exit"] == 0],
    "trouble": [k for k, v in det.items() if v["exit"] not in (0, 1)],
}
json.dump(meta, open(os.path.join(dst, "meta.json"), "w"), indent=1)
print(sid, "confirmed:", conf, "| detected by:", list(meta["detected_by"]), "| missed by:", meta["missed_by"], "| trouble:", meta["trouble"])
