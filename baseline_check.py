#!/usr/bin/env python3
"""Development aid: runs the repository's pinned test suite (guard OFF) and checks that every test
listed as stable_pass in /root/.vp/BASELINE.json still passes."""
import json, subprocess, sys
base = json.load(open("/root/.vp/BASELINE.json"))
p = subprocess.run(["bash", "-c", base["cmd"]], capture_output=True, text=True)
status = {}
for line in p.stdout.splitlines():
    try:
        ev = json.loads(line)
    except ValueError:
        continue
    if ev.get("Test") and ev.get("Action") in ("pass", "fail", "skip"):
        status[ev["Package"] + "::" + ev["Test"]] = ev["Action"]
bad = [t for t in base["stable_pass"] if status.get(t) != "pass"]
print("stable tests:", len(base["stable_pass"]), "passing now:", len(base["stable_pass"]) - len(bad))
for t in bad[:40]:
    print("  NOT PASSING:", t, status.get(t))
sys.exit(1 if bad else 0)
