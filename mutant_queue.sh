#!/bin/bash
# Development aid: archive a batch of candidate seeded changes one after the other.
#   ./mutant_queue.sh <spec file>   (lines: srcdir|seeded-id|property|what it needs to manifest|check check ...)
while IFS='|' read -r src sid prop needs checks; do
  [ -z "$src" ] && continue
  case "$src" in \#*) continue;; esac
  echo "### $sid $(date +%T)"
  /verif/archive_mutant.py "$src" "$sid" "$prop" "$needs" $checks 2>&1 | tail -2
done < "$1"
