#!/bin/bash
# Development aid: confirm a candidate seeded change independently.
#   ./confirm_mutant.sh <dir with patch.diff and demo/>
# In a scratch worktree of /repo: the patch applies, every touched module builds (with and without -tags verif),
# the touched packages' existing tests pass, the demonstration fails with the patch and passes without it.
# Commands run from the module that owns the package (root module or one of the etcd modules).
# Prints a JSON summary on the last line.
set -u
dir=$(readlink -f "$1")
export GOFLAGS=-mod=mod GOPROXY=off GOSUMDB=off
scratch=/tmp/mut-confirm-$$
git -C /repo worktree add -q --detach "$scratch" HEAD || exit 2
trap 'git -C /repo worktree remove --force "$scratch" >/dev/null 2>&1; rm -f /tmp/demo_with_$$ /tmp/demo_without_$$ /tmp/resp_fail_$$' EXIT
cd "$scratch"
moddir() { # nearest directory at or above $1 holding a go.mod
  local d=$1
  while [ "$d" != "." ] && [ ! -f "$d/go.mod" ]; do d=$(dirname "$d"); done
  echo "$d"
}
demo=$(ls "$dir"/demo/*.go | head -1)
hdr=$(head -1 "$demo")
pkgdir=$(echo "$hdr" | sed -n 's/.*copy to \([a-zA-Z0-9_\/]*\)\/ .*/\1/p')
[ -z "$pkgdir" ] && pkgdir=$(echo "$hdr" | sed -n 's/.*copy to \([a-zA-Z0-9_\/]*\)\/.*/\1/p')
tname=$(echo "$hdr" | sed -n 's/.*-run \([A-Za-z0-9_]*\).*/\1/p')
[ -z "$pkgdir" ] || [ -z "$tname" ] && { echo "cannot parse demo header: $hdr"; exit 2; }
dmod=$(moddir "$pkgdir")
drel=${pkgdir#$dmod}; drel=${drel#/}
runcmd="go test ./$drel -run $tname -count=1"
pkgs=$(grep '^+++ b/' "$dir/patch.diff" | sed 's/^+++ b\///' | xargs -n1 dirname | sort -u)
applies=no; builds=no; tests=no; demo_fails_with=no; demo_passes_without=no
if git apply "$dir/patch.diff"; then applies=yes; fi
mods=$(for p in $pkgs $pkgdir; do moddir "$p"; done | sort -u)
bok=1
for m in $mods; do
  (cd "$m" && go build ./... >/dev/null 2>&1 && go build -tags verif ./... >/dev/null 2>&1) || bok=0
done
[ $bok = 1 ] && builds=yes
ok=1
for p in $pkgs; do
  m=$(moddir "$p"); rel=${p#$m}; rel=${rel#/}
  case "$p" in
    resp) # two resp tests fail on the pinned tree already: compare by name
       go test -count=1 ./resp 2>&1 | grep "^--- FAIL" | sort > /tmp/resp_fail_$$; if [ "$(cat /tmp/resp_fail_$$ | awk '{print $3}' | tr '\n' ' ')" != "TestParseArrayHeader TestParseStream " ]; then ok=0; fi ;;
    *) (cd "$m" && timeout 1500 go test -count=1 ./$rel/ >/dev/null 2>&1) || ok=0 ;;
  esac
done
[ $ok = 1 ] && tests=yes
cp "$dir"/demo/*.go "$pkgdir"/
if ! (cd "$dmod" && timeout 300 $runcmd >/tmp/demo_with_$$ 2>&1); then demo_fails_with=yes; fi
git apply -R "$dir/patch.diff"
if (cd "$dmod" && timeout 300 $runcmd >/tmp/demo_without_$$ 2>&1); then demo_passes_without=yes; fi
echo "{\"applies\":\"$applies\",\"builds\":\"$builds\",\"existing_tests_pass\":\"$tests\",\"demo_fails_with_patch\":\"$demo_fails_with\",\"demo_passes_without_patch\":\"$demo_passes_without\",\"demo_cmd\":\"(in ${dmod}) $runcmd\",\"packages\":\"$(echo $pkgs)\"}"
