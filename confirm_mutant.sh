#!/bin/bash
# Development aid: confirm a candidate mutant independently.
#   ./confirm_mutant.sh <dir with patch.diff and demo/> 
# In a scratch worktree of /repo: patch applies, builds, the touched packages' tests pass, the demo fails with the
# patch and passes without it.  Prints a JSON summary on the last line.
set -u
dir=$(readlink -f "$1")
export GOFLAGS=-mod=mod GOPROXY=off GOSUMDB=off
scratch=/tmp/mut-confirm-$$
git -C /repo worktree add -q --detach "$scratch" HEAD || exit 2
trap 'git -C /repo worktree remove --force "$scratch" >/dev/null 2>&1' EXIT
cd "$scratch"
demo=$(ls "$dir"/demo/*.go | head -1)
hdr=$(head -1 "$demo")
pkgdir=$(echo "$hdr" | sed -n 's/.*copy to \([a-zA-Z_\/]*\)\/.*/\1/p')
runcmd=$(echo "$hdr" | sed -n 's/.*\(go test [^ ]* -run [A-Za-z0-9_]*\).*/\1/p')
[ -z "$pkgdir" ] && { echo "cannot parse demo header: $hdr"; exit 2; }
pkgs=$(grep '^+++ b/' "$dir/patch.diff" | sed 's/^+++ b\///' | xargs -n1 dirname | sort -u)
applies=no; builds=no; tests=no; demo_fails_with=no; demo_passes_without=no
if git apply "$dir/patch.diff"; then applies=yes; fi
if go build ./... >/dev/null 2>&1 && go build -tags verif ./... > /dev/null 2>&1; then builds=yes; fi
ok=1
for p in $pkgs; do
  case "$p" in
    etcd/*) mod=$(echo $p | cut -d/ -f1-2); [ -f "$mod/go.mod" ] || mod=$(echo $p | cut -d/ -f1-3); (cd $mod && go test -count=1 ./${p#$mod/}/ >/dev/null 2>&1) || ok=0 ;;
    resp) # two resp tests fail on the pinned tree already: compare by name
       go test -count=1 ./resp 2>&1 | grep "^--- FAIL" | sort > /tmp/resp_fail_$$; if [ "$(cat /tmp/resp_fail_$$ | awk '{print $3}' | tr '\n' ' ')" != "TestParseArrayHeader TestParseStream " ]; then ok=0; fi; rm -f /tmp/resp_fail_$$ ;;
    *) go test -count=1 ./$p/ >/dev/null 2>&1 || ok=0 ;;
  esac
done
[ $ok = 1 ] && tests=yes
cp "$dir"/demo/*.go "$pkgdir"/
if ! timeout 300 $runcmd -count=1 >/tmp/demo_with_$$ 2>&1; then demo_fails_with=yes; fi
git apply -R "$dir/patch.diff"
if timeout 300 $runcmd -count=1 >/tmp/demo_without_$$ 2>&1; then demo_passes_without=yes; fi
rm -f /tmp/demo_with_$$ /tmp/demo_without_$$
echo "{\"applies\":\"$applies\",\"builds\":\"$builds\",\"existing_tests_pass\":\"$tests\",\"demo_fails_with_patch\":\"$demo_fails_with\",\"demo_passes_without_patch\":\"$demo_passes_without\",\"demo_cmd\":\"$runcmd\",\"packages\":\"$pkgs\"}"
