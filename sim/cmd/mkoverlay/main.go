// mkoverlay prepares the `go build -overlay` input for engine E1:
//
//   - injects the cooperative lock package as <repo>/verifvsync (package
//     verifvsync, import path github.com/innovationb1ue/RedisGO/verifvsync);
//   - in every non-test file of memdb that imports "sync", re-points that import
//     to the cooperative package (import sync ".../verifvsync"), so that every
//     stripe, shard, stream and Pub/Sub lock becomes a scheduling point;
//   - splits `x.f++` / `x.f--` on struct fields in concurrentmap.go and
//     pubsub_struct.go into load; yield; store, so that a lost update on an
//     unsynchronised counter is a schedulable, replayable event;
//   - replaces the 100 ms poll period of the blocking pops by 100 ms + 1 ns;
//   - sorts the key list KEYS scans (Go map order cannot be seeded).
//
// Nothing under <repo> is modified; the rewritten copies live in -out.
package main

import (
	"encoding/json"
	"flag"
	"fmt"
	"os"
	"path/filepath"
	"regexp"
	"strings"
)

func main() {
	repo := flag.String("repo", "/repo", "repository root")
	out := flag.String("out", "", "output directory")
	vs := flag.String("vsync", "", "directory holding vsync.go")
	nosubst := flag.Bool("nosubst", false, "only inject the package (race sweep: real sync primitives)")
	flag.Parse()
	if *out == "" || *vs == "" {
		fmt.Println("usage: mkoverlay -repo R -out D -vsync V")
		os.Exit(2)
	}
	os.RemoveAll(*out)
	if err := os.MkdirAll(*out, 0o755); err != nil {
		panic(err)
	}
	replace := map[string]string{}
	vfiles, _ := filepath.Glob(filepath.Join(*vs, "*.go"))
	for _, f := range vfiles {
		if strings.HasSuffix(f, "_test.go") {
			continue
		}
		replace[filepath.Join(*repo, "verifvsync", filepath.Base(f))] = f
	}
	if !*nosubst {
		files, _ := filepath.Glob(filepath.Join(*repo, "memdb", "*.go"))
		rmw := regexp.MustCompile(`(?m)^(\s*)((?:\w+\.)+\w+)(\+\+|--)\s*$`)
		imp := regexp.MustCompile(`(?m)^(\s*)"sync"\s*$`)
		for _, f := range files {
			if strings.HasSuffix(f, "_test.go") {
				continue
			}
			b, err := os.ReadFile(f)
			if err != nil {
				panic(err)
			}
			src := string(b)
			orig := src
			base := filepath.Base(f)
			if imp.MatchString(src) {
				src = imp.ReplaceAllString(src, `${1}sync "github.com/innovationb1ue/RedisGO/verifvsync"`)
				if base == "concurrentmap.go" || base == "pubsub_struct.go" {
					src = rmw.ReplaceAllStringFunc(src, func(s string) string {
						m := rmw.FindStringSubmatch(s)
						op := "+"
						if m[3] == "--" {
							op = "-"
						}
						return fmt.Sprintf("%s{ verifTmp := %s; sync.Yield(); %s = verifTmp %s 1 }", m[1], m[2], m[2], op)
					})
				}
			}
			if base == "list.go" && strings.Contains(src, "time.NewTicker(100 * time.Millisecond)") {
				src = strings.Replace(src, "time.NewTicker(100 * time.Millisecond)", "time.NewTicker(verifvsync.PollInterval())", 1)
				src = strings.Replace(src, "import (", "import (\n\t\"github.com/innovationb1ue/RedisGO/verifvsync\"", 1)
			}
			if base == "keys.go" && strings.Contains(src, "allKeys := m.db.Keys()") {
				// KEYS walks the keyspace in Go map order, which no seed controls: in
				// the simulated build the scan (and with it the order of its lock
				// requests) is made canonical
				src = strings.Replace(src, "allKeys := m.db.Keys()", "allKeys := m.db.Keys()\n\tverifvsync.SortStrings(allKeys)", 1)
				src = strings.Replace(src, "import (", "import (\n\t\"github.com/innovationb1ue/RedisGO/verifvsync\"", 1)
			}
			if src != orig {
				dst := filepath.Join(*out, base)
				if err := os.WriteFile(dst, []byte(src), 0o644); err != nil {
					panic(err)
				}
				replace[f] = dst
			}
		}
	}
	b, _ := json.MarshalIndent(map[string]any{"Replace": replace}, "", " ")
	if err := os.WriteFile(filepath.Join(*out, "overlay.json"), b, 0o644); err != nil {
		panic(err)
	}
}
