package e1

import (
	"runtime"
	"encoding/json"
	"fmt"
	"io"
	"log"
	"os"
	"os/signal"
	"syscall"
	"sort"
	"strings"
	"testing"
	"time"

	"github.com/innovationb1ue/RedisGO/config"
	"github.com/innovationb1ue/RedisGO/logger"

	"verifsim/core"
)

// PropDef is one property's workload generator and oracle on engine E1.
type PropDef struct {
	ID string
	// Gen builds the scenario of one run from the run's PRNG.
	Gen func(rng *core.Rand, env *core.Env, run int) *Scenario
	// Judge returns ("","") when the property held on this run.
	Judge func(sc *Scenario, rr *RunResult, env *core.Env) (sig, msg string)
	// Nontrivial reports whether the run counts towards distinct_nontrivial.
	Nontrivial func(sc *Scenario, rr *RunResult) bool
	// Runner replaces the world runner for scenarios that need their own bubble.
	Runner      func(t *testing.T, sc *Scenario, tape *core.Tape, j *core.Journal, keep bool) *RunResult
	ReplayExact func(sc *Scenario) bool
}

var props = map[string]*PropDef{}

func register(p *PropDef) { props[p.ID] = p }

type Engine struct {
	T *testing.T
}

var setupDone bool

func setupProcess() {
	if setupDone {
		return
	}
	setupDone = true
	dir, err := os.MkdirTemp("", "verif-e1-log")
	if err == nil {
		cfg := &config.Config{LogDir: dir, LogLevel: "panic"}
		if logger.SetUp(cfg) == nil {
			logger.Disable()
		}
		os.RemoveAll(dir)
	}
	log.SetOutput(io.Discard)
	// server.Start calls signal.Notify: the runtime's signal-mask goroutine and its
	// channels must come into being outside any synctest bubble
	signal.Notify(make(chan os.Signal, 1), syscall.SIGUSR2)
}

func tapeSeed(env *core.Env, run int) uint64 {
	return core.Mix(core.RunSeed(env.Seed, env.Property, run), 0x7a9e)
}

func (e *Engine) Run(env *core.Env, run int, res *core.Result) *core.Violation {
	setupProcess()
	def := props[env.Property]
	if def == nil {
		panic("e1: unknown property " + env.Property)
	}
	rng := core.NewRand(core.RunSeed(env.Seed, env.Property, run))
	sc := def.Gen(rng, env, run)
	race := os.Getenv("VERIF_RACE") == "1"
	if race {
		sc.Knobs.Burst = true
		sc.Knobs.YieldRMW = false
		if env.Property == "C20" {
			// the connections go through the real accept loop of server.Start
			sc.Knobs.ViaStart = true
		}
		for i := range sc.Clients {
			sc.Clients[i].Chunked = false
		}
	}
	body, _ := json.Marshal(sc)
	c := &core.Case{Property: env.Property, Engine: "e1", Seed: env.Seed, Run: run, Body: body, GenTape: true, ReplayExact: !race}
	if race {
		c.Profile = "race"
	}
	env.J.Begin(c)
	tape := core.NewGenTape(core.NewRand(tapeSeed(env, run)))
	rr := runWith(def, e.T, sc, tape, env.J, false)
	env.J.Done()
	sig, msg := judge(def, sc, rr, env)
	account(def, sc, rr, res, run)
	if d := os.Getenv("VERIF_DUMPTRACE"); d != "" {
		os.WriteFile(fmt.Sprintf("%s/run%d.trace", d, run), []byte(strings.Join(rr.Trace, "\n")+"\n"), 0o644)
	}
	if f := os.Getenv("VERIF_DETLOG"); f != "" {
		if fh, err := os.OpenFile(f, os.O_APPEND|os.O_CREATE|os.O_WRONLY, 0o644); err == nil {
			if rr.MapOrderDependent || sc.Kind == "C19" {
				// SPOP-like choices, Pub/Sub fan-out order and the order in which a KEYS scan
				// competes for stripes follow Go's map iteration order, which no seed controls
				fmt.Fprintf(fh, "run=%d hash=(depends on map iteration order) sig=%s\n", run, sig)
			} else {
				fmt.Fprintf(fh, "run=%d hash=%016x sig=%s\n", run, rr.TraceHash, sig)
			}
			fh.Close()
		}
	}
	if sig == "" {
		return nil
	}
	c.Tape = tape.Used()
	c.GenTape = false
	c.Signature = sig
	c.Message = msg
	if def.ReplayExact != nil {
		c.ReplayExact = def.ReplayExact(sc)
	}
	if rr.MapOrderDependent || sc.Kind == "C19" {
		// outcome may depend on Go map iteration order inside the server
		// (random-choice commands, KEYS scan order, Pub/Sub fan-out order)
		c.ReplayExact = false
	}
	c.Trace = tail(rr.Trace, 80)
	return &core.Violation{Signature: sig, Message: msg, Case: c}
}

func runWith(def *PropDef, t *testing.T, sc *Scenario, tape *core.Tape, j *core.Journal, keep bool) *RunResult {
	if def.Runner != nil {
		return def.Runner(t, sc, tape, j, keep)
	}
	return RunScenario(t, sc, tape, j, keep)
}

// collapseIdle squeezes runs of idle clock advances so that the interesting
// part of a trace fits into its tail.
func collapseIdle(s []string) []string {
	var out []string
	run := 0
	flush := func() {
		if run > 1 {
			out = append(out, fmt.Sprintf("(... %d idle clock advances)", run))
		} else if run == 1 {
			out = append(out, "idle")
		}
		run = 0
	}
	for _, l := range s {
		if strings.HasPrefix(l, "idle") {
			run++
			continue
		}
		flush()
		out = append(out, l)
	}
	flush()
	return out
}

func tail(s []string, n int) []string {
	s = collapseIdle(s)
	if len(s) > n {
		s = s[len(s)-n:]
	}
	return append([]string(nil), s...)
}

func account(def *PropDef, sc *Scenario, rr *RunResult, res *core.Result, run int) {
	res.Steps += int64(rr.Steps)
	if el := int64(rr.SimElapsed); el > 0 && el < int64(100*24*time.Hour) {
		res.SimNs += float64(el)
	} else if el > 0 {
		res.SimNs += float64(100 * 24 * time.Hour) // far-future deadline probes: capped at 100 days per run
	}
	for k, v := range rr.Faults {
		res.Fault(k, v)
	}
	for k, v := range rr.Probes {
		res.Probe(k, v)
	}
	if rr.Preemptions > 0 {
		res.Fault("preemption", int64(rr.Preemptions))
	}
	if rr.HeldSwitch > 0 {
		res.Fault("switch-while-lock-held", int64(rr.HeldSwitch))
	}
	nt := true
	if def.Nontrivial != nil {
		nt = def.Nontrivial(sc, rr)
	}
	res.AddTrace(rr.TraceHash, nt)
	for _, d := range rr.FinalDump {
		res.AddState(core.HashString(strings.Join(d, "\n")))
	}
	if len(res.Samples) < 2 {
		var progs []string
		for _, c := range sc.Clients {
			var steps []string
			for i, s := range c.Steps {
				if i >= 12 {
					steps = append(steps, "...")
					break
				}
				switch s.Kind {
				case "cmd":
					steps = append(steps, truncate(cmdString(s.Args), 60))
				case "sleep":
					steps = append(steps, "sleep "+s.Sleep.String())
				default:
					steps = append(steps, s.Kind)
				}
			}
			progs = append(progs, c.Name+": "+strings.Join(steps, " ; "))
		}
		res.AddSample(map[string]any{"run": run, "kind": sc.Kind, "knobs": sc.Knobs, "programs": progs, "schedule_head": tail2(rr.Trace, 25)})
	}
}

func tail2(s []string, n int) []string {
	if len(s) > n {
		s = s[:n]
	}
	return append([]string(nil), s...)
}

// judge: the checks every E1 property shares (a server that dies, deadlocks,
// leaks a lock or corrupts its structures fails whatever it was serving), then
// the property's own oracle.
func judge(def *PropDef, sc *Scenario, rr *RunResult, env *core.Env) (string, string) {
	p := def.ID
	if len(rr.Panics) > 0 {
		sort.Strings(rr.Panics)
		first := rr.Panics[0]
		if strings.HasPrefix(first, "harness:") {
			return p + "/harness-panic", first
		}
		// attribute to the command that client was executing
		name := first
		if i := strings.Index(first, ":"); i > 0 {
			name = first[:i]
		}
		for _, c := range rr.Clients {
			if c.prog.Name == name && len(c.waiting) > 0 {
				return deathSignature(sc.Kind, c.waiting[0].Args), "server would have died (no recover on any path): " + first + " while executing " + cmdString(c.waiting[0].Args)
			}
		}
		return p + "/process-died/unattributed", first
	}
	if len(rr.VsyncErrs) > 0 {
		return p + "/lock-discipline/bad-unlock", strings.Join(rr.VsyncErrs, "; ")
	}
	if rr.Deadlock != "" {
		return p + "/deadlock/" + stuckClass(rr), "deadlock: " + rr.Deadlock + " ;; " + waitingCmds(rr)
	}
	if rr.LockLeak != "" {
		return p + "/lock-leak/" + stuckClass(rr), "a command returned while still holding a lock: " + rr.LockLeak
	}
	if rr.Invariant != "" && !strings.Contains(rr.Invariant, "deadline recorded for key") && !strings.HasPrefix(rr.Invariant, "C02/") {
		return p + "/structure/" + invariantClass(rr.Invariant), rr.Invariant
	}
	for i, c := range rr.Clients {
		if c.malformed != "" {
			// the reply stream of this connection stopped being RESP: blame the
			// last command whose reply was being read
			blame := "none"
			cmd := ""
			if c.lastDone != nil {
				blame, cmd = c04Class(c.lastDone.Args), cmdString(c.lastDone.Args)
			} else if len(c.waiting) > 0 {
				blame, cmd = c04Class(c.waiting[0].Args), cmdString(c.waiting[0].Args)
			}
			return "C03/reply-not-resp/" + blame, fmt.Sprintf("client %d: after %s: %s", i, cmd, c.malformed)
		}
	}
	if def.Judge != nil {
		if sig, msg := def.Judge(sc, rr, env); sig != "" {
			return sig, msg
		}
	}
	if rr.Stuck != "" {
		return p + "/no-reply/" + stuckClass(rr), "a client never received its reply: " + rr.Stuck
	}
	if rr.StepLimit {
		return p + "/harness-step-limit", fmt.Sprintf("run did not finish within %d steps: %s", rr.Steps, waitingCmds(rr))
	}
	return "", ""
}

func invariantClass(s string) string {
	switch {
	case strings.Contains(s, "keyspace counter"):
		return "key-counter-drift"
	case strings.Contains(s, "deadline-table counter"):
		return "ttl-counter-drift"
	case strings.Contains(s, "list"):
		return "list"
	case strings.Contains(s, "sorted set"):
		return "sorted-set"
	case strings.Contains(s, "stream"):
		return "stream"
	}
	return "other"
}

func lastCmdClass(c *clientState) string {
	if len(c.ops) == 0 {
		return "none"
	}
	return cmdClass(c.ops[len(c.ops)-1].Args)
}

func cmdClass(a []B) string {
	if len(a) == 0 {
		return "raw"
	}
	n := strings.ToUpper(string(a[0]))
	if !isPrintable(n) || len(n) > 20 {
		n = "?"
	}
	return n
}

func waitingCmds(rr *RunResult) string {
	var parts []string
	for i, c := range rr.Clients {
		for _, op := range c.waiting {
			parts = append(parts, fmt.Sprintf("c%d: %s", i, truncate(cmdString(op.Args), 80)))
		}
	}
	return strings.Join(parts, " | ")
}

// stuckClass: the sorted set of command names still waiting for a reply.
func stuckClass(rr *RunResult) string {
	set := map[string]bool{}
	for _, c := range rr.Clients {
		if c.closed {
			continue
		}
		for _, op := range c.waiting {
			set[cmdClass(op.Args)] = true
		}
	}
	var names []string
	for n := range set {
		names = append(names, n)
	}
	sort.Strings(names)
	if len(names) == 0 {
		return "none"
	}
	return strings.Join(names, "+")
}

func (e *Engine) Replay(env *core.Env, c *core.Case) (string, string, []string) {
	setupProcess()
	def := props[c.Property]
	if def == nil {
		return c.Property + "/harness-unknown-property", "", nil
	}
	sc := &Scenario{}
	if err := json.Unmarshal(c.Body, sc); err != nil {
		return c.Property + "/harness-bad-case", err.Error(), nil
	}
	var tape *core.Tape
	if c.GenTape {
		e2 := *env
		e2.Seed, e2.Property = c.Seed, c.Property
		tape = core.NewGenTape(core.NewRand(tapeSeed(&e2, c.Run)))
	} else {
		tape = core.NewReplayTape(c.Tape)
	}
	env.J.Begin(c)
	rr := runWith(def, e.T, sc, tape, env.J, true)
	sig, msg := judge(def, sc, rr, env)
	return sig, msg, tail(rr.Trace, 120)
}

// Minimise: fewer clients, shorter programs (ddmin), then a shorter and
// zero-er tape, while the same signature persists.  Every candidate is a fresh
// deterministic run.
// flushProcessState empties what the code under test may keep in the process
// between runs and a fresh replay process would not have: sync.Pool contents
// are dropped by two garbage collections.
func flushProcessState() {
	runtime.GC()
	runtime.GC()
}

// Confirm re-runs a case with the process state flushed (core.Confirmer).
func (e *Engine) Confirm(env *core.Env, c *core.Case) bool {
	def := props[c.Property]
	sc := &Scenario{}
	if def == nil || json.Unmarshal(c.Body, sc) != nil {
		return true
	}
	flushProcessState()
	rr := runWith(def, e.T, sc, core.NewReplayTape(c.Tape), nil, false)
	sig, _ := judge(def, sc, rr, env)
	return sig == c.Signature
}

func (e *Engine) Minimise(env *core.Env, c *core.Case) *core.Case {
	def := props[c.Property]
	sc := &Scenario{}
	if def == nil || json.Unmarshal(c.Body, sc) != nil {
		return c
	}
	budget := 400
	try := func(s *Scenario, tape []uint32) bool {
		if budget <= 0 {
			return false
		}
		budget--
		cp := cloneScenario(s)
		flushProcessState()
		rr := runWith(def, e.T, cp, core.NewReplayTape(tape), nil, false)
		sig, _ := judge(def, cp, rr, env)
		return sig == c.Signature
	}
	tape := c.Tape
	if !try(sc, tape) {
		return c // not reproducible in-process (e.g. depends on map order)
	}
	// drop whole clients
	for i := len(sc.Clients) - 1; i >= 0 && len(sc.Clients) > 1; i-- {
		cand := cloneScenario(sc)
		cand.Clients = append(cand.Clients[:i], cand.Clients[i+1:]...)
		if try(cand, tape) {
			sc = cand
		}
	}
	// ddmin each client's program
	for i := range sc.Clients {
		steps := core.DDMin(sc.Clients[i].Steps, func(ss []Step) bool {
			cand := cloneScenario(sc)
			cand.Clients[i].Steps = ss
			return try(cand, tape)
		})
		sc.Clients[i].Steps = steps
	}
	// preload
	if len(sc.Knobs.Preload) > 0 {
		sc.Knobs.Preload = core.DDMin(sc.Knobs.Preload, func(pp [][]B) bool {
			cand := cloneScenario(sc)
			cand.Knobs.Preload = pp
			return try(cand, tape)
		})
	}
	// chunking and strategy off
	for i := range sc.Clients {
		if sc.Clients[i].Chunked {
			cand := cloneScenario(sc)
			cand.Clients[i].Chunked = false
			if try(cand, tape) {
				sc = cand
			}
		}
	}
	budget += 300
	tape = core.MinimiseTape(tape, func(t []uint32) bool { return try(sc, t) })
	body, _ := json.Marshal(sc)
	out := *c
	out.Body = body
	out.Tape = tape
	out.Minimised = true
	rr := runWith(def, e.T, cloneScenario(sc), core.NewReplayTape(tape), nil, true)
	sig, msg := judge(def, sc, rr, env)
	if sig != c.Signature {
		return c
	}
	out.Message = msg
	out.Trace = tail(rr.Trace, 80)
	return &out
}

func cloneScenario(s *Scenario) *Scenario {
	b, _ := json.Marshal(s)
	c := &Scenario{}
	json.Unmarshal(b, c)
	return c
}
