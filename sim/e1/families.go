package e1

import (
	"strings"
	"fmt"
	"time"

	"verifsim/core"
	"verifsim/refmodel"
)

// Generators of the data-type properties C09-C12 and C18 (lock-step oracle).

func init() {
	c09ls := genLockstep(lsFamily{prop: "C09", gen: genListCmd, plainKeys: true, seedOthers: true})
	register(&PropDef{ID: "C09",
		Gen: func(r *core.Rand, env *core.Env, run int) *Scenario {
			if run%4 == 3 {
				return genC09Blocking(r, env, run)
			}
			return c09ls(r, env, run)
		},
		Judge: func(sc *Scenario, rr *RunResult, env *core.Env) (string, string) {
			if sc.Kind == "C09:blocking" {
				if sig, msg := judgeC09Blocking(sc, rr, env); sig != "" {
					return sig, msg
				}
				return judgeC09BlockingLin(sc, rr, env)
			}
			return judgeLockstep("C09")(sc, rr, env)
		},
		Nontrivial: func(sc *Scenario, rr *RunResult) bool {
			if sc.Kind == "C09:blocking" {
				return rr.Probes["blocking-pop-got-element"]+rr.Probes["blocking-pop-timed-out"] > 0
			}
			return ntLockstep(sc, rr)
		}})
	register(&PropDef{ID: "C10", Gen: genLockstep(lsFamily{prop: "C10", gen: genHashCmd, plainKeys: true, seedOthers: true, useTime: true}), Judge: judgeLockstep("C10"), Nontrivial: ntLockstep})
	register(&PropDef{ID: "C11", Gen: genLockstep(lsFamily{prop: "C11", gen: genSetCmd, plainKeys: true, seedOthers: true, useTime: true}), Judge: judgeLockstep("C11"), Nontrivial: ntLockstep})
	register(&PropDef{ID: "C12", Gen: genLockstep(lsFamily{prop: "C12", gen: genZSetCmd, plainKeys: true, seedOthers: true, useTime: true}), Judge: judgeLockstep("C12"), Nontrivial: ntLockstep})
	register(&PropDef{ID: "C18", Gen: genLockstep(lsFamily{prop: "C18", gen: genStreamCmd, plainKeys: true, seedOthers: true, useTime: true}), Judge: judgeLockstep("C18"), Nontrivial: ntLockstep})
}

var elemPool = []string{"a", "b", "c", "a", "b", "", "x y", "\r\n", "\x00", "dup", "dup", "Z", "10", "-1"}

func (g *lsGen) elem() string {
	if g.r.Bool(0.2) {
		return fmt.Sprintf("e%d", g.r.Intn(50))
	}
	return pick(g.r, elemPool)
}

func (g *lsGen) idx() string {
	return itoa(pick(g.r, []int{0, 1, 2, 3, -1, -2, -3, 5, -7, 100, -100}))
}

func genListCmd(g *lsGen) {
	r := g.r
	k := g.key()
	switch r.Intn(24) {
	case 0, 1, 2:
		a := bs("rpush", k)
		for i := 0; i < 1+r.Intn(4); i++ {
			a = append(a, B(g.elem()))
		}
		g.try(a)
	case 3, 4:
		a := bs("lpush", k)
		for i := 0; i < 1+r.Intn(3); i++ {
			a = append(a, B(g.elem()))
		}
		g.try(a)
	case 5:
		g.try(bs(pick(r, []string{"lpushx", "rpushx"}), k, g.elem()))
	case 6, 7:
		g.try(bs(pick(r, []string{"lpop", "rpop"}), k))
	case 8:
		g.try(bs(pick(r, []string{"lpop", "rpop"}), k, itoa(pick(r, []int{1, 2, 3, 10, 0, -1}))))
	case 9:
		g.try(bs("llen", k))
	case 10, 11:
		g.try(bs("lindex", k, g.idx()))
	case 12, 13:
		g.try(bs("lrange", k, g.idx(), g.idx()))
	case 14:
		g.try(bs("lset", k, g.idx(), g.elem()))
	case 15, 16:
		g.try(bs("lrem", k, itoa(pick(r, []int{0, 1, 2, -1, -2, 5})), g.elem()))
	case 17, 18:
		g.try(bs("ltrim", k, g.idx(), g.idx()))
	case 19, 20:
		a := bs("lpos", k, g.elem())
		if r.Bool(0.5) {
			a = append(a, B("rank"), B(itoa(pick(r, []int{1, 2, -1, -2, 3, 0}))))
		}
		if r.Bool(0.4) {
			a = append(a, B("count"), B(itoa(pick(r, []int{0, 1, 2, 5}))))
		}
		if r.Bool(0.3) {
			a = append(a, B("maxlen"), B(itoa(pick(r, []int{0, 1, 2, 3, 10}))))
		}
		g.try(a)
	case 21, 22:
		g.try(bs("lmove", k, g.key(), pick(r, []string{"left", "right", "LEFT"}), pick(r, []string{"left", "right", "RIGHT"})))
	case 23:
		// a blocking pop that finds data at once (blocking behaviour proper is
		// exercised by the dedicated C09 blocking scenario)
		e, ok := g.m.DBs[0].Keys[k]
		if ok && e.T == refmodel.TList && len(e.L) > 0 {
			if r.Bool(0.5) {
				// several keys: the first one, in argument order, that holds a list
				// with data is served (missing keys before it are skipped)
				a := bs(pick(r, []string{"blpop", "brpop"}))
				ks := []string{k}
				for i := 0; i < 1+r.Intn(2); i++ {
					k2 := g.key()
					if e2, ok2 := g.m.DBs[0].Keys[k2]; ok2 && e2.T != refmodel.TList {
						continue // (a key of another type: C04's subject)
					}
					ks = append(ks, k2)
				}
				for i := len(ks) - 1; i > 0; i-- {
					j := r.Intn(i + 1)
					ks[i], ks[j] = ks[j], ks[i]
				}
				for _, x := range ks {
					a = append(a, B(x))
				}
				g.try(append(a, B("1")))
			} else {
				g.try(bs(pick(r, []string{"blpop", "brpop"}), k, "1"))
			}
		} else {
			g.try(bs("del", k))
		}
	}
}

var fieldPool = []string{"f1", "f2", "f3", "", "F1", "a b", "\r\n", "n", "x"}

func (g *lsGen) field() string { return pick(g.r, fieldPool) }

func genHashCmd(g *lsGen) {
	r := g.r
	k := g.key()
	switch r.Intn(22) {
	case 0, 1, 2, 3:
		a := bs("hset", k)
		for i := 0; i < 1+r.Intn(3); i++ {
			a = append(a, B(g.field()), B(g.value()))
		}
		if r.Bool(0.05) {
			a = append(a, B("odd"))
		}
		g.try(a)
	case 4:
		g.try(bs("hsetnx", k, g.field(), g.value()))
	case 5, 6:
		g.try(bs("hget", k, g.field()))
	case 7:
		a := bs("hmget", k)
		for i := 0; i < 1+r.Intn(3); i++ {
			a = append(a, B(g.field()))
		}
		g.try(a)
	case 8:
		g.try(bs("hgetall", k))
	case 9:
		g.try(bs("hkeys", k))
	case 10:
		g.try(bs("hvals", k))
	case 11:
		g.try(bs("hlen", k))
	case 12:
		g.try(bs("hexists", k, g.field()))
	case 13:
		g.try(bs("hstrlen", k, g.field()))
	case 14, 15:
		a := bs("hdel", k)
		for i := 0; i < 1+r.Intn(3); i++ {
			a = append(a, B(g.field()))
		}
		g.try(a)
	case 16, 17:
		g.try(bs("hincrby", k, g.field(), pick(r, []string{"1", "-1", "5", "9223372036854775807", "-9223372036854775808", "x", "1.5", ""})))
	case 18:
		g.try(bs("hincrbyfloat", k, g.field(), pick(r, append(dyadic, "nan", "inf", "x"))))
	case 19, 20:
		a := bs("hrandfield", k)
		if r.Bool(0.7) {
			a = append(a, B(itoa(pick(r, []int{1, 2, 5, 0, -1, -3, 100}))))
			if r.Bool(0.4) {
				a = append(a, B(pick(r, []string{"withvalues", "WITHVALUES"})))
			}
		}
		g.try(a)
	case 21:
		if g.timeOK {
			g.try(bs("expire", k, itoa(1+r.Intn(3))))
		} else {
			g.try(bs("del", k))
		}
	}
}

var memberPool = []string{"m1", "m2", "m3", "m4", "", "M1", "a b", "\r\n", "x"}

func (g *lsGen) member() string { return pick(g.r, memberPool) }

func genSetCmd(g *lsGen) {
	r := g.r
	k := g.key()
	manyKeys := func(a []B) []B {
		for i := 0; i < r.Intn(3); i++ {
			a = append(a, B(g.key()))
		}
		if r.Bool(0.15) {
			a = append(a, B(g.prefix+"missing"))
		}
		return a
	}
	switch r.Intn(24) {
	case 0, 1, 2, 3:
		a := bs("sadd", k)
		for i := 0; i < 1+r.Intn(4); i++ {
			a = append(a, B(g.member()))
		}
		g.try(a)
	case 4, 5:
		a := bs("srem", k)
		for i := 0; i < 1+r.Intn(3); i++ {
			a = append(a, B(g.member()))
		}
		g.try(a)
	case 6:
		g.try(bs("sismember", k, g.member()))
	case 7:
		g.try(bs("scard", k))
	case 8, 9:
		g.try(bs("smembers", k))
	case 10, 11:
		g.try(bs("smove", k, g.key(), g.member()))
	case 12, 13:
		a := bs("spop", k)
		if r.Bool(0.6) {
			a = append(a, B(itoa(pick(r, []int{1, 2, 100, 0}))))
		}
		g.try(a)
	case 14, 15:
		a := bs("srandmember", k)
		if r.Bool(0.7) {
			a = append(a, B(itoa(pick(r, []int{1, 2, 100, 0, -1, -4}))))
		}
		g.try(a)
	case 16:
		g.try(manyKeys(bs("sunion", k)))
	case 17:
		g.try(manyKeys(bs("sinter", k)))
	case 18:
		g.try(manyKeys(bs("sdiff", k)))
	case 19:
		g.try(manyKeys(bs("sunionstore", g.key(), k)))
	case 20:
		g.try(manyKeys(bs("sinterstore", g.key(), k)))
	case 21:
		g.try(manyKeys(bs("sdiffstore", g.key(), k)))
	case 22:
		g.try(bs("del", k))
	case 23:
		if g.timeOK {
			g.try(bs("expire", k, itoa(1+r.Intn(3))))
		} else {
			g.try(bs("scard", k))
		}
	}
}

// (the last eight need 16 or 17 significant digits to be reported exactly)
var scorePool = []string{"0", "1", "1", "2", "2", "3", "-1", "1.5", "-2.25", "10", "inf", "-inf", "+inf", "1e3", "5", "5", "nan", "x", "",
	"1700000000123457", "9007199254740991", "0.1", "0.2", "123456789.12345678", "-4503599627370497", "3.0000000000000004", "0.30000000000000004"}

func genZSetCmd(g *lsGen) {
	r := g.r
	k := g.key()
	mem := func() string { return pick(r, []string{"a", "b", "c", "d", "e", "f", "g", "h", "A", "", "x y"}) }
	switch r.Intn(16) {
	case 0, 1, 2, 3, 4, 5:
		a := bs("zadd", k)
		hasIncr := false
		if r.Bool(0.25) {
			for _, o := range pick(r, [][]string{{"nx"}, {"xx"}, {"gt"}, {"lt"}, {"ch"}, {"xx", "ch"}, {"incr"}, {"xx", "incr"}, {"NX"}, {"CH"}, {"gt", "ch"}, {"lt", "xx"}, {"nx", "xx"}, {"gt", "lt"}}) {
				a = append(a, B(o))
				hasIncr = hasIncr || o == "incr"
			}
		} else if r.Bool(0.4) {
			// any combination of the four option groups, in any order and letter case
			var os []string
			if r.Bool(0.35) {
				os = append(os, pick(r, []string{"nx", "xx", "xx"}))
			}
			if r.Bool(0.5) {
				os = append(os, pick(r, []string{"gt", "lt"}))
			}
			if r.Bool(0.3) {
				os = append(os, "ch")
			}
			if r.Bool(0.5) {
				os = append(os, "incr")
				hasIncr = true
			}
			for i := len(os) - 1; i > 0; i-- {
				j := r.Intn(i + 1)
				os[i], os[j] = os[j], os[i]
			}
			for _, o := range os {
				if r.Bool(0.2) {
					o = strings.ToUpper(o)
				}
				a = append(a, B(o))
			}
		}
		n := 1 + r.Intn(3)
		if r.Bool(0.3) || (hasIncr && r.Bool(0.9)) {
			n = 1
		}
		for i := 0; i < n; i++ {
			a = append(a, B(pick(r, scorePool)), B(mem()))
		}
		g.try(a)
	case 6, 7, 8:
		a := bs("zrem", k)
		for i := 0; i < 1+r.Intn(2); i++ {
			a = append(a, B(mem()))
		}
		g.try(a)
	case 9, 10, 11, 12:
		a := bs("zrange", k, g.idx(), g.idx())
		if r.Bool(0.3) {
			a = append(a, B(pick(r, []string{"rev", "REV"})))
		}
		if r.Bool(0.5) {
			a = append(a, B(pick(r, []string{"withscores", "WITHSCORES"})))
		}
		g.try(a)
	case 13, 14:
		g.try(bs("zrank", k, mem()))
	case 15:
		if g.timeOK {
			g.try(bs("expire", k, itoa(1+r.Intn(3))))
		} else {
			g.try(bs("del", k))
		}
	}
}

func genStreamCmd(g *lsGen) {
	r := g.r
	k := g.key()
	nowMS := g.now.UnixMilli()
	switch r.Intn(14) {
	case 0, 1, 2, 3, 4, 5, 6:
		a := bs("xadd", k)
		if r.Bool(0.12) {
			a = append(a, B(pick(r, []string{"nomkstream", "NOMKSTREAM"})))
		}
		if r.Bool(0.2) {
			switch r.Intn(3) {
			case 0:
				a = append(a, B("maxlen"), B(itoa(r.Intn(4))))
			case 1:
				a = append(a, B("maxlen"), B("="), B(itoa(r.Intn(4))))
			case 2:
				a = append(a, B("minid"), B(pick(r, []string{"0", "2", "3-1", "1000"})))
			}
		}
		var id string
		switch r.Intn(10) {
		case 0, 1, 2:
			id = "*"
		case 3:
			id = fmt.Sprintf("%d-*", pick(r, []int64{1, 2, 5, nowMS, nowMS + 5000, 0}))
		case 4, 5, 6:
			id = fmt.Sprintf("%d-%d", r.Intn(6), r.Intn(4))
		case 7:
			id = itoa(r.Intn(7))
		case 8:
			id = fmt.Sprintf("%d-%d", nowMS+int64(pick(r, []int{-1000, 0, 5000, 3600000})), r.Intn(3))
		default:
			id = pick(r, []string{"0-0", "abc", "1-2-3", "-1", "18446744073709551615-18446744073709551615", ""})
		}
		a = append(a, B(id))
		for i := 0; i < 1+r.Intn(2); i++ {
			a = append(a, B(g.field()), B(g.value()))
		}
		if r.Bool(0.05) {
			a = append(a, B("odd"))
		}
		g.try(a)
	case 7, 8, 9, 10, 11:
		bound := func() string {
			switch r.Intn(8) {
			case 0, 1:
				return "-"
			case 2, 3:
				return "+"
			case 4:
				return itoa(r.Intn(6))
			case 5:
				return fmt.Sprintf("%d-%d", r.Intn(6), r.Intn(4))
			case 6:
				return fmt.Sprintf("%d", nowMS)
			default:
				return fmt.Sprintf("(%d-%d", r.Intn(6), r.Intn(4))
			}
		}
		a := bs("xrange", k, bound(), bound())
		if r.Bool(0.15) {
			a = append(a, B("count"), B(itoa(1+r.Intn(3))))
		}
		g.try(a)
	case 12:
		if g.timeOK {
			// same-millisecond bursts and forward jumps
			g.sleep(pick(r, []time.Duration{time.Millisecond, 3 * time.Millisecond, time.Second, time.Hour}))
		} else {
			g.try(bs("exists", k))
		}
	case 13:
		g.try(bs("del", k))
	}
}
