package e1

import (
	"encoding/json"
	"fmt"
	"strings"
	"time"

	"verifsim/core"
	"verifsim/refmodel"
)

// Lock-step oracle: a client that exclusively owns its keys is compared reply
// by reply with the reference model, deterministically.  Several such clients
// (disjoint key prefixes) run concurrently: each must see its own sequential
// semantics whatever the others do on colliding stripes and shards.

var t2000 = time.Date(2000, 1, 1, 0, 0, 0, 0, time.UTC)

type lsExtra struct {
	Aim bool `json:"aim"` // this run does not steer away from listed findings
}

// knownClass reports whether the trigger class is listed in KNOWN_FINDINGS
// (for any property): generators avoid such command instances.
func knownClass(env *core.Env, class string) bool {
	for sig := range env.Known {
		if strings.HasSuffix(sig, "/"+class) || strings.HasSuffix(sig, "/state-after:"+class) {
			return true
		}
	}
	return false
}

type lsGen struct {
	r      *core.Rand
	env    *core.Env
	m      *refmodel.Model
	now    time.Time
	prefix string
	keys   []string
	steps  []Step
	aim    bool
	conn   int
	budget int
	timeOK bool
}

func newLsGen(r *core.Rand, env *core.Env, prefix string, ndb int, aim bool) *lsGen {
	return &lsGen{r: r, env: env, m: refmodel.New(ndb), now: t2000.Add(500 * time.Millisecond), prefix: prefix, aim: aim, budget: 40}
}

// try emits the command unless its class is a listed finding (and the run is
// not an aiming run).  Returns whether it was emitted.
func (g *lsGen) try(a []B) bool {
	if len(g.steps) >= 400 {
		return false
	}
	if !g.aim {
		if knownClass(g.env, classify(g.m, g.conn, a, g.now)) {
			return false
		}
	}
	g.steps = append(g.steps, Step{Kind: "cmd", Args: a})
	g.m.Exec(g.conn, argv(a), g.now)
	return true
}

func (g *lsGen) sleep(d time.Duration) {
	g.steps = append(g.steps, Step{Kind: "sleep", Sleep: d})
	g.now = g.now.Add(d)
}

func (g *lsGen) key() string { return pick(g.r, g.keys) }

// ambiguousNow: is any key inside its one-second expiry window at the
// generator's clock?  Lock-step programs (other than C06) do not probe there.
func (g *lsGen) settle() {
	for i := 0; i < 4; i++ {
		if len(g.m.AmbiguousKeys(g.conn, g.now)) == 0 {
			return
		}
		g.sleep(time.Second)
	}
}

// keyNames: a small pool of adversarial key names under the client's prefix.
func keyPool(r *core.Rand, prefix string, n int, plain bool) []string {
	pool := []string{"a", "b", "c", "d"}
	if !plain {
		pool = []string{"a", "b", "Key", "KEY", "k:1", "", "sp ace", "x\r\ny", "\x00z", "\xff\xfe", "*", "a?", "[k]"}
	}
	var out []string
	seen := map[string]bool{}
	for len(out) < n {
		k := prefix + pick(r, pool)
		if !seen[k] {
			seen[k] = true
			out = append(out, k)
		}
		if len(seen) >= len(pool) {
			break
		}
	}
	return out
}

var valuePool = []string{"", "x", "hello", "0", "1", "-1", "10", "007", "3.5", "-0.25", "1e3", " 12", "12 ", "+5", "9223372036854775807",
	"-9223372036854775808", "9223372036854775806", "abc def", "line\r\nbreak", "\x00bin\xff", "\xe4\xb8\xad", "OK", "nil", "(nil)", "$-1"}

func (g *lsGen) value() string {
	if g.r.Bool(0.25) {
		return fmt.Sprintf("u%d", g.r.Intn(1000))
	}
	return pick(g.r, valuePool)
}

func itoa(i int) string { return fmt.Sprint(i) }

// readBack appends reads of the key appropriate to its model type.
func (g *lsGen) readBack(k string) {
	g.try(bs("exists", k))
	g.try(bs("type", k))
	e, ok := g.m.DBs[g.m.Selected[g.conn]].Keys[k]
	if !ok {
		return
	}
	switch e.T {
	case refmodel.TString:
		g.try(bs("get", k))
		g.try(bs("strlen", k))
	case refmodel.TList:
		g.try(bs("lrange", k, "0", "-1"))
		g.try(bs("llen", k))
	case refmodel.THash:
		g.try(bs("hgetall", k))
		g.try(bs("hlen", k))
	case refmodel.TSet:
		g.try(bs("smembers", k))
		g.try(bs("scard", k))
	case refmodel.TZSet:
		g.try(bs("zrange", k, "0", "-1", "withscores"))
	case refmodel.TStream:
		g.try(bs("xrange", k, "-", "+"))
	}
	if e.HasTTL {
		g.try(bs("ttl", k))
	}
}

// seedOtherTypes preloads keys of every type so that WRONGTYPE paths are hit.
func (g *lsGen) seedOtherTypes() {
	for _, k := range g.keys {
		switch g.r.Intn(9) {
		case 0:
			g.try(bs("rpush", k, "l1", "l2"))
		case 1:
			g.try(bs("sadd", k, "m1", "m2"))
		case 2:
			g.try(bs("hset", k, "f1", "v1"))
		case 3:
			g.try(bs("zadd", k, "1", "z1"))
		case 4:
			g.try(bs("set", k, g.value()))
		case 5:
			g.try(bs("xadd", k, "1-1", "f", "v"))
		}
	}
}

// familyGen emits one command of the family on the generator.
type familyGen func(g *lsGen)

type lsFamily struct {
	prop       string
	gen        familyGen
	plainKeys  bool
	useTime    bool
	seedOthers bool
}

func genLockstep(fam lsFamily) func(r *core.Rand, env *core.Env, run int) *Scenario {
	return func(r *core.Rand, env *core.Env, run int) *Scenario {
		sc := &Scenario{Kind: fam.prop}
		sc.Knobs = Knobs{ShardNum: pick(r, []int{1, 2, 3, 8, 1024}), Databases: 1, YieldRMW: r.Bool(0.5), MaxSteps: 20000,
			Strategy: pick(r, []int{0, 1, 1, 2}), PreemptPct: pick(r, []int{5, 20, 50})}
		aim := run%8 == 7
		ex, _ := json.Marshal(lsExtra{Aim: aim})
		sc.Extra = ex
		nc := 1 + r.Intn(3)
		if aim {
			nc = 1
		}
		for ci := 0; ci < nc; ci++ {
			g := newLsGen(r, env, fmt.Sprintf("c%d:", ci), 1, aim)
			g.timeOK = fam.useTime && ci == 0
			g.keys = keyPool(r, g.prefix, 1+r.Intn(4), fam.plainKeys || r.Bool(0.5))
			if fam.seedOthers && r.Bool(0.5) {
				g.seedOtherTypes()
			}
			n := 5 + r.Intn(30)
			if aim {
				n = 3 + r.Intn(8)
			}
			for i := 0; i < n; i++ {
				before := len(g.steps)
				fam.gen(g)
				if len(g.steps) > before && g.r.Bool(0.6) {
					last := g.steps[len(g.steps)-1]
					if last.Kind == "cmd" && len(last.Args) > 1 && !isReadOnly(last.Args) {
						g.readBack(string(last.Args[1]))
					}
				}
				if g.timeOK && g.r.Bool(0.15) {
					g.sleep(time.Duration(1+g.r.Intn(5)) * time.Second)
					g.settle()
				}
			}
			sc.Clients = append(sc.Clients, ClientProg{Name: fmt.Sprintf("c%d", ci), Role: "owner", Steps: g.steps,
				Pipeline: 1 + r.Intn(2)*r.Intn(8), Chunked: r.Bool(0.25)})
		}
		return sc
	}
}

// judgeLockstep compares every owner's replies with its own model.
func judgeLockstep(prop string) func(sc *Scenario, rr *RunResult, env *core.Env) (string, string) {
	return func(sc *Scenario, rr *RunResult, env *core.Env) (string, string) {
		for ci, c := range rr.Clients {
			if c.prog.Role != "owner" {
				continue
			}
			m := refmodel.New(max(sc.Knobs.Databases, 1))
			lastWrite := map[string]string{}
			for oi, op := range c.ops {
				if !op.Done {
					break
				}
				class := classify(m, 0, op.Args, op.InvokeAt)
				ok, why := m.Apply(0, argv(op.Args), op.InvokeAt, op.Reply)
				if ok {
					if !isReadOnly(op.Args) && len(op.Args) > 1 {
						for _, k := range op.Args[1:] {
							lastWrite[string(k)] = class
						}
					}
					rr.Probes["lockstep-ops-checked"]++
					continue
				}
				trigger := class
				if isReadOnly(op.Args) && len(op.Args) > 1 {
					if lw, ok := lastWrite[string(op.Args[1])]; ok {
						trigger = "state-after:" + lw
					}
				}
				var hist []string
				from := max(0, oi-12)
				for _, p := range c.ops[from:oi] {
					hist = append(hist, fmt.Sprintf("    %s -> %s", truncate(cmdString(p.Args), 90), truncate(p.Reply.String(), 90)))
				}
				msg := fmt.Sprintf("client %d, command %d: %s\n  %s\n  after:\n%s", ci, oi, cmdString(op.Args), why, strings.Join(hist, "\n"))
				return prop + "/reply-mismatch/" + trigger, msg
			}
		}
		return "", ""
	}
}
