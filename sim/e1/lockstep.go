package e1

import (
	"encoding/json"
	"fmt"
	"strings"
	"time"

	"verifsim/core"
	"verifsim/refmodel"
	rd "verifsim/respdec"
)

// Lock-step oracle: a client that exclusively owns its keys is compared reply
// by reply with the reference model, deterministically.  Several such clients
// (disjoint key prefixes) run concurrently: each must see its own sequential
// semantics whatever the others do on colliding stripes and shards.

var t2000 = time.Date(2000, 1, 1, 0, 0, 0, 0, time.UTC)

type lsExtra struct {
	Aim bool `json:"aim"` // this run does not steer away from listed findings
}

// knownClass reports whether the trigger class is listed in KNOWN_FINDINGS
// (for any property): generators avoid such command instances.
func knownClass(env *core.Env, class string) bool {
	for sig := range env.Known {
		parts := strings.SplitN(sig, "/", 3)
		if len(parts) < 3 {
			continue
		}
		trig := strings.TrimPrefix(parts[2], "state-after:")
		if trig == class || (strings.Contains(trig, "*") && core.Glob(trig, class)) {
			return true
		}
	}
	return false
}

type lsGen struct {
	r      *core.Rand
	env    *core.Env
	m      *refmodel.Model
	now    time.Time
	prefix string
	keys   []string
	steps  []Step
	aim    bool
	conn   int
	budget int
	timeOK bool
}

func newLsGen(r *core.Rand, env *core.Env, prefix string, ndb int, aim bool) *lsGen {
	return &lsGen{r: r, env: env, m: refmodel.New(ndb), now: t2000.Add(500 * time.Millisecond), prefix: prefix, aim: aim, budget: 40}
}

// try emits the command unless its class is a listed finding (and the run is
// not an aiming run).  Returns whether it was emitted.
func (g *lsGen) try(a []B) bool { return g.tryTag(a, "") }

func (g *lsGen) tryTag(a []B, tag string) bool {
	if len(g.steps) >= 400 {
		return false
	}
	if !g.aim {
		if knownClass(g.env, classify(g.m, g.conn, a, g.now)) {
			return false
		}
	}
	g.steps = append(g.steps, Step{Kind: "cmd", Args: a, Tag: tag})
	g.m.Exec(g.conn, argv(a), g.now)
	return true
}

func (g *lsGen) sleep(d time.Duration) {
	g.steps = append(g.steps, Step{Kind: "sleep", Sleep: d})
	g.now = g.now.Add(d)
}

func (g *lsGen) key() string { return pick(g.r, g.keys) }

// ambiguousNow: is any key inside its one-second expiry window at the
// generator's clock?  Lock-step programs (other than C06) do not probe there.
func (g *lsGen) settle() {
	for i := 0; i < 4; i++ {
		if len(g.m.AmbiguousKeys(g.conn, g.now)) == 0 {
			return
		}
		g.sleep(time.Second)
	}
}

// keyNames: a small pool of adversarial key names under the client's prefix.
func keyPool(r *core.Rand, prefix string, n int, plain bool) []string {
	pool := []string{"a", "b", "c", "d"}
	if !plain {
		pool = []string{"a", "b", "Key", "KEY", "k:1", "", "sp ace", "x\r\ny", "\x00z", "\xff\xfe", "*", "a?", "[k]"}
	}
	var out []string
	seen := map[string]bool{}
	for len(out) < n {
		k := prefix + pick(r, pool)
		if !seen[k] {
			seen[k] = true
			out = append(out, k)
		}
		if len(seen) >= len(pool) {
			break
		}
	}
	return out
}

var valuePool = []string{"", "x", "hello", "0", "1", "-1", "10", "007", "3.5", "-0.25", "1e3", " 12", "12 ", "+5", "9223372036854775807",
	"-9223372036854775808", "9223372036854775806", "abc def", "line\r\nbreak", "\x00bin\xff", "\xe4\xb8\xad", "OK", "nil", "(nil)", "$-1"}

func (g *lsGen) value() string {
	if g.r.Bool(0.25) {
		return fmt.Sprintf("u%d", g.r.Intn(1000))
	}
	return pick(g.r, valuePool)
}

func itoa(i int) string { return fmt.Sprint(i) }

// readBack appends reads of the key appropriate to its model type.
func (g *lsGen) readBack(k string) {
	g.tryTag(bs("exists", k), "rb")
	g.tryTag(bs("type", k), "rb")
	e, ok := g.m.DBs[g.m.Selected[g.conn]].Keys[k]
	if !ok {
		return
	}
	switch e.T {
	case refmodel.TString:
		g.tryTag(bs("get", k), "rb")
		g.tryTag(bs("strlen", k), "rb")
	case refmodel.TList:
		g.tryTag(bs("lrange", k, "0", "-1"), "rb")
		g.tryTag(bs("llen", k), "rb")
	case refmodel.THash:
		g.tryTag(bs("hgetall", k), "rb")
		g.tryTag(bs("hlen", k), "rb")
	case refmodel.TSet:
		g.tryTag(bs("smembers", k), "rb")
		g.tryTag(bs("scard", k), "rb")
	case refmodel.TZSet:
		g.tryTag(bs("zrange", k, "0", "-1", "withscores"), "rb")
	case refmodel.TStream:
		g.tryTag(bs("xrange", k, "-", "+"), "rb")
	}
	if e.HasTTL {
		g.tryTag(bs("ttl", k), "rb")
	}
}

// seedOtherTypes preloads keys of every type so that WRONGTYPE paths are hit.
func (g *lsGen) seedOtherTypes() {
	for _, k := range g.keys {
		switch g.r.Intn(9) {
		case 0:
			g.try(bs("rpush", k, "l1", "l2"))
		case 1:
			g.try(bs("sadd", k, "m1", "m2"))
		case 2:
			g.try(bs("hset", k, "f1", "v1"))
		case 3:
			g.try(bs("zadd", k, "1", "z1"))
		case 4:
			g.try(bs("set", k, g.value()))
		case 5:
			g.try(bs("xadd", k, "1-1", "f", "v"))
		}
	}
}

// familyGen emits one command of the family on the generator.
type familyGen func(g *lsGen)

type lsFamily struct {
	prop       string
	gen        familyGen
	plainKeys  bool
	useTime    bool
	seedOthers bool
}

func genLockstep(fam lsFamily) func(r *core.Rand, env *core.Env, run int) *Scenario {
	return func(r *core.Rand, env *core.Env, run int) *Scenario {
		sc := &Scenario{Kind: fam.prop}
		sc.Knobs = Knobs{ShardNum: pick(r, []int{1, 2, 3, 8, 1024}), Databases: 1, YieldRMW: r.Bool(0.5), MaxSteps: 20000,
			Strategy: pick(r, []int{0, 1, 1, 2, 3}), PreemptPct: pick(r, []int{5, 20, 50})}
		aim := run%8 == 7
		ex, _ := json.Marshal(lsExtra{Aim: aim})
		sc.Extra = ex
		nc := 1 + r.Intn(3)
		if aim {
			nc = 1
		}
		for ci := 0; ci < nc; ci++ {
			g := newLsGen(r, env, fmt.Sprintf("c%d:", ci), 1, aim)
			g.timeOK = fam.useTime && ci == 0
			if g.timeOK {
				// run in the middle of the wall-clock second (the generator's clock starts there)
				g.steps = append(g.steps, Step{Kind: "sleep", Sleep: 500 * time.Millisecond})
			}
			g.keys = keyPool(r, g.prefix, 1+r.Intn(4), fam.plainKeys || r.Bool(0.5))
			if fam.seedOthers && r.Bool(0.5) {
				g.seedOtherTypes()
			}
			n := 5 + r.Intn(30)
			if aim {
				n = 3 + r.Intn(8)
			}
			for i := 0; i < n; i++ {
				before := len(g.steps)
				fam.gen(g)
				if len(g.steps) > before && g.r.Bool(0.6) {
					last := g.steps[len(g.steps)-1]
					if last.Kind == "cmd" && len(last.Args) > 1 && !isReadOnly(last.Args) {
						g.readBack(string(last.Args[1]))
					}
				}
				if g.timeOK && g.r.Bool(0.15) {
					g.sleep(time.Duration(1+g.r.Intn(5)) * time.Second)
					g.settle()
				}
			}
			// WriteYield: the reply write is a scheduling point too (the bytes are only
			// taken over by the connection when the handler is released again)
			sc.Clients = append(sc.Clients, ClientProg{Name: fmt.Sprintf("c%d", ci), Role: "owner", Steps: g.steps,
				Pipeline: 1 + r.Intn(2)*r.Intn(8), Chunked: r.Bool(0.25), WriteYield: r.Bool(0.3)})
		}
		return sc
	}
}

// judgeLockstep compares every owner's replies with its own model.
func judgeLockstep(prop string) func(sc *Scenario, rr *RunResult, env *core.Env) (string, string) {
	return func(sc *Scenario, rr *RunResult, env *core.Env) (string, string) {
		for ci, c := range rr.Clients {
			if c.prog.Role != "owner" {
				continue
			}
			m := refmodel.New(max(sc.Knobs.Databases, 1))
			lastWrite := map[string]string{}
			everTTL := map[string]bool{}
			for oi, op := range c.ops {
				if !op.Done {
					break
				}
				class := classify(m, 0, op.Args, op.InvokeAt)
				// expiry involvement, from the model's pre-state
				ttlInvolved := false
				if len(op.Args) > 1 {
					for _, k := range op.Args[1:] {
						if e, ok := m.DBs[0].Keys[string(k)]; ok && e.HasTTL {
							ttlInvolved = true
							everTTL[string(k)] = true
							if !op.InvokeAt.Before(e.WinLo) {
								class += ",in-expiry-window"
							}
						} else if (!ok || (e.HasTTL && !op.InvokeAt.Before(e.WinHi))) && everTTL[string(k)] {
							ttlInvolved = true
							class += ",expired-key"
						}
					}
				}
				m.NowHi = op.ReturnAt
				ok, why := m.Apply(0, argv(op.Args), op.InvokeAt, op.Reply)
				if len(op.Args) > 1 {
					for _, k := range op.Args[1:] {
						if e, ok := m.DBs[0].Keys[string(k)]; ok && e.HasTTL {
							everTTL[string(k)] = true
						}
					}
				}
				if ok {
					if !isReadOnly(op.Args) && len(op.Args) > 1 {
						for _, k := range op.Args[1:] {
							lastWrite[string(k)] = class
						}
					}
					rr.Probes["lockstep-ops-checked"]++
					if ttlInvolved {
						rr.Probes["ops-on-keys-with-deadline"]++
					}
					continue
				}
				if m.Overflow {
					// hypotheses were dropped earlier: this mismatch proves nothing
					rr.Probes["model-hypothesis-overflow"]++
					break
				}
				trigger := class
				owner := ownerProp(op.Args, prop)
				kind := "reply-mismatch"
				if ttlInvolved {
					owner, kind = "C06", "expiry"
				}
				if nestedSimple(op.Reply, 0) {
					// a payload framed as a simple string: a conforming client
					// cannot decode the stored bytes from it when they hold CR/LF
					owner, kind = "C03", "framing"
				}
				// a plain read-back that disagrees points at the state left by the
				// last write on that key, unless the read itself is a listed finding
				if c.prog.Steps[op.StepIdx].Tag == "rb" && !knownClass(env, class) {
					if lw, ok := lastWrite[string(op.Args[1])]; ok {
						trigger = "state-after:" + lw
						if !ttlInvolved {
							owner = ownerProp([]B{B(strings.ToLower(lw[:strings.IndexByte(lw, ':')]))}, prop)
						}
					}
				}
				var hist []string
				from := max(0, oi-12)
				for _, p := range c.ops[from:oi] {
					hist = append(hist, fmt.Sprintf("    t=%s %s -> %s", p.InvokeAt.Format("15:04:05.000"), truncate(cmdString(p.Args), 90), truncate(p.Reply.String(), 90)))
				}
				msg := fmt.Sprintf("client %d, command %d at t=%s: %s\n  %s\n  after:\n%s", ci, oi, op.InvokeAt.Format("15:04:05.000"), cmdString(op.Args), why, strings.Join(hist, "\n"))
				return owner + "/" + kind + "/" + trigger, msg
			}
		}
		// exactly one reply per command: nothing may be left over
		for ci, c := range rr.Clients {
			if c.prog.Role != "owner" || c.closed || c.rawSent {
				continue
			}
			if len(c.pushes) > 0 {
				last := "none"
				if len(c.ops) > 0 {
					last = c04Class(c.ops[len(c.ops)-1].Args)
				}
				return "C03/extra-reply/" + last, fmt.Sprintf("client %d received %d more RESP values than it sent commands; first extra: %s", ci, len(c.pushes), c.pushes[0].V.String())
			}
			if len(c.rx) > 0 && c.malformed == "" && len(c.waiting) == 0 {
				return "C03/truncated-reply/tail", fmt.Sprintf("client %d: %d bytes of an incomplete RESP value left in the reply stream: %q", ci, len(c.rx), truncate(string(c.rx), 60))
			}
		}
		return "", ""
	}
}

func nestedSimple(v rd.Value, depth int) bool {
	if v.Kind == rd.Simple && depth > 0 {
		return true
	}
	for _, e := range v.Arr {
		if nestedSimple(e, depth+1) {
			return true
		}
	}
	return false
}
