package e1

import (
	"fmt"
	"strings"
	"time"

	"github.com/anishathalye/porcupine"

	"verifsim/core"
	rd "verifsim/respdec"
)

// C05 — concurrent clients observe linearizable single-key operations.
//
// 2-6 clients, a few commands each, over 1-3 shared keys; the tape picks every
// release at every lock operation.  Oracle: porcupine over the whole-keyspace
// reference model (so KEYS / EXISTS bookkeeping is part of the history), an
// auditor that reads everything back after the others finished, and the
// structural self-check (map counter == keys) at quiescence.

func init() {
	register(&PropDef{ID: "C05", Gen: genC05, Judge: judgeLin("C05"), Nontrivial: func(sc *Scenario, rr *RunResult) bool {
		return rr.Preemptions > 0 && rr.HeldSwitch > 0
	}})
}

func pick[T any](r *core.Rand, xs []T) T { return xs[r.Intn(len(xs))] }

type c05gen struct {
	r    *core.Rand
	keys []string
	fam  map[string]string
	uniq int
}

func (g *c05gen) val(ci int) string {
	g.uniq++
	return fmt.Sprintf("v%d_%d", ci, g.uniq)
}

func (g *c05gen) cmd(ci int, profile string) []B {
	r := g.r
	k := pick(r, g.keys)
	fam := g.fam[k]
	if profile == "mixed" && r.Bool(0.12) {
		fam = pick(r, []string{"reg", "ctr", "list", "set", "hash", "zset", "stream"})
	}
	if r.Bool(0.15) {
		// KEYS is not a single-key command and is not required to be an atomic
		// snapshot while writers are active.  What it must do even then: list every
		// key that exists throughout the scan (the never-touched "st*" keys) and
		// nothing that never existed; the exact check is the auditor's at quiescence
		switch r.Intn(5) {
		case 0:
			return bs("del", k)
		case 1:
			return bs("exists", k)
		case 2:
			return bs("type", k)
		case 3:
			return bs("keys", "*")
		default:
			return bs("get", pick(r, stableKeys))
		}
	}
	switch fam {
	case "reg":
		switch r.Intn(10) {
		case 0, 1:
			return bs("set", k, g.val(ci))
		case 2, 3:
			return bs("get", k)
		case 4:
			return bs("setnx", k, g.val(ci))
		case 5:
			return bs("append", k, g.val(ci))
		case 6:
			return bs("getrange", k, "0", "-1")
		case 7:
			return bs("setrange", k, itoa(r.Intn(4)), g.val(ci))
		case 8:
			return bs("set", k, g.val(ci), pick(r, []string{"nx", "xx", "get"}))
		default:
			return bs("strlen", k)
		}
	case "ctr":
		switch r.Intn(8) {
		case 0, 1, 2:
			return bs("incr", k)
		case 3:
			return bs("incrby", k, fmt.Sprint(1+r.Intn(5)))
		case 4:
			return bs("decr", k)
		case 5:
			return bs("decrby", k, fmt.Sprint(1+r.Intn(3)))
		case 6:
			return bs("incrbyfloat", k, pick(r, []string{"0.5", "2", "-1.5"}))
		default:
			return bs("get", k)
		}
	case "list":
		switch r.Intn(14) {
		case 0, 1:
			return bs("rpush", k, g.val(ci))
		case 2:
			return bs("lpush", k, g.val(ci))
		case 3, 4:
			return bs("lpop", k)
		case 5:
			return bs("rpop", k)
		case 6:
			return bs("llen", k)
		case 7:
			return bs(pick(r, []string{"lpushx", "rpushx"}), k, g.val(ci))
		case 8:
			return bs("lindex", k, pick(r, []string{"0", "-1", "1"}))
		case 9:
			return bs("lset", k, pick(r, []string{"0", "-1"}), g.val(ci))
		case 10:
			return bs("ltrim", k, pick(r, []string{"0", "1"}), pick(r, []string{"-1", "1", "0"}))
		case 11:
			return bs("lrem", k, "0", "i1")
		case 12:
			return bs(pick(r, []string{"lpop", "rpop"}), k, "2")
		default:
			return bs("lrange", k, "0", "100")
		}
	case "zset":
		m := fmt.Sprintf("z%d", r.Intn(4))
		switch r.Intn(8) {
		case 0, 1, 2:
			return bs("zadd", k, itoa(r.Intn(5)), m)
		case 3:
			return bs("zadd", k, pick(r, []string{"nx", "xx", "gt", "ch"}), itoa(r.Intn(5)), m)
		case 4:
			return bs("zrem", k, m)
		case 5:
			return bs("zrank", k, m)
		case 6:
			return bs("zadd", k, "incr", "1", m)
		default:
			return bs("zrange", k, "0", "-1", "withscores")
		}
	case "stream":
		switch r.Intn(8) {
		case 0, 1, 2:
			return bs("xadd", k, "*", "f", g.val(ci))
		case 3:
			return bs("xadd", k, pick(r, []string{"1-1", "2-1", "3-1", "5-0", "9-9"}), "f", g.val(ci))
		case 4:
			return bs("xadd", k, "maxlen", pick(r, []string{"1", "2"}), "*", "f", g.val(ci))
		case 5:
			return bs("xadd", k, "nomkstream", "*", "f", g.val(ci))
		default:
			return bs("xrange", k, "-", "+")
		}
	case "set":
		m := fmt.Sprintf("m%d", r.Intn(3))
		switch r.Intn(6) {
		case 0, 1:
			return bs("sadd", k, m)
		case 2:
			return bs("srem", k, m)
		case 3:
			return bs("sismember", k, m)
		case 4:
			return bs("scard", k)
		default:
			return bs("smembers", k)
		}
	default: // hash
		f := fmt.Sprintf("f%d", r.Intn(2))
		switch r.Intn(10) {
		case 7, 8:
			return bs("hsetnx", k, f, g.val(ci))
		case 9:
			if r.Bool(0.3) {
				return bs("hstrlen", k, f)
			}
			return bs(pick(r, []string{"hgetall", "hkeys", "hvals"}), k)
		case 0, 1:
			return bs("hset", k, f, g.val(ci))
		case 2:
			return bs("hget", k, pick(r, []string{f, f, "n"}))
		case 3:
			return bs("hdel", k, f)
		case 4:
			return bs("hlen", k)
		case 5:
			return bs("hincrby", k, "n", pick(r, []string{"1", "1", "9", "-1", "90"}))
		default:
			if r.Bool(0.5) {
				return bs("hincrby", k, "n", "1")
			}
			return bs("hexists", k, f)
		}
	}
}

func auditSteps(keys []string, fam map[string]string) []Step {
	steps := []Step{{Kind: "barrier"}}
	for _, k := range keys {
		steps = append(steps, Step{Kind: "cmd", Args: bs("exists", k)}, Step{Kind: "cmd", Args: bs("type", k)})
		switch fam[k] {
		case "reg", "ctr":
			steps = append(steps, Step{Kind: "cmd", Args: bs("get", k)})
		case "list":
			steps = append(steps, Step{Kind: "cmd", Args: bs("lrange", k, "0", "1000")}, Step{Kind: "cmd", Args: bs("llen", k)})
		case "set":
			steps = append(steps, Step{Kind: "cmd", Args: bs("smembers", k)}, Step{Kind: "cmd", Args: bs("scard", k)})
		case "hash":
			steps = append(steps, Step{Kind: "cmd", Args: bs("hgetall", k)}, Step{Kind: "cmd", Args: bs("hlen", k)})
		case "zset":
			steps = append(steps, Step{Kind: "cmd", Args: bs("zrange", k, "0", "-1", "withscores")})
		case "stream":
			steps = append(steps, Step{Kind: "cmd", Args: bs("xrange", k, "-", "+")})
		}
	}
	steps = append(steps, Step{Kind: "cmd", Args: bs("keys", "*")})
	return steps
}

// stableKeys exist from the preload on and are only ever read.
var stableKeys = []string{"st0", "st1", "st2"}

func genC05(r *core.Rand, env *core.Env, run int) *Scenario {
	sc := &Scenario{Kind: "C05"}
	sc.Knobs = Knobs{ShardNum: pick(r, []int{1, 1, 2, 3, 8, 1024}), Databases: 1, YieldRMW: r.Bool(0.8), MaxSteps: 30000,
		Strategy: pick(r, []int{0, 0, 1, 1, 2, 3}), PreemptPct: pick(r, []int{5, 15, 30, 50})}
	sc.Knobs.ReplyYield = r.Bool(0.5)
	sc.Knobs.WriterPref = r.Bool(0.4)
	profile := pick(r, []string{"reg", "ctr", "list", "set", "hash", "zset", "stream", "mixed", "mixed"})
	nk := 1 + r.Intn(3)
	g := &c05gen{r: r, fam: map[string]string{}}
	for i := 0; i < nk; i++ {
		k := fmt.Sprintf("k%d", i)
		g.keys = append(g.keys, k)
		if profile == "mixed" {
			g.fam[k] = pick(r, []string{"reg", "ctr", "list", "set", "hash", "zset", "stream"})
		} else {
			g.fam[k] = profile
		}
	}
	for _, k := range stableKeys {
		sc.Knobs.Preload = append(sc.Knobs.Preload, bs("set", k, "stable"))
	}
	// some prior content
	for _, k := range g.keys {
		if r.Bool(0.4) {
			switch g.fam[k] {
			case "reg":
				sc.Knobs.Preload = append(sc.Knobs.Preload, bs("set", k, "init"))
			case "ctr":
				sc.Knobs.Preload = append(sc.Knobs.Preload, bs("set", k, "10"))
			case "list":
				sc.Knobs.Preload = append(sc.Knobs.Preload, bs("rpush", k, "i1", "i2"))
			case "set":
				sc.Knobs.Preload = append(sc.Knobs.Preload, bs("sadd", k, "m0", "mx"))
			case "hash":
				sc.Knobs.Preload = append(sc.Knobs.Preload, bs("hset", k, "f0", "init"))
			case "zset":
				sc.Knobs.Preload = append(sc.Knobs.Preload, bs("zadd", k, "1", "z0", "2", "zx"))
			case "stream":
				sc.Knobs.Preload = append(sc.Knobs.Preload, bs("xadd", k, "1-0", "f", "init"))
			}
		}
	}
	nc := 2 + r.Intn(4)
	total := 0
	for ci := 0; ci < nc; ci++ {
		p := ClientProg{Name: fmt.Sprintf("c%d", ci), Pipeline: 1 + r.Intn(2)*r.Intn(3), Chunked: r.Bool(0.15)}
		n := 2 + r.Intn(6)
		for i := 0; i < n && total < 34; i++ {
			p.Steps = append(p.Steps, Step{Kind: "cmd", Args: g.cmd(ci, profile)})
			total++
		}
		sc.Clients = append(sc.Clients, p)
	}
	sc.Clients = append(sc.Clients, ClientProg{Name: "zaudit", Role: "auditor", Pipeline: 1, Steps: auditSteps(g.keys, g.fam)})
	return sc
}

// judgeLin: linearizability of the recorded history against the reference
// model.  Illegal is a violation, Unknown (time-out) is counted, never reported.
func judgeLin(prop string) func(sc *Scenario, rr *RunResult, env *core.Env) (string, string) {
	return func(sc *Scenario, rr *RunResult, env *core.Env) (string, string) {
		init := preloadModel(sc, sc.Knobs.Databases)
		model := linModel(init)
		// concurrent KEYS: weak oracle (see genC05), not part of the linearizability check
		universe := map[string]bool{}
		for k := range init.DBs[0].Keys {
			universe[k] = true
		}
		for _, c := range rr.Clients {
			for _, op := range c.ops {
				for _, a := range op.Args[min(1, len(op.Args)):] {
					universe[string(a)] = true
				}
			}
		}
		for ci, c := range rr.Clients {
			if c.prog.Role == "auditor" {
				continue
			}
			for _, op := range c.ops {
				if !op.Done || len(op.Args) != 2 || !strings.EqualFold(string(op.Args[0]), "keys") || op.Reply.Kind != rd.Array {
					continue
				}
				got := map[string]bool{}
				for _, e := range op.Reply.Arr {
					got[string(e.Str)] = true
					if !universe[string(e.Str)] {
						return prop + "/keys-scan/phantom-key", fmt.Sprintf("client %d: KEYS * listed %q, which no command ever created", ci, e.Str)
					}
				}
				for _, k := range stableKeys {
					if _, pre := init.DBs[0].Keys[k]; pre && !got[k] {
						rr.Probes["keys-scan-checked"]++
						return prop + "/keys-scan/stable-key-missing", fmt.Sprintf("client %d: KEYS * = %s omits %q, which existed before, during and after the scan (EXISTS says 1)", ci, op.Reply.String(), k)
					}
				}
				rr.Probes["keys-scan-checked"]++
			}
		}
		ops := historyOps(rr, func(c *clientState, op *OpRec) bool {
			return c.prog.Role == "auditor" || !(len(op.Args) > 0 && strings.EqualFold(string(op.Args[0]), "keys"))
		})
		if len(ops) == 0 {
			return "", ""
		}
		res := porcupine.CheckOperationsTimeout(model, ops, 8*time.Second)
		switch res {
		case porcupine.Ok:
			rr.Probes["porcupine-ok"]++
			return "", ""
		case porcupine.Unknown:
			rr.Probes["porcupine-unknown"]++
			return "", ""
		}
		rr.Probes["porcupine-illegal"]++
		return prop + "/not-linearizable/" + historyClass(rr), "history is not linearizable w.r.t. the reference model:\n" + describeHistory(ops, model)
	}
}

// historyClass: the sorted set of command names in the history (trigger class
// computed from the workload, not from the implementation).
func historyClass(rr *RunResult) string {
	set := map[string]bool{}
	for _, c := range rr.Clients {
		if c.prog.Role == "auditor" {
			continue
		}
		for _, op := range c.ops {
			set[cmdClass(op.Args)] = true
		}
	}
	var names []string
	for n := range set {
		names = append(names, n)
	}
	sortStrings(names)
	s := strings.Join(names, "+")
	if len(s) > 60 {
		s = fmt.Sprintf("%s+(%d-cmds)", s[:50], len(names))
	}
	return s
}
