package e1

import (
	"fmt"
	"strings"

	"verifsim/core"
	rd "verifsim/respdec"
)

// C19 — published messages reach exactly the current subscribers, once, in order.
//
// Subscribers, publishers and disconnects interleaved by the tape; every write
// to a subscriber connection is a scheduling point.  Oracle (history based):
//   - every push a subscriber receives is a well-formed ["message", ch, payload]
//     for a channel it subscribed to, with a payload that was published there;
//   - no message twice; messages of one channel in publish order (for publishes
//     that did not overlap);
//   - a subscriber whose SUBSCRIBE completed before a PUBLISH was issued, and
//     which stayed connected until the PUBLISH returned, receives it;
//   - PUBLISH's integer equals the number of connections that received it;
//   - no publisher is left without a reply (generic no-reply / deadlock checks).

func init() {
	register(&PropDef{ID: "C19", Gen: genC19, Judge: judgeC19, Nontrivial: func(sc *Scenario, rr *RunResult) bool {
		return rr.Probes["messages-delivered"] > 0 && rr.Preemptions > 0
	}})
}

func genC19(r *core.Rand, env *core.Env, run int) *Scenario {
	sc := &Scenario{Kind: "C19"}
	sc.Knobs = Knobs{ShardNum: pick(r, []int{1, 2, 8}), Databases: 1, YieldRMW: r.Bool(0.6), MaxSteps: 8000, IdleBudget: 5,
		Strategy: pick(r, []int{0, 0, 1, 2, 3}), PreemptPct: pick(r, []int{20, 50})}
	sc.Knobs.WriterPref = r.Bool(0.3)
	chans := []string{"ch0", "ch1", "ch2"}[:1+r.Intn(3)]
	ns := 1 + r.Intn(4)
	np := 1 + r.Intn(3)
	disconnects := r.Bool(0.4)
	// A reader that merely stops reading is not among the events the property
	// quantifies over (SUBSCRIBE, PUBLISH, disconnects): with no write deadline a
	// publisher may legitimately wait for it, so no verdict could be drawn.
	stalls := false
	if stalls {
		// a stalled subscriber may hold a publisher up to the server's write
		// deadline, never for ever: leave enough simulated time for that
		sc.Knobs.IdleBudget = 120
	}
	// a share of the runs: subscribed connections keep issuing commands whose
	// replies are large arrays (several KB) while messages are pushed to them; a
	// reply and a push must never be woven into each other on the wire
	bigReplies := r.Bool(0.3)
	if bigReplies {
		a := bs("rpush", c19BigList)
		for i := 0; i < c19BigN; i++ {
			a = append(a, B(c19BigElem(i)))
		}
		sc.Knobs.Preload = append(sc.Knobs.Preload, a)
	}
	for i := 0; i < ns; i++ {
		p := ClientProg{Name: fmt.Sprintf("s%d", i), Role: "subscriber", Pipeline: 1, WriteYield: true}
		a := bs("subscribe")
		k := 1 + r.Intn(len(chans))
		perm := append([]string(nil), chans...)
		for j := 0; j < k; j++ {
			x := j + r.Intn(len(perm)-j)
			perm[j], perm[x] = perm[x], perm[j]
			a = append(a, B(perm[j]))
		}
		p.Steps = append(p.Steps, Step{Kind: "cmd", Args: a})
		if bigReplies {
			for j := 0; j < 1+r.Intn(3); j++ {
				p.Steps = append(p.Steps, Step{Kind: "cmd", Args: bs("lrange", c19BigList, "0", "-1")})
			}
		}
		if stalls && i == 0 {
			// stops reading after its subscription was confirmed; tiny socket buffer
			p.OutLimit = 64
			p.Steps = append(p.Steps, Step{Kind: "stall"})
		} else if disconnects && r.Bool(0.4) {
			// leave while publishers are still active
			for w := 0; w < r.Intn(3); w++ {
				p.Steps = append(p.Steps, Step{Kind: "wait"})
			}
			p.Steps = append(p.Steps, Step{Kind: "close", Tag: "abrupt"})
		}
		sc.Clients = append(sc.Clients, p)
	}
	uniq := 0
	for i := 0; i < np; i++ {
		p := ClientProg{Name: fmt.Sprintf("p%d", i), Role: "publisher", Pipeline: 1}
		n := 1 + r.Intn(5)
		for j := 0; j < n; j++ {
			uniq++
			payload := fmt.Sprintf("msg%d", uniq)
			if r.Bool(0.2) {
				payload += pick(r, []string{"\r\n", " sp", "\x00", ""})
			}
			p.Steps = append(p.Steps, Step{Kind: "cmd", Args: bs("publish", pick(r, chans), payload)})
		}
		sc.Clients = append(sc.Clients, p)
	}
	return sc
}

const c19BigList, c19BigN = "biglist", 70

func c19BigElem(i int) string {
	return fmt.Sprintf("element-%03d-%s", i, strings.Repeat("x", 60+i%17))
}

type pubRec struct {
	ch, payload     string
	invoke, ret     int64
	count           int64
	done            bool
	publisher, step int
}

func judgeC19(sc *Scenario, rr *RunResult, env *core.Env) (string, string) {
	// replies to the commands of subscribed connections (the big list never changes)
	for ci, c := range rr.Clients {
		if c.prog.Role != "subscriber" {
			continue
		}
		for _, op := range c.ops {
			if !op.Done || len(op.Args) == 0 || !strings.EqualFold(string(op.Args[0]), "lrange") {
				continue
			}
			rr.Probes["big-reply-on-subscribed-connection"]++
			ok := op.Reply.Kind == rd.Array && len(op.Reply.Arr) == c19BigN
			for i := 0; ok && i < c19BigN; i++ {
				ok = op.Reply.Arr[i].StringLike() && string(op.Reply.Arr[i].Str) == c19BigElem(i)
			}
			if !ok {
				return "C19/reply-and-push-interleaved", fmt.Sprintf("subscriber %d: the reply to %s is not the list it asked for (a pushed message was woven into it?): %s", ci, cmdString(op.Args), truncate(op.Reply.String(), 300))
			}
		}
	}
	var pubs []pubRec
	for ci, c := range rr.Clients {
		if c.prog.Role != "publisher" {
			continue
		}
		for _, op := range c.ops {
			if len(op.Args) == 3 && strings.EqualFold(string(op.Args[0]), "publish") {
				p := pubRec{ch: string(op.Args[1]), payload: string(op.Args[2]), invoke: op.InvokeSeq, done: op.Done, publisher: ci, step: op.StepIdx, ret: 1 << 60}
				if op.Done {
					p.ret = op.ReturnSeq
					if op.Reply.Kind != rd.Integer {
						return "C19/publish-reply/not-an-integer", fmt.Sprintf("PUBLISH %s replied %s", cmdString(op.Args), op.Reply.String())
					}
					p.count = op.Reply.Int
				}
				pubs = append(pubs, p)
			}
		}
	}
	byPayload := map[string]*pubRec{}
	for i := range pubs {
		byPayload[pubs[i].ch+"\x00"+pubs[i].payload] = &pubs[i]
	}
	received := map[string]int64{} // payload key -> number of subscribers that got it
	for si, c := range rr.Clients {
		if c.prog.Role != "subscriber" {
			continue
		}
		if c.malformed != "" {
			return "C19/delivery/not-resp", fmt.Sprintf("subscriber %d: %s", si, c.malformed)
		}
		subscribed := map[string]bool{}
		var subDone int64 = -1
		if len(c.ops) > 0 {
			for _, a := range c.ops[0].Args[1:] {
				subscribed[string(a)] = true
			}
			if c.ops[0].Done {
				subDone = c.ops[0].ReturnSeq
			}
		}
		seen := map[string]bool{}
		for _, p := range c.pushes {
			v := p.V
			if v.Kind != rd.Array || len(v.Arr) != 3 || !v.Arr[0].StringLike() || string(v.Arr[0].Str) != "message" || !v.Arr[1].StringLike() || !v.Arr[2].StringLike() {
				return "C19/delivery/garbled", fmt.Sprintf("subscriber %d received %s, not [message channel payload]", si, v.String())
			}
			ch, payload := string(v.Arr[1].Str), string(v.Arr[2].Str)
			if !subscribed[ch] {
				return "C19/delivery/wrong-channel", fmt.Sprintf("subscriber %d (subscribed to %v) received a message of channel %q", si, keysOf(subscribed), ch)
			}
			pr := byPayload[ch+"\x00"+payload]
			if pr == nil {
				return "C19/delivery/garbled", fmt.Sprintf("subscriber %d received payload %q on %q which nobody published there", si, payload, ch)
			}
			key := ch + "\x00" + payload
			if seen[key] {
				return "C19/delivery/duplicate", fmt.Sprintf("subscriber %d received %q on %q twice", si, payload, ch)
			}
			seen[key] = true
			received[key]++
			rr.Probes["messages-delivered"]++
			// order: a message whose PUBLISH returned before this one's was
			// issued must not arrive after it
			for k2 := range seen {
				o := byPayload[k2]
				if o.ch == ch && o != pr && pr.ret < o.invoke {
					// pr completed before o was issued, yet pr is delivered after o
					return "C19/delivery/out-of-order", fmt.Sprintf("subscriber %d received %q after %q on %q although its PUBLISH had returned before the other was issued", si, payload, o.payload, ch)
				}
			}
		}
		// completeness: subscribed before the publish was issued, still there when it returned
		gone := int64(1 << 60)
		if c.closed {
			gone = c.closedSeq
		}
		for i := range pubs {
			p := &pubs[i]
			if !p.done || !subscribed[p.ch] || subDone < 0 || c.prog.OutLimit > 0 {
				// (a reader that stopped reading may legitimately be dropped)
				continue
			}
			if subDone < p.invoke && gone > p.ret && !seen[p.ch+"\x00"+p.payload] {
				return "C19/delivery/lost", fmt.Sprintf("subscriber %d was subscribed to %q from event %d and connected until %d, but never received %q published in [%d,%d]", si, p.ch, subDone, gone, p.payload, p.invoke, p.ret)
			}
		}
	}
	for i := range pubs {
		p := &pubs[i]
		if !p.done {
			continue
		}
		got := received[p.ch+"\x00"+p.payload]
		// a subscriber that vanished mid-delivery may or may not be counted;
		// without disconnects the number must be exact
		anyClosed := false
		for _, c := range rr.Clients {
			if c.prog.Role == "subscriber" && c.closed {
				anyClosed = true
			}
		}
		if !anyClosed && p.count != got {
			return "C19/publish-count/mismatch", fmt.Sprintf("PUBLISH %q %q reported %d receivers, %d connections received it", p.ch, p.payload, p.count, got)
		}
		if anyClosed && p.count < got {
			return "C19/publish-count/mismatch", fmt.Sprintf("PUBLISH %q %q reported %d receivers, %d connections received it", p.ch, p.payload, p.count, got)
		}
	}
	return "", ""
}

func keysOf(m map[string]bool) []string {
	var out []string
	for k := range m {
		out = append(out, k)
	}
	sortStrings(out)
	return out
}
