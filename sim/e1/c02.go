package e1

import (
	"math/big"
	"bytes"
	"context"
	"encoding/json"
	"fmt"
	"strings"
	"testing"
	"testing/synctest"
	"time"

	"github.com/innovationb1ue/RedisGO/resp"

	"verifsim/core"
	"verifsim/refmodel"
	rd "verifsim/respdec"
)

// C02 — RESP request decoding is exact, binary-safe and fragmentation-independent.
//
// Parser mode: resp.ParseStream reads a simulated stream cut into tape-chosen
// chunks; a well-formed stream must come out as exactly the encoded argv, in
// order, then EOF; a malformed stream (valid prefix + ONE command mutated so
// that it violates the RESP grammar, nothing after it) must yield exactly the
// prefix and then an error or EOF — never a panic, never a command assembled
// from the malformed part.
// Server mode: the same streams into Manager.Handle while other connections
// run lock-step programs: prefix replies match, the keyspace afterwards equals
// the model (nothing executed from the malformed part), the others are
// undisturbed, the process lives.

func init() {
	register(&PropDef{ID: "C02", Gen: genC02, Judge: judgeC02, Runner: runC02, Nontrivial: func(sc *Scenario, rr *RunResult) bool {
		return rr.Faults["fragmented-read"] > 0 || rr.Faults["malformed-stream"] > 0
	}})
}

type c02Extra struct {
	Mode      string `json:"mode"` // parser | server
	Cmds      [][]B  `json:"cmds"` // well-formed commands of the stream (parser mode)
	Tail      B      `json:"tail"` // mutated command appended after them ("" = well-formed stream)
	Mutation  string `json:"mutation"`
	MutKey    string `json:"mut_key"`
	Malformed bool   `json:"malformed"`
}

var argAlphabet = []string{"", "a", "key", "\r", "\n", "\r\n", "\x00", "\xff\xfe\x80", "$5", "*2", "+OK", "-ERR", ":1", "a b", "GET", "\r\n$3\r\n", "x\r\ny\r\n"}

func c02Arg(r *core.Rand) []byte {
	switch r.Intn(12) {
	case 0:
		return bytes.Repeat([]byte{'A' + byte(r.Intn(26))}, pick(r, []int{4090, 4094, 4095, 4096, 4097, 8192, 5000}))
	case 1:
		n := r.Intn(40)
		b := make([]byte, n)
		for i := range b {
			b[i] = byte(r.Intn(256))
		}
		return b
	default:
		return []byte(pick(r, argAlphabet))
	}
}

// mutate returns a byte string that violates the RESP grammar (or is an
// incomplete value at end of stream) built from the encoding of cmd.
func mutate(r *core.Rand, cmd [][]byte) ([]byte, string) {
	enc := rd.EncodeCommand(cmd)
	for attempt := 0; attempt < 20; attempt++ {
		var out []byte
		kind := ""
		switch r.Intn(19) {
		case 17:
			// a complete RESP value that is not a command (a bare bulk, integer, status,
			// error or nil at top level): nothing may be executed from it and nobody may
			// die of it - also when complete commands came before it on the connection
			kind = "bare-top-level-value"
			out = []byte(pick(r, []string{"$4\r\nPING\r\n", "$-1\r\n", "+OK\r\n", ":1\r\n", "-ERR x\r\n", "$0\r\n\r\n"}))
			if r.Bool(0.5) {
				out = append(out, out...)
			}
			return out, kind
		case 18:
			// the stream ends inside the last argument, right behind a CR LF that is part
			// of the value: the bytes so far look like a complete, shorter value
			kind = "truncated-behind-crlf-inside-value"
			val := []byte("ab\r\ncd\r\nef")
			c2 := [][]byte{cmd[0], cmd[1], val}
			e2 := rd.EncodeCommand(c2)
			head := len(e2) - len(val) - 2
			cut := pick(r, []int{4, 8})
			return append([]byte{}, e2[:head+cut]...), kind
		case 16:
			// a length of 20+ digits that equals the true length modulo 2^64 (or 2^32):
			// a hand-rolled digit loop without an overflow check frames the command
			// as if the header were valid
			kind = "length-wraps-modulo-word-size"
			wrap := func(n int) string {
				b := new(big.Int).Lsh(big.NewInt(int64(1+r.Intn(3))), pick(r, []uint{64, 64, 64, 32}))
				return b.Add(b, big.NewInt(int64(n))).String()
			}
			if r.Bool(0.3) {
				out = append([]byte("*"+wrap(len(cmd))+"\r\n"), enc[bytes.Index(enc, []byte("\r\n"))+2:]...)
			} else {
				ai := r.Intn(len(cmd))
				old := []byte(fmt.Sprintf("$%d\r\n%s\r\n", len(cmd[ai]), cmd[ai]))
				out = bytes.Replace(enc, old, []byte(fmt.Sprintf("$%s\r\n%s\r\n", wrap(len(cmd[ai])), cmd[ai])), 1)
			}
		case 14, 15:
			// exactly one of the two bytes that close a bulk payload is wrong (first,
			// middle or last argument): a check that accepts "either byte right" passes it
			kind = "half-bulk-terminator"
			ai := r.Intn(len(cmd))
			off := len(fmt.Sprintf("*%d\r\n", len(cmd)))
			for j := 0; j <= ai; j++ {
				off += len(fmt.Sprintf("$%d\r\n", len(cmd[j]))) + len(cmd[j])
				if j < ai {
					off += 2
				}
			}
			out = append([]byte{}, enc...)
			switch r.Intn(4) {
			case 0:
				out[off] = pick(r, []byte{'X', '\n', 0, ' '})
			case 1:
				out[off+1] = pick(r, []byte{'X', '\r', 0, ' '})
			case 2:
				out[off], out[off+1] = '\n', '\n'
			case 3:
				out[off], out[off+1] = '\r', '\r'
			}
		case 12, 13:
			// the declared length is shorter than the payload, and the payload carries
			// a complete command behind a CRLF: a server that resynchronises after the
			// framing error instead of dropping the connection would execute it
			kind = "embedded-command-in-short-bulk"
			inner := rd.EncodeCommand(cmd)
			payload := append([]byte("AAAAAAAAA\r\n"), inner...)
			var b bytes.Buffer
			b.WriteString("*3\r\n$3\r\nSET\r\n$6\r\nc0:pad\r\n$5\r\n")
			b.Write(payload)
			b.WriteString("\r\n")
			out = b.Bytes()
		case 0:
			kind = "bulk-length-short"
			out = bytes.Replace(enc, []byte(fmt.Sprintf("$%d\r\n", len(cmd[len(cmd)-1]))), []byte(fmt.Sprintf("$%d\r\n", max(len(cmd[len(cmd)-1])-1-r.Intn(2), 0))), 1)
		case 1:
			kind = "bulk-length-long"
			out = bytes.Replace(enc, []byte(fmt.Sprintf("$%d\r\n", len(cmd[0]))), []byte(fmt.Sprintf("$%d\r\n", len(cmd[0])+1+r.Intn(5))), 1)
		case 2:
			kind = "bare-lf-in-header"
			i := bytes.Index(enc, []byte("\r\n"))
			out = append(append([]byte{}, enc[:i]...), enc[i+1:]...)
		case 3:
			kind = "missing-crlf-after-bulk"
			out = append([]byte{}, enc[:len(enc)-2]...)
			out = append(out, 'x', 'y')
		case 4:
			kind = "negative-length"
			out = bytes.Replace(enc, []byte("$"), []byte("$-"+itoa(2+r.Intn(9))+"\r\n$"), 1)
		case 5:
			kind = "non-numeric-length"
			out = bytes.Replace(enc, []byte("$"), []byte("$"+pick(r, []string{"abc", "", "1x", "0x10", " 3", "3 "})+"\r\n$"), 1)
		case 6:
			kind = "huge-bulk-length"
			out = bytes.Replace(enc, []byte("$"), []byte("$"+pick(r, []string{"9223372036854775807", "9223372036854775806", "4294967296", "536870913"})+"\r\n$"), 1)
		case 7:
			kind = "huge-array-length"
			out = append([]byte("*"+pick(r, []string{"9223372036854775807", "4294967296", "-2", "abc", ""})+"\r\n"), enc[bytes.Index(enc, []byte("\r\n"))+2:]...)
		case 8:
			kind = "truncated"
			out = append([]byte{}, enc[:1+r.Intn(len(enc)-1)]...)
		case 9:
			kind = "garbage"
			n := 1 + r.Intn(30)
			out = make([]byte, n)
			for i := range out {
				out[i] = byte(r.Intn(256))
			}
		case 10:
			kind = "bare-lf-only"
			out = []byte(pick(r, []string{"\n", "\r\n", "\n\n", "*1\n$4\nPING\n"}))
		case 11:
			kind = "array-count-too-big"
			out = append([]byte(fmt.Sprintf("*%d\r\n", len(cmd)+1+r.Intn(3))), enc[bytes.Index(enc, []byte("\r\n"))+2:]...)
		}
		if len(out) == 0 {
			continue
		}
		// keep only streams our own decoder cannot read a complete value from
		if _, _, st := rd.Decode(out); st == rd.OK {
			continue
		}
		return out, kind
	}
	return []byte("*1\r\n$4\r\nPIN"), "truncated"
}

func genC02(r *core.Rand, env *core.Env, run int) *Scenario {
	ex := c02Extra{Mode: "parser"}
	if run%2 == 1 {
		ex.Mode = "server"
	}
	sc := &Scenario{Kind: "C02"}
	sc.Knobs = Knobs{ShardNum: pick(r, []int{1, 8}), Databases: 1, MaxSteps: 40000}
	ex.Malformed = r.Bool(0.6)
	ex.MutKey = fmt.Sprintf("c0:zzmut%d", r.Intn(1000))
	if ex.Mode == "parser" {
		n := r.Intn(8)
		for i := 0; i < n; i++ {
			var cmd []B
			for j := 0; j < 1+r.Intn(5); j++ {
				cmd = append(cmd, B(c02Arg(r)))
			}
			ex.Cmds = append(ex.Cmds, cmd)
		}
		if ex.Malformed {
			t, kind := mutate(r, [][]byte{[]byte("SET"), []byte(ex.MutKey), []byte("mutated-value")})
			ex.Tail, ex.Mutation = B(t), kind
		}
		b, _ := json.Marshal(ex)
		sc.Extra = b
		return sc
	}
	// server mode: c0 = lock-step prefix + the mutated command; c1,c2 lock-step bystanders
	aim := run%16 == 15
	g := newLsGen(r, env, "c0:", 1, aim)
	g.keys = keyPool(r, g.prefix, 3, r.Bool(0.5))
	for i := 0; i < r.Intn(10); i++ {
		switch r.Intn(4) {
		case 0:
			g.try(bs("set", g.key(), string(c02Arg(r)[:min(len(c02Arg(r)), 0)])+g.value()))
		case 1:
			g.try([]B{B("ping"), B(c02Arg(r))})
		case 2:
			g.try([]B{B("set"), B(g.key()), B(c02Arg(r))})
		case 3:
			g.try(bs("get", g.key()))
		}
	}
	steps := g.steps
	if ex.Malformed {
		t, kind := mutate(r, [][]byte{[]byte("SET"), []byte(ex.MutKey), []byte("mutated-value")})
		ex.Tail, ex.Mutation = B(t), kind
		steps = append(steps, Step{Kind: "raw", Raw: B(t), NoReply: true}, Step{Kind: "halfclose"})
	}
	sc.Clients = append(sc.Clients, ClientProg{Name: "c0", Role: "owner", Steps: steps, Pipeline: pick(r, []int{1, 3, 20}), Chunked: true})
	for ci := 1; ci <= 1+r.Intn(2); ci++ {
		t := newLsGen(r, env, fmt.Sprintf("c%d:", ci), 1, false)
		t.keys = keyPool(r, t.prefix, 2, true)
		for i := 0; i < 5+r.Intn(15); i++ {
			genStringCmd(t)
		}
		sc.Clients = append(sc.Clients, ClientProg{Name: fmt.Sprintf("c%d", ci), Role: "owner", Steps: t.steps, Pipeline: 1, Chunked: r.Bool(0.5)})
	}
	b, _ := json.Marshal(ex)
	sc.Extra = b
	return sc
}

// runC02 runs parser-mode scenarios in a bubble of their own.
func runC02(t *testing.T, sc *Scenario, tape *core.Tape, j *core.Journal, keep bool) *RunResult {
	var ex c02Extra
	json.Unmarshal(sc.Extra, &ex)
	if ex.Mode != "parser" {
		rr := RunScenario(t, sc, tape, j, keep)
		if ex.Malformed {
			rr.Faults["malformed-stream"]++
			rr.Faults["malformed:"+ex.Mutation]++
		}
		return rr
	}
	rr := &RunResult{Sc: sc, Faults: map[string]int64{}, Probes: map[string]int64{}}
	var stream []byte
	for _, c := range ex.Cmds {
		stream = append(stream, rd.EncodeCommand(argv(c))...)
	}
	stream = append(stream, ex.Tail...)
	if j != nil {
		j.Step("sig=C02/process-died/parser:%s", mutClass(&ex))
		j.Step("stream %q", truncate(string(stream), 300))
	}
	type item struct {
		cmd [][]byte
		err string
		non string
	}
	var got []item
	func() {
		defer func() {
			if r := recover(); r != nil {
				s := fmt.Sprint(r)
				if !strings.Contains(s, "blocked goroutines remain") && !strings.Contains(s, "deadlock: main bubble goroutine") {
					rr.Panics = append(rr.Panics, "harness: "+s)
				}
			}
		}()
		synctest.Test(t, func(t *testing.T) {
			start := time.Now()
			conn := newConn(0, "p")
			ctx, cancel := context.WithCancel(context.Background())
			ch := resp.ParseStream(ctx, conn)
			done := make(chan struct{})
			go func() {
				defer close(done)
				// the connection loop's contract: stop at the first error
				for r := range ch {
					if r.Err != nil {
						got = append(got, item{err: r.Err.Error()})
						return
					}
					if arr, ok := r.Data.(*resp.ArrayData); ok {
						got = append(got, item{cmd: arr.ToCommand()})
					} else {
						got = append(got, item{non: fmt.Sprintf("%T", r.Data)})
					}
				}
			}()
			rest := stream
			h := uint64(1469598103934665603)
			for len(rest) > 0 {
				n := len(rest)
				switch tape.Draw(5) {
				case 0:
					n = 1
				case 1:
					n = 1 + tape.Draw(min(n, 6))
				case 2:
					n = 1 + tape.Draw(n)
				case 3:
					n = min(n, 4096)
				}
				if n < len(rest) {
					rr.Faults["fragmented-read"]++
				}
				conn.deliver(rest[:n])
				rest = rest[n:]
				h = (h ^ uint64(n)) * 1099511628211
				rr.Steps++
				time.Sleep(time.Nanosecond)
				synctest.Wait()
			}
			conn.halfClose()
			time.Sleep(time.Nanosecond)
			synctest.Wait()
			select {
			case <-done:
			default:
				rr.Stuck = "parser neither delivered an error nor end-of-stream after the input ended"
			}
			rr.TraceHash = h ^ core.HashString(string(stream))
			rr.SimElapsed = time.Since(start)
			cancel()
			conn.clientClose()
			// whatever the parser still wants to say is taken off its hands, so that its
			// goroutine (and the buffers it holds) does not outlive the run
			go func() {
				for range ch {
				}
			}()
			time.Sleep(time.Nanosecond)
			synctest.Wait()
		})
	}()
	if ex.Malformed {
		rr.Faults["malformed-stream"]++
		rr.Faults["malformed:"+ex.Mutation]++
	}
	// verdict is computed here (the parsed items do not fit RunResult)
	var errItem *item
	var cmds [][][]byte
	for i := range got {
		if got[i].err != "" {
			errItem = &got[i]
			break
		}
		if got[i].cmd != nil {
			cmds = append(cmds, got[i].cmd)
		}
	}
	want := ex.Cmds
	for i := 0; i < len(cmds) || i < len(want); i++ {
		if i >= len(want) {
			if ex.Malformed {
				rr.Invariant = fmt.Sprintf("C02/malformed-executed/%s|a command was assembled from the malformed part: %q (stream tail %q)", mutClass(&ex), cmds[i], truncate(string(ex.Tail), 80))
			} else {
				rr.Invariant = fmt.Sprintf("C02/decode-mismatch/extra-command|decoded an extra command %q", cmds[i])
			}
			break
		}
		if i >= len(cmds) {
			why := "end of stream"
			if errItem != nil {
				why = "error " + errItem.err
			}
			rr.Invariant = fmt.Sprintf("C02/decode-mismatch/%s|command %d (%s) was not decoded (%s)", argShape(want[i]), i, truncate(cmdString(want[i]), 80), why)
			break
		}
		if len(cmds[i]) != len(want[i]) {
			rr.Invariant = fmt.Sprintf("C02/decode-mismatch/%s|command %d decoded with %d arguments, sent %d: %s", argShape(want[i]), i, len(cmds[i]), len(want[i]), truncate(cmdString(want[i]), 80))
			break
		}
		for k := range want[i] {
			if !bytes.Equal(cmds[i][k], want[i][k]) {
				rr.Invariant = fmt.Sprintf("C02/decode-mismatch/%s|command %d argument %d decoded as %q, sent %q", argShape(want[i]), i, k, truncate(string(cmds[i][k]), 60), truncate(string(want[i][k]), 60))
				break
			}
		}
		if rr.Invariant != "" {
			break
		}
	}
	rr.Probes["parser-commands-checked"] += int64(len(cmds))
	return rr
}

func mutClass(ex *c02Extra) string {
	if ex.Mutation == "" {
		return "well-formed"
	}
	return ex.Mutation
}

// argShape classifies a command's arguments by what makes decoding hard.
func argShape(c []B) string {
	var f []string
	add := func(s string) {
		for _, x := range f {
			if x == s {
				return
			}
		}
		f = append(f, s)
	}
	for _, a := range c {
		switch {
		case len(a) == 0:
			add("empty")
		case len(a) >= 4090:
			add("bufsize")
		}
		if bytes.ContainsAny(a, "\r\n") {
			add("crlf")
		}
		if bytes.IndexByte(a, 0) >= 0 {
			add("nul")
		}
		for _, ch := range a {
			if ch >= 0x80 {
				add("high-bytes")
				break
			}
		}
	}
	if len(f) == 0 {
		return "plain"
	}
	return strings.Join(f, ",")
}

func judgeC02(sc *Scenario, rr *RunResult, env *core.Env) (string, string) {
	var ex c02Extra
	json.Unmarshal(sc.Extra, &ex)
	if ex.Mode == "parser" {
		if strings.HasPrefix(rr.Invariant, "C02/") {
			parts := strings.SplitN(rr.Invariant, "|", 2)
			return parts[0], parts[1]
		}
		if rr.Stuck != "" {
			return "C02/parser-hang/" + mutClass(&ex), rr.Stuck
		}
		return "", ""
	}
	if sig, msg := judgeLockstep("C02")(sc, rr, env); sig != "" {
		return sig, msg
	}
	// nothing executed from the malformed part: the keyspace equals the models'
	if rr.FinalDump != nil {
		var want []string
		for _, c := range rr.Clients {
			m := refmodel.New(1)
			var last time.Time
			for _, op := range c.ops {
				if op.Done && op.Args != nil {
					m.Apply(0, argv(op.Args), op.InvokeAt, op.Reply)
					last = op.InvokeAt
				}
			}
			want = append(want, m.Dump(0, last)...)
		}
		sortStrings(want)
		got := append([]string(nil), rr.FinalDump[0]...)
		sortStrings(got)
		if strings.Join(want, "\n") != strings.Join(got, "\n") {
			return "C02/malformed-executed/" + mutClass(&ex), fmt.Sprintf("keyspace after the run differs from the model (stream tail %q):\n  model: %v\n  server: %v", truncate(string(ex.Tail), 80), want, got)
		}
	}
	return "", ""
}
