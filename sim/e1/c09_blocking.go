package e1

import (
	"fmt"
	"strconv"
	"strings"
	"time"

	"github.com/anishathalye/porcupine"

	"verifsim/core"
	rd "verifsim/respdec"
)

// C09, blocking pops under simulation: poppers blocked on 1-2 lists with
// timeouts of 1-3 s on the fake clock, pushers arriving before, during and
// after, several poppers competing for one element.  Oracle: every popped
// value was pushed, to the key it was popped from, and is popped once
// (each element goes to exactly one popper); pushed = popped + remaining
// (conservation, read back by an auditor at the end); a timed-out pop answers
// nil no later than its timeout (+ one poll interval and scheduling slack) and
// only if ... no element was available for the whole wait is NOT demanded (a
// poll-based implementation may lose a race against another popper); an
// emptied list does not exist any more.

func genC09Blocking(r *core.Rand, env *core.Env, run int) *Scenario {
	sc := &Scenario{Kind: "C09:blocking"}
	sc.Knobs = Knobs{ShardNum: pick(r, []int{1, 2, 8}), Databases: 1, YieldRMW: r.Bool(0.5), MaxSteps: 60000, IdleBudget: 300,
		Strategy: pick(r, []int{0, 0, 1, 2, 3}), PreemptPct: pick(r, []int{10, 30, 60})}
	queues := []string{"q0", "q1"}[:1+r.Intn(2)]
	uniq := 0
	for _, q := range queues {
		if r.Bool(0.3) {
			uniq++
			sc.Knobs.Preload = append(sc.Knobs.Preload, bs("rpush", q, fmt.Sprintf("pre%d", uniq)))
		}
	}
	np := 1 + r.Intn(3)
	for i := 0; i < np; i++ {
		p := ClientProg{Name: fmt.Sprintf("push%d", i), Role: "pusher", Pipeline: 1}
		for j := 0; j < 1+r.Intn(4); j++ {
			if r.Bool(0.3) {
				p.Steps = append(p.Steps, Step{Kind: "sleep", Sleep: time.Duration(50+r.Intn(900)) * time.Millisecond})
			}
			a := bs(pick(r, []string{"rpush", "rpush", "lpush"}), pick(r, queues))
			for k := 0; k < 1+r.Intn(2); k++ {
				uniq++
				a = append(a, B(fmt.Sprintf("v%d", uniq)))
			}
			p.Steps = append(p.Steps, Step{Kind: "cmd", Args: a})
		}
		sc.Clients = append(sc.Clients, p)
	}
	nq := 1 + r.Intn(4)
	for i := 0; i < nq; i++ {
		p := ClientProg{Name: fmt.Sprintf("pop%d", i), Role: "popper", Pipeline: 1}
		for j := 0; j < 1+r.Intn(3); j++ {
			if r.Bool(0.3) {
				// plain pops compete for the same elements
				p.Steps = append(p.Steps, Step{Kind: "cmd", Args: bs(pick(r, []string{"lpop", "rpop"}), pick(r, queues))})
				continue
			}
			a := bs(pick(r, []string{"blpop", "blpop", "brpop"}))
			if len(queues) == 2 && r.Bool(0.4) {
				if r.Bool(0.5) {
					a = append(a, B("q0"), B("q1"))
				} else {
					a = append(a, B("q1"), B("q0"))
				}
			} else {
				a = append(a, B(pick(r, queues)))
			}
			a = append(a, B(itoa(1+r.Intn(3))))
			p.Steps = append(p.Steps, Step{Kind: "cmd", Args: a})
		}
		sc.Clients = append(sc.Clients, p)
	}
	aud := ClientProg{Name: "zaudit", Role: "auditor", Pipeline: 1, Steps: []Step{{Kind: "barrier"}}}
	for _, q := range queues {
		aud.Steps = append(aud.Steps, Step{Kind: "cmd", Args: bs("lrange", q, "0", "-1")}, Step{Kind: "cmd", Args: bs("exists", q)}, Step{Kind: "cmd", Args: bs("llen", q)})
	}
	sc.Clients = append(sc.Clients, aud)
	return sc
}

func judgeC09Blocking(sc *Scenario, rr *RunResult, env *core.Env) (string, string) {
	pushed := map[string]string{} // value -> queue
	for _, c := range sc.Knobs.Preload {
		for _, v := range c[2:] {
			pushed[string(v)] = string(c[1])
		}
	}
	for _, c := range rr.Clients {
		if c.prog.Role != "pusher" {
			continue
		}
		for _, op := range c.ops {
			// a push whose reply never came may or may not have happened
			for _, v := range op.Args[2:] {
				pushed[string(v)] = string(op.Args[1])
			}
			if op.Done && op.Reply.Kind != rd.Integer {
				return "C09/blocking/push-reply", fmt.Sprintf("%s replied %s", cmdString(op.Args), op.Reply.String())
			}
		}
	}
	poppedBy := map[string]string{}
	for ci, c := range rr.Clients {
		if c.prog.Role != "popper" {
			continue
		}
		for _, op := range c.ops {
			if !op.Done {
				continue
			}
			if !blockingPop(op.Args) {
				// LPOP / RPOP: nil or one element of that list
				if op.Reply.IsNil() {
					continue
				}
				val, key := string(op.Reply.Str), string(op.Args[1])
				if !op.Reply.StringLike() {
					return "C09/blocking/reply-shape", fmt.Sprintf("client %d: %s replied %s", ci, cmdString(op.Args), op.Reply.String())
				}
				if q, ok := pushed[val]; !ok || q != key {
					return "C09/blocking/popped-unknown", fmt.Sprintf("client %d: %s returned %q, which was never pushed to %q", ci, cmdString(op.Args), val, key)
				}
				if prev, dup := poppedBy[val]; dup {
					return "C09/blocking/popped-twice", fmt.Sprintf("element %q went to two poppers (%s and client %d)", val, prev, ci)
				}
				poppedBy[val] = fmt.Sprintf("client %d", ci)
				continue
			}
			to, _ := strconv.Atoi(string(op.Args[len(op.Args)-1]))
			waited := op.ReturnAt.Sub(op.InvokeAt)
			if op.Reply.IsNil() {
				rr.Probes["blocking-pop-timed-out"]++
				if waited > time.Duration(to)*time.Second+300*time.Millisecond {
					return "C09/blocking/timeout-overrun", fmt.Sprintf("client %d: %s answered nil after %v of simulated time", ci, cmdString(op.Args), waited)
				}
				if waited < time.Duration(to)*time.Second-time.Millisecond {
					return "C09/blocking/timeout-early", fmt.Sprintf("client %d: %s gave up after %v, before its timeout", ci, cmdString(op.Args), waited)
				}
				continue
			}
			v := op.Reply
			if v.Kind != rd.Array || len(v.Arr) != 2 || !v.Arr[0].StringLike() || !v.Arr[1].StringLike() {
				return "C09/blocking/reply-shape", fmt.Sprintf("client %d: %s replied %s, expected [key, element] or nil", ci, cmdString(op.Args), v.String())
			}
			key, val := string(v.Arr[0].Str), string(v.Arr[1].Str)
			rr.Probes["blocking-pop-got-element"]++
			if waited > 150*time.Millisecond {
				rr.Probes["blocking-pop-waited-for-push"]++
			}
			q, ok := pushed[val]
			if !ok || q != key {
				return "C09/blocking/popped-unknown", fmt.Sprintf("client %d: %s returned %q from %q, which was never pushed there", ci, cmdString(op.Args), val, key)
			}
			listed := false
			for _, k := range op.Args[1 : len(op.Args)-1] {
				if string(k) == key {
					listed = true
				}
			}
			if !listed {
				return "C09/blocking/popped-unknown", fmt.Sprintf("client %d: %s returned key %q, which it did not ask for", ci, cmdString(op.Args), key)
			}
			if prev, dup := poppedBy[val]; dup {
				return "C09/blocking/popped-twice", fmt.Sprintf("element %q went to two poppers (%s and client %d)", val, prev, ci)
			}
			poppedBy[val] = fmt.Sprintf("client %d", ci)
		}
	}
	// conservation at quiescence
	remaining := map[string]bool{}
	for _, c := range rr.Clients {
		if c.prog.Role != "auditor" {
			continue
		}
		var lastRange rd.Value
		var lastQ string
		for _, op := range c.ops {
			if !op.Done {
				return "", ""
			}
			switch strings.ToLower(string(op.Args[0])) {
			case "lrange":
				lastRange, lastQ = op.Reply, string(op.Args[1])
				if op.Reply.Kind != rd.Array {
					return "C09/blocking/readback", fmt.Sprintf("LRANGE %s replied %s", lastQ, op.Reply.String())
				}
				for _, e := range op.Reply.Arr {
					if remaining[string(e.Str)] {
						return "C09/blocking/duplicated", fmt.Sprintf("element %q is in the lists twice", e.Str)
					}
					remaining[string(e.Str)] = true
					if q, ok := pushed[string(e.Str)]; !ok || q != lastQ {
						return "C09/blocking/readback", fmt.Sprintf("list %s holds %q, which was never pushed there", lastQ, e.Str)
					}
				}
			case "exists":
				want := int64(0)
				if len(lastRange.Arr) > 0 {
					want = 1
				}
				if op.Reply.Kind != rd.Integer || op.Reply.Int != want {
					return "C09/blocking/emptied-list-exists", fmt.Sprintf("EXISTS %s = %s although LRANGE shows %d elements", lastQ, op.Reply.String(), len(lastRange.Arr))
				}
			case "llen":
				if op.Reply.Kind != rd.Integer || op.Reply.Int != int64(len(lastRange.Arr)) {
					return "C09/blocking/readback", fmt.Sprintf("LLEN %s = %s but LRANGE shows %d elements", lastQ, op.Reply.String(), len(lastRange.Arr))
				}
			}
		}
	}
	allPushesDone := true
	for _, c := range rr.Clients {
		if c.prog.Role == "pusher" {
			for _, op := range c.ops {
				if !op.Done {
					allPushesDone = false
				}
			}
			if c.next < len(c.prog.Steps) {
				allPushesDone = false
			}
		}
	}
	if allPushesDone {
		for v := range pushed {
			_, popped := poppedBy[v]
			if popped && remaining[v] {
				return "C09/blocking/duplicated", fmt.Sprintf("element %q was popped and is still in its list", v)
			}
			if !popped && !remaining[v] {
				return "C09/blocking/element-lost", fmt.Sprintf("element %q was pushed (acknowledged) but neither popped by anyone nor left in its list", v)
			}
		}
	}
	return "", ""
}

// judgeC09BlockingLin checks the whole history of the blocking scenario, blocking
// pops included, against the sequential list model: a blocking pop that answers
// [key, element] took the head (BLPOP) or tail (BRPOP) of that list at one
// instant of its wait; one that answers nil found each of its keys empty at some
// instant of its wait (sound for a polling implementation: its last poll).
// A pop over several keys is not required to look at them atomically (no
// property says so; C13 asks only for deadlock freedom there): it is judged as
// a pop of the key it was served from, or as one empty-handed pop per key.  The
// argument-order priority among several non-empty keys is judged where it is
// decidable, in the sequential programs.
func judgeC09BlockingLin(sc *Scenario, rr *RunResult, env *core.Env) (string, string) {
	init := preloadModel(sc, 1)
	model := linModel(init)
	var ops []porcupine.Operation
	for _, o := range historyOps(rr, nil) {
		in := o.Input.(linIn)
		out := o.Output.(linOut)
		if !blockingPop(bsToB(in.Args)) || len(in.Args) <= 3 {
			ops = append(ops, o)
			continue
		}
		name, to := in.Args[0], in.Args[len(in.Args)-1]
		switch {
		case out.Pending:
			// never answered (the run ended first): it may have popped from any one key
			continue
		case out.V.IsNil():
			for _, k := range in.Args[1 : len(in.Args)-1] {
				p := o
				p.Input = linIn{Args: [][]byte{name, k, to}, At: in.At}
				ops = append(ops, p)
			}
		case out.V.Kind == rd.Array && len(out.V.Arr) == 2:
			p := o
			p.Input = linIn{Args: [][]byte{name, out.V.Arr[0].Str, to}, At: in.At}
			ops = append(ops, p)
		default:
			ops = append(ops, o)
		}
	}
	if len(ops) == 0 {
		return "", ""
	}
	switch porcupine.CheckOperationsTimeout(model, ops, 8*time.Second) {
	case porcupine.Ok:
		rr.Probes["porcupine-ok"]++
		return "", ""
	case porcupine.Unknown:
		rr.Probes["porcupine-unknown"]++
		return "", ""
	}
	rr.Probes["porcupine-illegal"]++
	return "C09/blocking/not-linearizable/" + historyClass(rr), "history of pushes, pops and blocking pops is not linearizable w.r.t. the list model (wrong end, wrong element order, an element lost or served twice, or nil although data was there for the whole wait):\n" + describeHistory(ops, model)
}

func bsToB(a [][]byte) []B {
	out := make([]B, len(a))
	for i, x := range a {
		out[i] = B(x)
	}
	return out
}
