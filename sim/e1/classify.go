package e1

import (
	"sort"
	"strconv"
	"strings"
	"time"

	"verifsim/refmodel"
)

// classify computes the *trigger class* of one command instance from the
// operation and the reference model's pre-state — never from the
// implementation.  It names the violation signature
// (<property>/reply-mismatch/<class>) and lets generators steer away from
// classes listed in KNOWN_FINDINGS.txt, so that a listed finding masks only
// its own class.
func classify(m *refmodel.Model, conn int, a []B, now time.Time) string {
	if len(a) == 0 {
		return "EMPTY"
	}
	name := strings.ToUpper(string(a[0]))
	if !isPrintable(name) || len(name) > 16 {
		return "UNPRINTABLE-NAME"
	}
	var f []string
	add := func(s string) { f = append(f, s) }
	add("argc=" + strconv.Itoa(min(len(a)-1, 9)))
	db := m.DBs[m.Selected[conn]]
	keyState := func(k string) string {
		e, ok := db.Keys[k]
		if !ok || (e.HasTTL && !now.Before(e.WinHi)) {
			return "missing"
		}
		s := e.T.String()
		if e.HasTTL {
			s += "+ttl"
		}
		return s
	}
	if len(a) > 1 {
		add("k=" + keyState(string(a[1])))
	}
	lname := strings.ToLower(name)
	// second key of two-key commands
	switch lname {
	case "rename", "lmove", "smove":
		if len(a) > 2 {
			add("k2=" + keyState(string(a[2])))
			if string(a[1]) == string(a[2]) {
				add("same-key")
			}
		}
	case "sunion", "sinter", "sdiff", "sunionstore", "sinterstore", "sdiffstore", "del", "exists", "mget", "blpop", "brpop":
		st := map[string]bool{}
		for _, k := range a[2:] {
			st[keyState(string(k))] = true
		}
		var ss []string
		for s := range st {
			ss = append(ss, s)
		}
		sort.Strings(ss)
		if len(ss) > 0 {
			add("more=" + strings.Join(ss, "|"))
		}
	}
	// option words
	opts := map[string]bool{"nx": true, "xx": true, "get": true, "ex": true, "px": true, "exat": true, "pxat": true, "keepttl": true,
		"ch": true, "incr": true, "gt": true, "lt": true, "rev": true, "withscores": true, "rank": true, "count": true,
		"maxlen": true, "left": true, "right": true, "withvalues": true, "nomkstream": true, "minid": true, "limit": true}
	optCmds := map[string]bool{"set": true, "expire": true, "zadd": true, "zrange": true, "lpos": true, "lmove": true, "hrandfield": true, "xadd": true, "xrange": true}
	if optCmds[lname] {
		seen := map[string]bool{}
		for _, x := range a[2:] {
			lx := strings.ToLower(string(x))
			if opts[lx] && !seen[lx] {
				seen[lx] = true
				s := lx
				if string(x) != lx {
					s += "^" // written in upper/mixed case
				}
				add(s)
			}
		}
	}
	// argument shape
	empty, binary, ucaseKey := false, false, false
	for i, x := range a[1:] {
		if len(x) == 0 {
			empty = true
		}
		for _, c := range x {
			if c < 0x20 || c > 0x7e {
				binary = true
			}
			if i == 0 && c >= 'A' && c <= 'Z' {
				ucaseKey = true
			}
		}
	}
	if empty {
		add("empty-arg")
	}
	if binary {
		add("binary-arg")
	}
	if ucaseKey {
		add("ucase-key")
	}
	// numeric shape of index/count arguments
	numArgs := map[string][]int{"getrange": {2, 3}, "setrange": {2}, "lindex": {2}, "lrange": {2, 3}, "ltrim": {2, 3}, "lset": {2},
		"lrem": {2}, "lpop": {2}, "rpop": {2}, "zrange": {2, 3}, "spop": {2}, "srandmember": {2}, "hrandfield": {2},
		"incrby": {2}, "decrby": {2}, "hincrby": {3}, "expire": {2}, "setex": {2}}
	if idx, ok := numArgs[lname]; ok {
		for _, i := range idx {
			if i < len(a) {
				if v, err := strconv.ParseInt(string(a[i]), 10, 64); err == nil {
					switch {
					case v < 0:
						add("neg" + strconv.Itoa(i))
					case v == 0:
						add("zero" + strconv.Itoa(i))
					}
					if v > 1<<40 || v < -(1<<40) {
						add("huge" + strconv.Itoa(i))
					}
				} else {
					add("nan" + strconv.Itoa(i))
				}
			}
		}
	}
	// family specific pre-state features
	switch lname {
	case "zadd", "zrem", "zrank", "zrange":
		if e, ok := db.Keys[string(a[1])]; ok && e.T == refmodel.TZSet {
			cnt := map[float64]int{}
			for _, s := range e.Z {
				cnt[s]++
			}
			tie := false
			for _, c := range cnt {
				if c > 1 {
					tie = true
				}
			}
			if tie {
				add("ties")
			}
			if lname == "zadd" {
				upd := false
				for i := 2; i+1 < len(a); i++ {
					if _, ok := e.Z[string(a[i+1])]; ok {
						upd = true
					}
				}
				if upd {
					add("update")
				}
			}
			if len(e.Z) >= 4 {
				add("big")
			}
		}
		ucm := false
		for _, x := range a[2:] {
			for _, c := range x {
				if c >= 'A' && c <= 'Z' {
					ucm = true
				}
			}
		}
		if ucm {
			add("ucase-member")
		}
	case "lrem", "lpos", "linsert":
		if e, ok := db.Keys[string(a[1])]; ok && e.T == refmodel.TList && len(a) > 3 {
			n := 0
			target := a[3]
			if lname == "lpos" {
				target = a[2]
			}
			for _, v := range e.L {
				if string(v) == string(target) {
					n++
				}
			}
			add("matches=" + strconv.Itoa(min(n, 3)))
		}
	case "lpop", "rpop", "ltrim", "srem", "spop", "hdel", "smove", "lmove":
		// would this empty the container?
		if e, ok := db.Keys[string(a[1])]; ok {
			sz := len(e.L) + len(e.H) + len(e.Set) + len(e.Z)
			if sz == 1 {
				add("last-element")
			}
		}
	case "xadd":
		// locate the ID argument behind the options
		k := 2
		for k < len(a) {
			o := strings.ToLower(string(a[k]))
			if o == "nomkstream" {
				k++
			} else if o == "maxlen" || o == "minid" {
				k++
				if k < len(a) && (string(a[k]) == "=" || string(a[k]) == "~") {
					k++
				}
				k++
			} else if o == "limit" {
				k += 2
			} else {
				break
			}
		}
		if k < len(a) {
			s := string(a[k])
			switch {
			case s == "*":
				add("auto-id")
			case strings.HasSuffix(s, "-*"):
				add("partial-id")
			case strings.Contains(s, "-"):
				add("explicit-id")
			default:
				add("ms-only-id")
			}
			for _, part := range strings.SplitN(strings.TrimSuffix(s, "-*"), "-", 2) {
				if v, err := strconv.ParseUint(part, 10, 64); err == nil && v > 1<<63-1 {
					add("id-above-int64")
				}
			}
		}
		if e, ok := db.Keys[string(a[1])]; ok && e.T == refmodel.TStream && len(e.X) > 0 {
			add("nonempty")
		}
	case "xrange":
		if len(a) > 3 {
			for _, x := range a[2:4] {
				s := string(x)
				switch {
				case s == "-" || s == "+":
					add("inf-bound")
				case strings.HasPrefix(s, "("):
					add("excl-bound")
				case strings.Contains(s, "-"):
					add("full-bound")
				default:
					add("ms-bound")
				}
			}
		}
	}
	// what the reference answers
	exp := m.Expected(conn, argv(a), now)
	switch {
	case strings.HasPrefix(exp, "WRONGTYPE"):
		add("ref=wrongtype")
	case strings.HasPrefix(exp, "error"):
		add("ref=error")
	case exp == "$nil" || exp == "*nil":
		add("ref=nil")
	}
	// de-duplicate, keep order
	seen := map[string]bool{}
	var out []string
	for _, x := range f {
		if !seen[x] {
			seen[x] = true
			out = append(out, x)
		}
	}
	return name + ":" + strings.Join(out, ",")
}

var readOnly = map[string]bool{"get": true, "mget": true, "strlen": true, "getrange": true, "exists": true, "type": true, "ttl": true, "keys": true,
	"llen": true, "lindex": true, "lrange": true, "lpos": true, "hget": true, "hmget": true, "hgetall": true, "hkeys": true, "hvals": true,
	"hlen": true, "hexists": true, "hstrlen": true, "hrandfield": true, "sismember": true, "scard": true, "smembers": true, "srandmember": true,
	"sunion": true, "sinter": true, "sdiff": true, "zrange": true, "zrank": true, "xrange": true, "ping": true}

func isReadOnly(a []B) bool { return len(a) > 0 && readOnly[strings.ToLower(string(a[0]))] }

// ownerProp names the property whose statement covers the command, so that a
// defect of HSET met while checking lists is still labelled C10.
func ownerProp(a []B, dflt string) string {
	if len(a) == 0 {
		return dflt
	}
	switch strings.ToLower(string(a[0])) {
	case "set", "get", "mset", "mget", "setnx", "setex", "append", "strlen", "getrange", "setrange", "incr", "decr", "incrby", "decrby",
		"incrbyfloat", "del", "exists", "type", "rename", "keys", "ping":
		return "C01"
	case "expire", "ttl", "persist":
		return "C06"
	case "lpush", "rpush", "lpushx", "rpushx", "lpop", "rpop", "llen", "lindex", "lrange", "lset", "lrem", "ltrim", "lpos", "lmove", "blpop", "brpop":
		return "C09"
	case "hset", "hsetnx", "hget", "hmget", "hgetall", "hkeys", "hvals", "hlen", "hexists", "hstrlen", "hdel", "hincrby", "hincrbyfloat", "hrandfield":
		return "C10"
	case "sadd", "srem", "sismember", "scard", "smembers", "smove", "spop", "srandmember", "sunion", "sinter", "sdiff", "sunionstore", "sinterstore", "sdiffstore":
		return "C11"
	case "zadd", "zrem", "zrange", "zrank":
		return "C12"
	case "xadd", "xrange":
		return "C18"
	case "select":
		return "C20"
	case "publish", "subscribe":
		return "C19"
	}
	return dflt
}
