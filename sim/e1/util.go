package e1

import "sort"

func sortStrings(s []string) { sort.Strings(s) }
