package e1

import (
	"fmt"

	"verifsim/core"
)

// C01 — string and key commands as a sequential Redis keyspace.
func init() {
	fam := lsFamily{prop: "C01", gen: genStringCmd, useTime: true, seedOthers: true}
	register(&PropDef{ID: "C01", Gen: genLockstep(fam), Judge: judgeLockstep("C01"), Nontrivial: ntLockstep})
}

func ntLockstep(sc *Scenario, rr *RunResult) bool {
	return rr.Probes["lockstep-ops-checked"] >= 5
}

var dyadic = []string{"0.5", "-0.25", "1.5", "2", "-3", "0.125", "100", "1e2", "-1.75"}

func (g *lsGen) globPattern() string {
	r := g.r
	switch r.Intn(8) {
	case 0:
		return g.prefix + "*"
	case 1:
		return g.prefix + "*" + pick(r, []string{"", "a", "y"})
	case 2:
		return g.key()
	case 3:
		return g.prefix + "?"
	case 4:
		return g.prefix + "[a-c]"
	case 5:
		return g.prefix + "[^a]*"
	case 6:
		return g.prefix + "*" + pick(r, []string{"a", "b", "y", "1"}) + pick(r, []string{"", "*", "?"})
	default:
		return g.prefix + "\\" + pick(r, []string{"a", "*", "?"})
	}
}

func genStringCmd(g *lsGen) {
	r := g.r
	k := g.key()
	switch r.Intn(30) {
	case 0, 1, 2:
		g.try(bs("set", k, g.value()))
	case 3, 4:
		a := bs("set", k, g.value())
		opts := [][]string{{"nx"}, {"xx"}, {"get"}, {"xx", "get"}, {"nx", "get"}, {"get", "nx"}, {"keepttl"}, {"NX"}, {"Get"}, {"nx", "xx"},
			{"keepttl", "get"}, {"xx", "keepttl"}, {"nx", "keepttl", "get"}}
		for _, o := range pick(r, opts) {
			a = append(a, B(o))
		}
		if g.timeOK && r.Bool(0.5) {
			switch r.Intn(5) {
			case 0:
				a = append(a, B("ex"), B(itoa(pick(r, []int{1, 2, 3, 10, 100, 0, -1}))))
			case 1:
				a = append(a, B("px"), B(itoa(pick(r, []int{1000, 2000, 1500, 100000, 0}))))
			case 2:
				a = append(a, B("exat"), B(itoa(int(g.now.Unix())+pick(r, []int{2, 5, 100, -10}))))
			case 3:
				a = append(a, B("EX"), B(itoa(1+r.Intn(5))))
			case 4:
				a = append(a, B("ex"), B(pick(r, []string{"abc", "", "1.5"})))
			}
		}
		g.try(a)
	case 5, 6, 7:
		g.try(bs("get", k))
	case 8:
		a := bs("mset")
		for i := 0; i < 1+r.Intn(3); i++ {
			a = append(a, B(g.key()), B(g.value()))
		}
		if r.Bool(0.1) {
			a = append(a, B("odd"))
		}
		g.try(a)
	case 9:
		a := bs("mget")
		for i := 0; i < 1+r.Intn(3); i++ {
			a = append(a, B(g.key()))
		}
		g.try(a)
	case 10:
		g.try(bs("setnx", k, g.value()))
	case 11:
		if g.timeOK {
			g.try(bs("setex", k, itoa(pick(r, []int{1, 2, 5, 100, 0, -5})), g.value()))
		} else {
			g.try(bs("setnx", k, g.value()))
		}
	case 12, 13:
		g.try(bs("append", k, g.value()))
	case 14:
		g.try(bs("strlen", k))
	case 15, 16:
		g.try(bs("getrange", k, itoa(r.Intn(9)-4), itoa(r.Intn(12)-5)))
	case 17:
		g.try(bs("setrange", k, itoa(pick(r, []int{0, 1, 2, 5, 9, -1})), pick(r, []string{"X", "", "longer-value", "\x00"})))
	case 18:
		g.try(bs("incr", k))
	case 19:
		g.try(bs("decr", k))
	case 20:
		g.try(bs("incrby", k, pick(r, []string{"1", "5", "-3", "9223372036854775807", "-9223372036854775808", "x", "1.5", ""})))
	case 21:
		g.try(bs("decrby", k, pick(r, []string{"1", "5", "-3", "9223372036854775807", "-9223372036854775808", "x"})))
	case 22:
		g.try(bs("incrbyfloat", k, pick(r, dyadic)))
	case 23:
		a := bs("del", k)
		if r.Bool(0.3) {
			a = append(a, B(g.key()))
		}
		g.try(a)
	case 24:
		a := bs("exists", k)
		if r.Bool(0.3) {
			a = append(a, B(g.key()), B(k))
		}
		g.try(a)
	case 25:
		g.try(bs("type", k))
	case 26:
		g.try(bs("rename", k, g.key()))
	case 27:
		g.try(bs("keys", g.globPattern()))
	case 28:
		if r.Bool(0.5) {
			g.try(bs("ping"))
		} else {
			g.try(bs("ping", g.value()))
		}
	case 29:
		if g.timeOK {
			switch r.Intn(5) {
			case 3:
				// options, and TTLs that are zero, negative or not numbers
				a := bs("expire", k, pick(r, []string{"1", "3", "100", "0", "-1", "x", "", "9223372036854775807"}))
				if r.Bool(0.8) {
					a = append(a, B(pick(r, []string{"nx", "xx", "gt", "lt", "NX", "Gt", "bogus"})))
				}
				if r.Bool(0.1) {
					a = append(a, B(pick(r, []string{"nx", "xx", "gt", "lt"})))
				}
				g.try(a)
				g.try(bs("exists", k))
			case 4:
				g.try(bs("expire", k, pick(r, []string{"0", "-1"})))
			case 0:
				g.try(bs("expire", k, itoa(1+r.Intn(6))))
			case 1:
				g.try(bs("ttl", k))
			case 2:
				g.try(bs("persist", k))
			}
		} else {
			g.try(bs("strlen", k))
		}
	}
	_ = fmt.Sprint
	_ = core.Mix
}
