package e1

import (
	"os"
	"context"
	"encoding/json"
	"fmt"
	"hash/fnv"
	"net"
	"sort"
	"strings"
	"sync"
	"testing"
	"testing/synctest"
	"time"

	"github.com/innovationb1ue/RedisGO/config"
	"github.com/innovationb1ue/RedisGO/memdb"
	"github.com/innovationb1ue/RedisGO/server"
	vsync "github.com/innovationb1ue/RedisGO/verifvsync"

	"verifsim/core"
	rd "verifsim/respdec"
)

// B is a byte string that marshals to a readable JSON string (one rune per
// byte, Latin-1 style), so replay files stay legible and lossless.
type B []byte

func (b B) MarshalJSON() ([]byte, error) {
	rs := make([]rune, len(b))
	for i, c := range b {
		rs[i] = rune(c)
	}
	return json.Marshal(string(rs))
}

func (b *B) UnmarshalJSON(data []byte) error {
	var s string
	if err := json.Unmarshal(data, &s); err != nil {
		return err
	}
	out := make([]byte, 0, len(s))
	for _, r := range s {
		out = append(out, byte(r))
	}
	*b = out
	return nil
}

func bs(ss ...string) []B {
	out := make([]B, len(ss))
	for i, s := range ss {
		out[i] = B(s)
	}
	return out
}

func argv(a []B) [][]byte {
	out := make([][]byte, len(a))
	for i, x := range a {
		out[i] = []byte(x)
	}
	return out
}

func cmdString(a []B) string {
	parts := make([]string, len(a))
	for i, x := range a {
		s := string(x)
		if s == "" || strings.ContainsAny(s, " \r\n\x00\"") || !isPrintable(s) {
			parts[i] = fmt.Sprintf("%q", s)
		} else {
			parts[i] = s
		}
	}
	return strings.Join(parts, " ")
}

func isPrintable(s string) bool {
	for i := 0; i < len(s); i++ {
		if s[i] < 0x20 || s[i] > 0x7e {
			return false
		}
	}
	return true
}

// Step is one item of a simulated client's program.
type Step struct {
	Kind  string        `json:"k"`           // cmd | sleep | close | raw | halfclose | stall | unstall
	Args  []B           `json:"a,omitempty"` // cmd
	Raw   B             `json:"raw,omitempty"`
	Sleep time.Duration `json:"sleep,omitempty"`
	// NoReply: the step produces no reply of its own (raw garbage).
	NoReply bool   `json:"noreply,omitempty"`
	Tag     string `json:"tag,omitempty"`
}

type ClientProg struct {
	Name     string `json:"name"`
	Role     string `json:"role,omitempty"`
	Steps    []Step `json:"steps"`
	Pipeline int    `json:"pipeline"` // max outstanding commands (>=1)
	Chunked  bool   `json:"chunked,omitempty"`
	// Late: the connection is only accepted (its handler goroutine started) by
	// the client's own "connect" step, e.g. after another client hung up.
	Late       bool `json:"late,omitempty"`
	WriteYield bool `json:"write_yield,omitempty"`
	OutLimit   int  `json:"out_limit,omitempty"`
}

type Knobs struct {
	ShardNum   int  `json:"shard_num"`
	Databases  int  `json:"databases"`
	YieldRMW   bool `json:"yield_rmw"`
	MaxSteps   int  `json:"max_steps"`
	IdleBudget int  `json:"idle_budget"` // how many 100 ms idle advances are allowed
	// Strategy: 0 uniform, 1 run-to-completion with random preemption, 2 PCT-like priorities,
	// 3 stutter (one runnable task is starved for a stretch of steps)
	Strategy   int `json:"strategy"`
	PreemptPct int `json:"preempt_pct"`
	// Burst (race sweep): every client that can send does so in the same step, so
	// that the connection handlers really run in parallel (real sync primitives,
	// -race build); the cooperative scheduler has nothing to schedule then.
	Burst bool `json:"burst,omitempty"`
	// WriterPref: a writer kept waiting by readers may announce itself (an explicit
	// scheduling event), after which new read locks of that stripe wait behind it,
	// as with Go's sync.RWMutex once Lock has been called.
	WriterPref bool `json:"writer_pref,omitempty"`
	// ReplyYield: the handler parks between "reply computed" and "reply serialised"
	// (reply hook), so that other connections can run in between: a reply that
	// aliases stored bytes which a later command rewrites in place shows up.
	ReplyYield bool `json:"reply_yield,omitempty"`
	// ViaStart (race sweep): the connections are accepted by the real server.Start
	// (its accept loop, event loop and per-connection goroutines) through the
	// listener hook, instead of being handed to Manager.Handle by the simulator.
	ViaStart bool `json:"via_start,omitempty"`
	// ConfigText, when set, is written to a file and read by the server's own
	// config.Parse over the defaults of config.Setup; Databases/ShardNum above
	// are then what the simulator expects the parse to yield.
	ConfigText string `json:"config_text,omitempty"`
	// Preload is executed sequentially before the clients start (prior keyspace).
	Preload [][]B `json:"preload,omitempty"`
}

type Scenario struct {
	Kind    string          `json:"kind"`
	Knobs   Knobs           `json:"knobs"`
	Clients []ClientProg    `json:"clients"`
	Extra   json.RawMessage `json:"extra,omitempty"`
}

// OpRec is one request/response pair as the client saw it.
type OpRec struct {
	Client    int
	StepIdx   int
	Args      []B
	InvokeSeq int64
	InvokeAt  time.Time
	ReturnSeq int64
	ReturnAt  time.Time
	Reply     rd.Value
	Done      bool
}

type PushRec struct {
	Seq int64
	At  time.Time
	V   rd.Value
}

type clientState struct {
	prog      *ClientProg
	conn      *Conn
	next      int
	pendingIn []byte // bytes sent by the client, not yet delivered to the socket
	ops       []*OpRec
	waiting   []*OpRec // sent, reply not yet seen (FIFO)
	pushes    []PushRec
	rx        []byte
	sleepLeft time.Duration
	closed    bool
	stalled   bool
	malformed string // reply stream stopped being RESP
	rawSent   bool
	pushMode  bool // after SUBSCRIBE: further values are pushes
	lastDone  *OpRec
	closedSeq int64
}

// RunResult is everything the oracles look at.
type RunResult struct {
	Sc          *Scenario
	Clients     []*clientState
	Seq         int64
	Steps       int
	Trace       []string
	TraceHash   uint64
	Panics      []string
	Deadlock    string
	Stuck       string
	LockLeak    string
	VsyncErrs   []string
	Invariant   string // structural self-check failure
	FinalDump   [][]string
	SubCounts   map[string][2]int
	SimElapsed  time.Duration
	Faults      map[string]int64
	Probes      map[string]int64
	Preemptions int // releases of a task other than the last-run one while that one was still enabled
	HeldSwitch  int // context switches while some task held a stripe
	StepLimit   bool
	// MapOrderDependent: the run issued a command whose outcome follows Go's
	// map iteration order (SPOP, SRANDMEMBER, HRANDFIELD): not exactly repeatable.
	MapOrderDependent bool
	// KeysScan: a KEYS command walked the keyspace in map order (its lock requests
	// come in an unseedable order; everything else about the run is repeatable).
	KeysScan bool
	Mgr         *server.Manager
	OrderEdges  int
	start       time.Time
}

type World struct {
	t        *testing.T
	sc       *Scenario
	tape     *core.Tape
	vs       *vsync.World
	mgr      *server.Manager
	ctx      context.Context
	cancel   context.CancelFunc
	res      *RunResult
	cs       []*clientState
	h        uint64
	keep     bool
	last     *vsync.Task
	idle     int
	idleTime time.Duration
	prio     map[string]int
	lst      *simListener // ViaStart: what server.Start accepts from
	starveName string // strategy 3: the task currently starved
	starveLeft int
	j        *core.Journal
}

func (w *World) trace(format string, a ...any) {
	s := fmt.Sprintf(format, a...)
	w.traceHashed(s, s)
}

// traceHashed records `full` in the readable trace and `hashed` in the trace hash.
func (w *World) traceHashed(hashed, full string) {
	s := hashed
	hh := fnv.New64a()
	var b [8]byte
	for i := 0; i < 8; i++ {
		b[i] = byte(w.h >> (8 * i))
	}
	hh.Write(b[:])
	hh.Write([]byte(s))
	w.h = hh.Sum64()
	if w.keep || len(w.res.Trace) < 4000 {
		w.res.Trace = append(w.res.Trace, full)
	}
}

func (w *World) traceNoHash(format string, a ...any) {
	if w.keep || len(w.res.Trace) < 4000 {
		w.res.Trace = append(w.res.Trace, fmt.Sprintf(format, a...))
	}
}

// unordered replies come back in Go map iteration order, which cannot be
// seeded: they enter the trace hash in a canonical (sorted) form.
var unorderedReply = map[string]int{"smembers": 1, "sunion": 1, "sinter": 1, "sdiff": 1, "hkeys": 1, "hvals": 1, "keys": 1, "hgetall": 2}

// randomChoice commands pick by map iteration order: only the size of their
// reply is hashed, and the run is marked as not exactly repeatable.
var randomChoice = map[string]bool{"spop": true, "srandmember": true, "hrandfield": true}

func canonReply(args []B, v rd.Value) string {
	if len(args) == 0 || v.Kind != rd.Array {
		return v.String()
	}
	name := strings.ToLower(string(args[0]))
	if randomChoice[name] {
		return fmt.Sprintf("[%d elements chosen by map order]", len(v.Arr))
	}
	step := unorderedReply[name]
	if step == 0 {
		return v.String()
	}
	var items []string
	for i := 0; i+step <= len(v.Arr); i += step {
		it := ""
		for j := 0; j < step; j++ {
			it += v.Arr[i+j].String() + " "
		}
		items = append(items, it)
	}
	sort.Strings(items)
	return "{" + strings.Join(items, "") + "}"
}

var registered bool

func registerCommands() {
	if registered {
		return
	}
	registered = true
	memdb.RegisterKeyCommands()
	memdb.RegisterStringCommands()
	memdb.RegisterListCommands()
	memdb.RegisterSetCommands()
	memdb.RegisterHashCommands()
	memdb.RegisterPubSubCommands()
	memdb.RegisterSortedSetCommands()
	memdb.RegisterStreamCommands()
	memdb.RegisterRaftCommand()
}

// RunScenario executes one scenario under the tape inside a synctest bubble.
func RunScenario(t *testing.T, sc *Scenario, tape *core.Tape, j *core.Journal, keepTrace bool) *RunResult {
	res := &RunResult{Sc: sc, Faults: map[string]int64{}, Probes: map[string]int64{}}
	func() {
		defer func() {
			if r := recover(); r != nil {
				s := fmt.Sprint(r)
				if !strings.Contains(s, "blocked goroutines remain") && !strings.Contains(s, "deadlock: main bubble goroutine") {
					res.Panics = append(res.Panics, "harness: "+s)
				}
			}
		}()
		synctest.Test(t, func(t *testing.T) {
			w := &World{t: t, sc: sc, tape: tape, res: res, keep: keepTrace, j: j, prio: map[string]int{}}
			w.run()
		})
	}()
	vsync.Uninstall()
	return res
}

func (w *World) run() {
	k := w.sc.Knobs
	if k.ShardNum <= 0 {
		k.ShardNum = 4
	}
	if k.Databases <= 0 {
		k.Databases = 1
	}
	if k.MaxSteps <= 0 {
		k.MaxSteps = 4000
	}
	cfg := &config.Config{ShardNum: k.ShardNum, Databases: k.Databases, ChanBufferSize: 10, LogLevel: "panic"}
	if k.ConfigText != "" {
		// the defaults of config.Setup, then the file
		cfg = &config.Config{Host: "127.0.0.1", Port: 6380, LogDir: "./", LogLevel: "info", ShardNum: 1024, ChanBufferSize: 10, Databases: 16, Others: map[string]any{}}
		f, err := os.CreateTemp("", "verif-conf-*")
		if err != nil {
			panic("e1: cannot create the config file: " + err.Error())
		}
		f.WriteString(k.ConfigText)
		f.Close()
		err = cfg.Parse(f.Name())
		os.Remove(f.Name())
		if err != nil {
			panic("config.Parse rejected a valid configuration file: " + err.Error())
		}
		cfg.LogLevel = "panic"
	}
	config.Configures = cfg
	registerCommands()
	w.vs = vsync.NewWorld()
	w.vs.YieldOnRMW = k.YieldRMW
	w.vs.AnonName = func(n int) string { return fmt.Sprintf("bg#%03d", n) }
	w.res.start = time.Now()
	w.ctx, w.cancel = context.WithCancel(context.Background())
	if k.ViaStart {
		w.lst = &simListener{ch: make(chan net.Conn, 256), done: make(chan struct{})}
		server.VerifListener = func(real net.Listener) net.Listener {
			real.Close()
			return w.lst
		}
		cfg.Host, cfg.Port = "127.0.0.1", 0
		go func() {
			defer func() {
				if r := recover(); r != nil {
					w.res.Panics = append(w.res.Panics, fmt.Sprintf("server.Start: panic: %v", r))
				}
			}()
			server.Start(cfg)
		}()
		time.Sleep(time.Nanosecond)
		synctest.Wait()
		server.VerifListener = nil
	} else {
		w.mgr = server.NewManager(cfg)
		w.res.Mgr = w.mgr
	}

	// prior keyspace, sequentially and without the scheduler
	for _, c := range w.sc.Knobs.Preload {
		if w.mgr == nil {
			break
		}
		func() {
			defer func() {
				if r := recover(); r != nil {
					w.res.Panics = append(w.res.Panics, fmt.Sprintf("preload %s: %v", cmdString(c), r))
				}
			}()
			w.mgr.ExecCommand(w.ctx, argv(c), nil)
		}()
	}
	server.VerifReplyHook = nil
	if k.ReplyYield {
		server.VerifReplyHook = func(net.Conn) { vsync.YieldPoint() }
	}
	vsync.Install(w.vs)

	for i := range w.sc.Clients {
		p := &w.sc.Clients[i]
		if p.Pipeline < 1 {
			p.Pipeline = 1
		}
		c := &clientState{prog: p, conn: newConn(i, p.Name)}
		c.conn.writeYield = p.WriteYield
		c.conn.outLimit = p.OutLimit
		w.cs = append(w.cs, c)
		if !p.Late {
			w.accept(i, c)
		}
	}
	w.res.Clients = w.cs

	w.loop(k.MaxSteps)
	w.finish()
}

// accept starts the server's connection handler for a client.
func (w *World) accept(i int, c *clientState) {
	if w.lst != nil {
		w.lst.ch <- c.conn
		return
	}
	go func() {
		w.vs.Register(c.prog.Name, i)
		defer func() {
			if r := recover(); r != nil {
				w.res.Panics = append(w.res.Panics, fmt.Sprintf("%s: panic: %v", c.prog.Name, r))
			}
		}()
		w.mgr.Handle(w.ctx, c.conn)
	}()
}

type event struct {
	kind   string
	task   *vsync.Task
	client int
	name   string
}

func (w *World) collect() {
	for i, c := range w.cs {
		if c.stalled {
			continue
		}
		out := c.conn.takeOut()
		if len(out) > 0 {
			c.rx = append(c.rx, out...)
		}
		for len(c.rx) > 0 && c.malformed == "" {
			v, n, st := rd.Decode(c.rx)
			if st == rd.Incomplete {
				break
			}
			if st == rd.Malformed {
				c.malformed = fmt.Sprintf("reply stream is not RESP at %q", truncate(string(c.rx), 60))
				w.trace("c%d malformed-reply", i)
				break
			}
			c.rx = c.rx[n:]
			w.res.Seq++
			isMsg := c.prog.Role == "subscriber" && v.Kind == rd.Array && len(v.Arr) > 0 && v.Arr[0].StringLike() && string(v.Arr[0].Str) == "message"
			isSubConfirm := c.pushMode && !isMsg && v.Kind == rd.Array && len(v.Arr) > 0 && v.Arr[0].StringLike() && string(v.Arr[0].Str) == "subscribe"
			if isMsg || isSubConfirm || len(c.waiting) == 0 {
				if isSubConfirm {
					// further subscription confirmations (one per channel) are not messages
					continue
				}
				c.pushes = append(c.pushes, PushRec{Seq: w.res.Seq, At: time.Now(), V: v})
				// the order in which a publisher reaches its subscribers follows Go's map
				// iteration: the push is kept in the readable trace but not in the hash
				// (the multiset of pushes per client is hashed at the end of the run)
				w.traceNoHash("c%d push %s", i, truncate(v.String(), 80))
				continue
			}
			op := c.waiting[0]
			c.waiting = c.waiting[1:]
			op.Reply, op.Done, op.ReturnSeq, op.ReturnAt = v, true, w.res.Seq, time.Now()
			w.trace("c%d reply#%d %s", i, op.StepIdx, truncate(canonReply(op.Args, v), 80))
			c.lastDone = op
			if c.prog.Role == "subscriber" && len(op.Args) > 0 && strings.EqualFold(string(op.Args[0]), "subscribe") && v.Kind == rd.Array {
				c.pushMode = true
			}
		}
	}
}

func truncate(s string, n int) string {
	if len(s) > n {
		return s[:n] + "..."
	}
	return s
}

func blockingPop(a []B) bool {
	if len(a) == 0 {
		return false
	}
	n := strings.ToLower(string(a[0]))
	return n == "blpop" || n == "brpop"
}

// canAdvanceClock: no task holds a lock, and no blocking-pop handler is in the
// middle of a poll (parked on a lock): see DESIGN §1 on the poll ticker.
func (w *World) canAdvanceClock(pending []*vsync.Task) bool {
	for _, t := range w.vs.AllTasks() {
		if t.HoldsAny() {
			return false
		}
	}
	for _, t := range pending {
		if ci, ok := t.Tag.(int); ok && ci < len(w.cs) {
			for _, op := range w.cs[ci].waiting {
				if blockingPop(op.Args) {
					return false
				}
			}
		}
	}
	return true
}

func (w *World) anyBlockingPopPending() bool {
	for _, c := range w.cs {
		for _, op := range c.waiting {
			if blockingPop(op.Args) {
				return true
			}
		}
	}
	return false
}

func (w *World) events() []event {
	var evs []event
	pending := w.vs.Pending()
	for _, t := range pending {
		if w.vs.Enabled(t) {
			evs = append(evs, event{kind: "run", task: t, name: t.Name})
		} else if w.sc.Knobs.WriterPref && w.vs.CanAnnounce(t) {
			evs = append(evs, event{kind: "announce", task: t, name: t.Name})
		}
	}
	canClock := w.canAdvanceClock(pending) && w.clockRoom(pending) > 0
	for i, c := range w.cs {
		if c.closed {
			continue
		}
		if len(c.pendingIn) > 0 {
			evs = append(evs, event{kind: "deliver", client: i})
			continue
		}
		if c.sleepLeft > 0 {
			if canClock {
				evs = append(evs, event{kind: "sleep", client: i})
			}
			continue
		}
		if c.next >= len(c.prog.Steps) {
			continue
		}
		st := &c.prog.Steps[c.next]
		switch st.Kind {
		case "cmd", "raw":
			if len(c.waiting) < c.prog.Pipeline {
				evs = append(evs, event{kind: "send", client: i})
			}
		case "sleep":
			// (a stalled reader does not see its replies: it may sleep on them)
			if (len(c.waiting) == 0 || c.stalled) && canClock {
				evs = append(evs, event{kind: "sleep", client: i})
			}
		case "close", "halfclose":
			if len(c.waiting) == 0 || st.Tag == "abrupt" {
				evs = append(evs, event{kind: st.Kind, client: i})
			}
		case "stall", "unstall":
			if len(c.waiting) == 0 || c.stalled {
				evs = append(evs, event{kind: st.Kind, client: i})
			}
		case "wait":
			if len(c.waiting) == 0 {
				evs = append(evs, event{kind: "wait", client: i})
			}
		case "connect":
			// a late connection; with a Tag, only after the client of that name hung up
			ok := true
			if st.Tag != "" {
				for _, o := range w.cs {
					if o.prog.Name == st.Tag && !o.closed {
						ok = false
					}
				}
			}
			if ok {
				evs = append(evs, event{kind: "connect", client: i})
			}
		case "barrier":
			// proceeds once every non-auditor client has finished its program
			ok := len(c.waiting) == 0
			for j, o := range w.cs {
				if j == i || o.prog.Role == "auditor" || o.closed {
					continue
				}
				if o.next < len(o.prog.Steps) || len(o.waiting) > 0 || len(o.pendingIn) > 0 || o.sleepLeft > 0 {
					ok = false
				}
			}
			if ok {
				evs = append(evs, event{kind: "wait", client: i})
			}
		}
	}
	return evs
}

// choose picks the next event according to the run's scheduling strategy; all
// randomness comes from the tape.
func (w *World) choose(evs []event) event {
	k := w.sc.Knobs
	switch k.Strategy {
	case 1:
		// run-to-completion: keep running the last task unless the tape preempts
		if w.last != nil {
			for _, e := range evs {
				if e.kind == "run" && e.task == w.last {
					pct := k.PreemptPct
					if pct <= 0 {
						pct = 15
					}
					if len(evs) == 1 || !w.tape.Chance(pct, 100) {
						return e
					}
					break
				}
			}
		}
	case 2:
		// PCT-like: tasks carry priorities drawn on first sight; highest runs;
		// the tape occasionally demotes the running one.
		best := -1
		for i, e := range evs {
			if e.kind != "run" {
				continue
			}
			if _, ok := w.prio[e.name]; !ok {
				w.prio[e.name] = 1 + w.tape.Draw(1000)
			}
			if best < 0 || w.prio[e.name] > w.prio[evs[best].name] {
				best = i
			}
		}
		if best >= 0 {
			if w.tape.Chance(6, 100) {
				w.prio[evs[best].name] = 0
			}
			// client-side events still get their share
			if !w.tape.Chance(30, 100) {
				return evs[best]
			}
		}
	case 3:
		// stutter: now and then one runnable task is left out for a stretch of steps
		// (a goroutine that lost its time slice while everyone else keeps going)
		if w.starveLeft == 0 && w.tape.Chance(12, 100) {
			var runs []event
			for _, e := range evs {
				if e.kind == "run" {
					runs = append(runs, e)
				}
			}
			if len(runs) > 0 {
				w.starveName = runs[w.tape.Draw(len(runs))].name
				w.starveLeft = 4 + w.tape.Draw(60)
			}
		}
		if w.starveLeft > 0 {
			w.starveLeft--
			var rest []event
			for _, e := range evs {
				if !(e.kind == "run" && e.name == w.starveName) {
					rest = append(rest, e)
				}
			}
			if len(rest) > 0 && len(rest) < len(evs) {
				w.res.Faults["starved-task-step"]++
				evs = rest
			}
		}
	}
	return evs[w.tape.Draw(len(evs))]
}

func (w *World) loop(maxSteps int) {
	idleBudget := w.sc.Knobs.IdleBudget
	if idleBudget <= 0 {
		idleBudget = 80
	}
	for {
		core.Tick()
		time.Sleep(time.Nanosecond)
		synctest.Wait()
		w.collect()
		if len(w.res.Panics) > 0 {
			return
		}
		if w.res.Steps >= maxSteps {
			w.res.StepLimit = true
			return
		}
		evs := w.events()
		if len(evs) == 0 {
			if w.allDone() {
				return
			}
			if dl := w.deadlock(); dl != "" {
				w.res.Deadlock = dl
				return
			}
			// someone waits for a reply that only time can bring (blocking pop)
			if w.idleTime < time.Duration(idleBudget)*100*time.Millisecond && w.idle < 50*idleBudget && w.canAdvanceClock(w.vs.Pending()) {
				w.idle++
				w.res.Steps++
				w.res.Faults["idle-advance"]++
				got := w.sleepInterruptible(100 * time.Millisecond)
				w.idleTime += got
				w.trace("idle +%v", got)
				continue
			}
			w.res.Stuck = w.describeStuck()
			return
		}
		if w.sc.Knobs.Burst {
			// all sends of this round at once, then one quiescence
			sent := false
			for _, e := range evs {
				if e.kind == "send" || e.kind == "deliver" {
					w.res.Steps++
					w.apply(e)
					sent = true
				}
			}
			if sent {
				continue
			}
		}
		e := w.choose(evs)
		w.res.Steps++
		w.apply(e)
	}
}

// maxLag bounds how long (in simulated time) a runnable task may be kept
// waiting while the clock moves on: goroutine scheduling delays are real, but
// not seconds long.
const maxLag = 50 * time.Millisecond

// clockRoom is how far the clock may advance right now without leaving an
// enabled, parked task behind for more than maxLag.
func (w *World) clockRoom(pending []*vsync.Task) time.Duration {
	room := time.Duration(1 << 62)
	now := time.Now()
	for _, t := range pending {
		if !w.vs.Enabled(t) {
			continue
		}
		if r := maxLag - now.Sub(t.ParkedAt); r < room {
			room = r
		}
	}
	return room
}

// sleepInterruptible advances the fake clock by at most d, but returns as soon
// as a goroutine woken by a timer parks at a lock operation; it reports the
// simulated time that actually passed.
func (w *World) sleepInterruptible(d time.Duration) time.Duration {
	select {
	case <-w.vs.ParkNotify:
	default:
	}
	start := time.Now()
	tm := time.NewTimer(d)
	select {
	case <-tm.C:
	case <-w.vs.ParkNotify:
		tm.Stop()
	}
	return time.Since(start)
}

func (w *World) allDone() bool {
	for _, c := range w.cs {
		if c.closed {
			continue
		}
		if c.next < len(c.prog.Steps) || len(c.waiting) > 0 || len(c.pendingIn) > 0 || c.sleepLeft > 0 {
			return false
		}
	}
	return len(w.vs.Pending()) == 0
}

func (w *World) describeStuck() string {
	var parts []string
	for i, c := range w.cs {
		if len(c.waiting) > 0 && !c.closed {
			parts = append(parts, fmt.Sprintf("c%d waits for the reply to %s", i, cmdString(c.waiting[0].Args)))
		}
	}
	for _, t := range w.vs.Pending() {
		parts = append(parts, "parked: "+t.String())
	}
	return strings.Join(parts, "; ")
}

// deadlock: nothing is enabled and some task is parked on a lock whose owners
// cannot run either.  With no enabled event at all every owner is itself
// parked (or blocked outside the lock model), so a parked lock request is a
// genuine wait-for cycle or a lock that will never be released.
func (w *World) deadlock() string {
	pending := w.vs.Pending()
	var blocked []*vsync.Task
	for _, t := range pending {
		if !w.vs.Enabled(t) {
			blocked = append(blocked, t)
		}
	}
	if len(blocked) == 0 {
		return ""
	}
	var parts []string
	for _, t := range blocked {
		var owners []string
		for _, o := range w.vs.BlockedBy(t) {
			if o == t {
				owners = append(owners, "itself")
			} else {
				owners = append(owners, o.Name)
			}
		}
		parts = append(parts, fmt.Sprintf("%s waits for m%d held by %s", t.Name, lockIDOf(t), strings.Join(owners, ",")))
	}
	return strings.Join(parts, "; ")
}

func opName(t *vsync.Task) string {
	s := t.String()
	if i := strings.IndexByte(s, '@'); i >= 0 {
		s = s[i+1:]
		if j := strings.IndexByte(s, '('); j >= 0 {
			s = s[:j]
		}
		return s
	}
	return "?"
}

func lockIDOf(t *vsync.Task) int {
	s := t.String()
	if i := strings.Index(s, "(m"); i >= 0 {
		var id int
		fmt.Sscanf(s[i+2:], "%d", &id)
		return id
	}
	return -1
}

func (w *World) apply(e event) {
	switch e.kind {
	case "announce":
		w.traceHashed("announce "+e.task.Name, "announce "+e.task.String())
		w.res.Faults["writer-announced-behind-readers"]++
		w.vs.Announce(e.task)
	case "run":
		held := false
		for _, t := range w.vs.AllTasks() {
			if t.HoldsAny() && t != e.task {
				held = true
			}
		}
		if w.last != nil && w.last != e.task {
			if w.last.Parked && w.vs.Enabled(w.last) {
				w.res.Preemptions++
			}
			if held {
				w.res.HeldSwitch++
			}
		}
		// KEYS visits the keys in Go map order, so which stripe it asks for next is
		// not seedable: the hash covers (task, operation), the readable trace also the lock
		w.traceHashed("run "+e.task.Name+"@"+opName(e.task), "run "+e.task.String())
		w.last = e.task
		w.vs.Release(e.task)
	case "send":
		c := w.cs[e.client]
		st := &c.prog.Steps[c.next]
		w.res.Seq++
		var payload []byte
		if st.Kind == "cmd" {
			payload = rd.EncodeCommand(argv(st.Args))
			op := &OpRec{Client: e.client, StepIdx: c.next, Args: st.Args, InvokeSeq: w.res.Seq, InvokeAt: time.Now()}
			c.ops = append(c.ops, op)
			c.waiting = append(c.waiting, op)
			w.trace("c%d send#%d %s", e.client, c.next, truncate(cmdString(st.Args), 100))
			if len(st.Args) > 0 && randomChoice[strings.ToLower(string(st.Args[0]))] {
				w.res.MapOrderDependent = true
			}
			if len(st.Args) > 0 && strings.EqualFold(string(st.Args[0]), "keys") {
				w.res.KeysScan = true
			}
			if w.j != nil {
				w.j.Step("sig=%s", deathSignature(w.sc.Kind, st.Args))
				w.j.Step("c%d %s", e.client, truncate(cmdString(st.Args), 200))
			}
		} else {
			payload = []byte(st.Raw)
			c.rawSent = true
			if !st.NoReply {
				op := &OpRec{Client: e.client, StepIdx: c.next, Args: nil, InvokeSeq: w.res.Seq, InvokeAt: time.Now()}
				c.ops = append(c.ops, op)
				c.waiting = append(c.waiting, op)
			}
			w.trace("c%d raw#%d %dB", e.client, c.next, len(payload))
			if w.j != nil {
				w.j.Step("sig=%s/process-died/raw-bytes", propOfKind(w.sc.Kind))
				w.j.Step("c%d raw %q", e.client, truncate(string(payload), 200))
			}
		}
		c.next++
		if c.prog.Chunked {
			c.pendingIn = append(c.pendingIn, payload...)
		} else {
			c.conn.deliver(payload)
		}
	case "deliver":
		c := w.cs[e.client]
		n := len(c.pendingIn)
		if n > 1 {
			// bias towards small and boundary-cutting chunks
			switch w.tape.Draw(4) {
			case 0:
				n = 1
			case 1:
				n = 1 + w.tape.Draw(n)
			case 2:
				n = 1 + w.tape.Draw(min(n, 8))
			}
		}
		chunk := c.pendingIn[:n]
		c.pendingIn = c.pendingIn[n:]
		if len(c.pendingIn) > 0 {
			w.res.Faults["fragmented-read"]++
		}
		w.trace("c%d deliver %dB", e.client, n)
		c.conn.deliver(chunk)
	case "sleep":
		c := w.cs[e.client]
		if c.sleepLeft == 0 {
			c.sleepLeft = c.prog.Steps[c.next].Sleep
			c.next++
		}
		d := c.sleepLeft
		if w.anyBlockingPopPending() && d > 100*time.Millisecond {
			d = 100 * time.Millisecond
		}
		if room := w.clockRoom(w.vs.Pending()); d > room {
			d = room
			w.res.Faults["sleep-bounded-by-runnable-task"]++
		}
		got := w.sleepInterruptible(d)
		if got < d {
			w.res.Faults["sleep-cut-by-timer-goroutine"]++
		}
		c.sleepLeft -= got
		if c.sleepLeft < 0 {
			c.sleepLeft = 0
		}
		w.trace("c%d sleep %v", e.client, got)
		w.res.Faults["clock-advance"]++
		if got >= time.Hour {
			w.res.Faults["clock-jump-hours"]++
		}
	case "close", "halfclose":
		c := w.cs[e.client]
		c.next++
		w.trace("c%d %s", e.client, e.kind)
		if e.kind == "close" {
			c.conn.clientClose()
			c.closed = true
			w.res.Seq++
			c.closedSeq = w.res.Seq
			w.res.Faults["disconnect"]++
		} else {
			c.conn.halfClose()
		}
	case "stall":
		c := w.cs[e.client]
		c.next++
		c.stalled = true
		w.res.Faults["stalled-reader"]++
		w.trace("c%d stall", e.client)
	case "unstall":
		c := w.cs[e.client]
		c.next++
		c.stalled = false
		w.trace("c%d unstall", e.client)
	case "wait":
		c := w.cs[e.client]
		c.next++
	case "connect":
		c := w.cs[e.client]
		c.next++
		w.trace("c%d connect", e.client)
		w.res.Faults["late-connection"]++
		w.accept(e.client, c)
	}
}

func propOfKind(kind string) string {
	if i := strings.IndexByte(kind, ':'); i > 0 {
		return kind[:i]
	}
	return kind
}

// deathSignature attributes a process death to the command about to be sent:
// (property, process-died, COMMAND:argc=N).
func deathSignature(kind string, a []B) string {
	name := "?"
	if len(a) > 0 {
		name = strings.ToUpper(string(a[0]))
		if !isPrintable(name) || len(name) > 20 {
			name = "?"
		}
	}
	return fmt.Sprintf("%s/process-died/%s:argc=%d", propOfKind(kind), name, len(a)-1)
}

// finish: teardown under the same cooperative scheduler (fixed policy), then
// the structural self-check and the dumps.
func (w *World) finish() {
	// what sits in a stalled reader's socket buffer was delivered to it
	for _, c := range w.cs {
		c.stalled = false
	}
	w.collect()
	for i, c := range w.cs {
		var ps []string
		for _, p := range c.pushes {
			ps = append(ps, p.V.String())
		}
		sort.Strings(ps)
		if len(ps) > 0 {
			w.trace("c%d pushes %s", i, strings.Join(ps, " "))
		}
	}
	w.res.TraceHash = w.h
	w.res.SimElapsed = time.Since(w.res.start)
	w.res.OrderEdges = len(w.vs.Order)
	if held := w.vs.HeldLocks(); len(held) > 0 && w.res.Deadlock == "" && len(w.res.Panics) == 0 && !w.res.StepLimit && w.res.Stuck == "" {
		var names []string
		for n, ids := range held {
			names = append(names, fmt.Sprintf("%s holds %v", n, ids))
		}
		sort.Strings(names)
		w.res.LockLeak = strings.Join(names, "; ")
	}
	w.res.VsyncErrs = append(w.res.VsyncErrs, w.vs.Violations...)
	quiescent := w.res.Deadlock == "" && len(w.res.Panics) == 0 && !w.res.StepLimit && w.res.Stuck == "" && len(w.vs.Pending()) == 0
	if quiescent && w.mgr != nil {
		func() {
			defer func() {
				if r := recover(); r != nil {
					w.res.Invariant = fmt.Sprintf("self-check panicked: %v", r)
				}
			}()
			for i, db := range w.mgr.DBs {
				if err := db.VerifCheckInvariants(); err != nil && w.res.Invariant == "" {
					w.res.Invariant = fmt.Sprintf("db %d: %v", i, err)
				}
				w.res.FinalDump = append(w.res.FinalDump, db.VerifDump(false))
			}
			w.res.SubCounts = w.mgr.DBs[0].VerifSubscriberCounts()
		}()
	}
	// teardown: let every goroutine of the bubble finish (expiry timers that would
	// fire years from now are cancelled: they would outlive the run and keep its
	// whole keyspace alive)
	if w.mgr != nil {
		for _, db := range w.mgr.DBs {
			db.VerifStopTimers()
		}
	}
	// first the clients hang up: every parser goroutine delivers its end-of-stream to a
	// handler that is still listening (a handler that left first - on a cancelled
	// context - would leave its parser blocked for ever on an unbuffered channel,
	// and with it the connection and its buffers); then the context is cancelled
	pump := func() {
		for i := 0; i < 400; i++ {
			time.Sleep(time.Nanosecond)
			synctest.Wait()
			var run *vsync.Task
			for _, t := range w.vs.Pending() {
				if w.vs.Enabled(t) {
					run = t
					break
				}
			}
			if run == nil {
				break
			}
			w.vs.Release(run)
		}
	}
	for _, c := range w.cs {
		c.conn.clientClose()
	}
	pump()
	w.cancel()
	if w.lst != nil {
		w.lst.Close()
	}
	pump()
	// a key that was expired lazily leaves its timer behind (the table entry is gone,
	// the goroutine waits for its instant, at most a second away): let that instant
	// come, or the goroutine outlives the run with everything it references
	time.Sleep(1500 * time.Millisecond)
	pump()
}

// simListener is the net.Listener the real server.Start accepts from when the
// scenario runs via Start: Accept yields the simulator's connections.
type simListener struct {
	ch   chan net.Conn
	done chan struct{}
	once sync.Once
}

func (l *simListener) Accept() (net.Conn, error) {
	select {
	case c := <-l.ch:
		return c, nil
	case <-l.done:
		return nil, net.ErrClosed
	}
}

func (l *simListener) Close() error {
	l.once.Do(func() { close(l.done) })
	return nil
}

func (l *simListener) Addr() net.Addr { return simAddr("sim-listener") }
