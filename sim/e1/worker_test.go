package e1

import (
	"os"
	"testing"

	"verifsim/core"
)

func TestWorker(t *testing.T) {
	env := core.ReadEnv()
	devnull, _ := os.OpenFile(os.DevNull, os.O_WRONLY, 0)
	if os.Getenv("VERIF_KEEP_STDOUT") == "" && env.Mode == "batch" {
		os.Stdout = devnull
	}
	core.Watchdog = true
	os.Exit(core.WorkerMain(env, &Engine{T: t}))
}

// TestRaceSweep is the free-running phase: the same seeded programs, real sync
// primitives, a binary built with -race at GOMAXPROCS 4.  A DATA RACE report
// (GORACE halt_on_error) or a runtime abort kills the worker; the driver turns
// that into a violation through the journal.
func TestRaceSweep(t *testing.T) {
	os.Setenv("VERIF_RACE", "1")
	env := core.ReadEnv()
	devnull, _ := os.OpenFile(os.DevNull, os.O_WRONLY, 0)
	if os.Getenv("VERIF_KEEP_STDOUT") == "" && env.Mode == "batch" {
		os.Stdout = devnull
	}
	core.Watchdog = true
	os.Exit(core.WorkerMain(env, &Engine{T: t}))
}
