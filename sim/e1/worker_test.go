package e1

import (
	"os"
	"testing"

	"verifsim/core"
)

func TestWorker(t *testing.T) {
	env := core.ReadEnv()
	devnull, _ := os.OpenFile(os.DevNull, os.O_WRONLY, 0)
	if os.Getenv("VERIF_KEEP_STDOUT") == "" && env.Mode == "batch" {
		os.Stdout = devnull
	}
	os.Exit(core.WorkerMain(env, &Engine{T: t}))
}
