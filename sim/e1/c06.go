package e1

import (
	"time"

	"verifsim/core"
	"verifsim/refmodel"
)

// C06 — expiring keys disappear at their deadline and not before.
//
// One time-controlling owner attaches deadlines in every way, keeps / replaces /
// removes them, and probes with reading and writing commands of every family
// at instants stepped around the deadline (D-1s+e, D-e, D+e, inside the
// one-second window, D+1s-e, D+1s+e, days later).  The model's window oracle
// (DESIGN C06): visible before D, gone from D+1s, monotone in between.  The
// active timer goroutine, the lazy check of the probing command and co-tenant
// commands are interleaved by the tape.

func init() {
	ls, lin := judgeLockstep("C06"), judgeLin("C06")
	register(&PropDef{ID: "C06", Gen: genC06, Judge: func(sc *Scenario, rr *RunResult, env *core.Env) (string, string) {
		if c06Concurrent(sc) {
			rr.Probes["concurrent-deadline-histories"]++
			return lin(sc, rr, env)
		}
		return ls(sc, rr, env)
	}, Nontrivial: func(sc *Scenario, rr *RunResult) bool {
		if c06Concurrent(sc) {
			return rr.Preemptions > 0 && rr.HeldSwitch > 0
		}
		return rr.Probes["ops-on-keys-with-deadline"] >= 2 && rr.Faults["clock-advance"] > 0
	}})
}

func c06Concurrent(sc *Scenario) bool {
	return len(sc.Clients) > 0 && sc.Clients[0].Role == "racer"
}

// genC06Concurrent: several clients attach, replace, condition (NX/XX/GT/LT) and
// remove the deadline of the same one or two keys at the same time, on a clock
// that stands (all within one second, deadlines minutes away).  Every command
// must take effect atomically: the recorded history is checked by porcupine
// against the reference model, whose state includes the deadline (two concurrent
// EXPIRE NX have one winner, GT never moves a deadline back, XX never arms a key
// that was just persisted, a refused command changes nothing).
func genC06Concurrent(r *core.Rand, sc *Scenario) *Scenario {
	nk := 1 + r.Intn(2)
	var keys []string
	for i := 0; i < nk; i++ {
		k := "e" + itoa(i)
		keys = append(keys, k)
		switch r.Intn(4) {
		case 0:
			sc.Knobs.Preload = append(sc.Knobs.Preload, bs("set", k, "init"))
		case 1:
			sc.Knobs.Preload = append(sc.Knobs.Preload, bs("set", k, "init", "ex", pick(r, []string{"250", "1000"})))
		case 2:
			sc.Knobs.Preload = append(sc.Knobs.Preload, bs("rpush", k, "a", "b"), bs("expire", k, "550"))
		}
	}
	uniq := 0
	ttls := []string{"100", "400", "700", "1300", "2000"}
	nc := 2 + r.Intn(3)
	total := 0
	for ci := 0; ci < nc; ci++ {
		p := ClientProg{Name: "c" + itoa(ci), Role: "racer", Pipeline: 1 + r.Intn(2), Chunked: r.Bool(0.1)}
		n := 1 + r.Intn(5)
		for i := 0; i < n && total < 16; i++ {
			k := pick(r, keys)
			uniq++
			v := "v" + itoa(ci) + "_" + itoa(uniq)
			var a []B
			switch r.Intn(16) {
			case 0, 1, 2, 3:
				a = bs("expire", k, pick(r, ttls))
				for _, o := range pick(r, [][]string{{"nx"}, {"xx"}, {"gt"}, {"lt"}, {"NX"}, {"GT"}, {"xx", "gt"}, {"xx", "lt"}, {"lt", "xx"}}) {
					a = append(a, B(o))
				}
			case 4, 5:
				a = bs("expire", k, pick(r, ttls))
			case 6:
				a = bs("persist", k)
			case 7, 8, 9:
				a = bs("ttl", k)
			case 10:
				a = bs("set", k, v)
			case 11:
				a = bs("set", k, v, pick(r, []string{"keepttl", "KEEPTTL"}))
			case 12:
				a = pick(r, [][]B{bs("setex", k, pick(r, ttls), v), bs("set", k, v, "ex", pick(r, ttls)), bs("set", k, v, "nx", "ex", pick(r, ttls))})
			case 13:
				a = bs("del", k)
			case 14:
				a = pick(r, [][]B{bs("get", k), bs("exists", k), bs("type", k)})
			default:
				a = bs("expire", k, pick(r, []string{"0", "-1"}), pick(r, []string{"xx", "nx", "gt", "lt"}))
			}
			p.Steps = append(p.Steps, Step{Kind: "cmd", Args: a})
			total++
		}
		sc.Clients = append(sc.Clients, p)
	}
	audit := []Step{{Kind: "barrier"}}
	for _, k := range keys {
		audit = append(audit, Step{Kind: "cmd", Args: bs("exists", k)}, Step{Kind: "cmd", Args: bs("ttl", k)}, Step{Kind: "cmd", Args: bs("type", k)})
	}
	sc.Clients = append(sc.Clients, ClientProg{Name: "zaudit", Role: "auditor", Pipeline: 1, Steps: audit})
	return sc
}

func (g *lsGen) entry(k string) *refmodel.Entry { return g.m.DBs[0].Keys[k] }

// sleepTo advances the generator's clock to the instant t (if it is ahead).
func (g *lsGen) sleepTo(t time.Time) {
	if d := t.Sub(g.now); d > 0 {
		g.sleep(d)
	}
}

func (g *lsGen) c06Create(k string) string {
	g.try(bs("del", k))
	return g.c06Fill(k)
}

// c06Fill creates k by its first write (no DEL before it: whatever removed the
// previous value must have removed its deadline too).
func (g *lsGen) c06Fill(k string) string {
	r := g.r
	typ := pick(r, []string{"string", "string", "string", "list", "set", "hash", "zset", "stream"})
	switch typ {
	case "stream":
		g.try(bs("xadd", k, "1-1", "f", "v"))
	case "string":
		g.try(bs("set", k, pick(r, []string{"v", "10", "hello"})))
	case "list":
		g.try(bs("rpush", k, "a", "b"))
	case "set":
		g.try(bs("sadd", k, "m1", "m2"))
	case "hash":
		g.try(bs("hset", k, "f", "v"))
	case "zset":
		g.try(bs("zadd", k, "1", "a"))
	}
	return typ
}

func (g *lsGen) c06Attach(k, typ string) {
	r := g.r
	n := pick(r, []int{1, 1, 2, 3, 5, 60, 100000, 1000000000})
	if typ == "string" && r.Bool(0.5) {
		switch r.Intn(5) {
		case 0:
			g.try(bs("setex", k, itoa(n), "sx"))
		case 1:
			g.try(bs("set", k, "se", "ex", itoa(n)))
		case 2:
			g.try(bs("set", k, "sp", "px", itoa(pick(r, []int{1000, 2000, 1500, 500, 2500, n * 1000}))))
		case 3:
			g.try(bs("set", k, "sa", "exat", itoa(int(g.now.Unix())+n)))
		case 4:
			g.try(bs("set", k, "sk", "EX", itoa(n)))
		}
		return
	}
	g.try(bs("expire", k, itoa(n)))
}

// c06AttachTwin gives k and k2 (k first) the same time-to-live through the same
// command form, back to back: whatever instant inside the one-second window the
// server takes as a key's deadline, k's is not later than k2's.  Probing k2 and
// then k inside the window with arbitrary commands shows a server in which
// different commands disagree about when a key has gone.
func (g *lsGen) c06AttachTwin(k, typ, k2, typ2 string) {
	r := g.r
	n := pick(r, []int{1, 1, 2, 3})
	form := pick(r, []string{"expire", "expire", "setex", "set-ex"})
	if typ != "string" || typ2 != "string" {
		form = "expire"
	}
	for _, kk := range []string{k, k2} {
		switch form {
		case "expire":
			g.try(bs("expire", kk, itoa(n)))
		case "setex":
			g.try(bs("setex", kk, itoa(n), "tw"))
		default:
			g.try(bs("set", kk, "tw", "ex", itoa(n)))
		}
	}
}

func (g *lsGen) c06FollowUp(k, typ string) string {
	r := g.r
	switch r.Intn(13) {
	case 10, 11:
		// the key ceases to exist by being emptied or overwritten by an empty
		// result, not by DEL: its deadline goes with it, and a key created later
		// under the same name has none
		if r.Bool(0.4) {
			g.try(pick(r, [][]B{bs("sinterstore", k, g.prefix+"nosuch"), bs("sdiffstore", k, g.prefix+"nosuch", g.prefix+"nosuch2"),
				bs("sunionstore", k, g.prefix+"nosuch"), bs("sinterstore", k, g.prefix+"nosuch", k)}))
		} else {
			switch typ {
			case "string":
				g.try(pick(r, [][]B{bs("expire", k, "0"), bs("expire", k, "-5"), bs("set", k, "x", "exat", "1")}))
			case "list":
				g.try(pick(r, [][]B{bs("ltrim", k, "1", "0"), bs("lpop", k, "10"), bs("rpop", k, "10"), bs("lrem", k, "0", "a")}))
				g.try(bs("lpop", k, "10"))
			case "set":
				g.try(pick(r, [][]B{bs("spop", k, "10"), bs("srem", k, "m1", "m2", "m3", "w"), bs("smove", k, g.prefix+"other", "m1")}))
				g.try(bs("srem", k, "m1", "m2", "m3", "w"))
			case "hash":
				g.try(bs("hdel", k, "f", "g", "w", "n"))
			case "zset":
				g.try(bs("zrem", k, "a", "b", "w"))
			}
		}
		g.try(bs("exists", k))
		if e := g.entry(k); e == nil {
			return g.c06Fill(k)
		}
		return typ
	case 12:
		// a non-positive TTL deletes the key, but only when the option's condition holds
		g.try(bs("expire", k, pick(r, []string{"0", "-1", "-100"}), pick(r, []string{"nx", "xx", "gt", "lt", "XX", "NX"})))
		g.try(bs("exists", k))
		if e := g.entry(k); e == nil {
			return g.c06Fill(k)
		}
		return typ
	case 0:
		if typ == "string" {
			g.try(bs("set", k, "plain")) // removes the deadline
		}
	case 1:
		if typ == "string" {
			g.try(bs("set", k, "kept", "keepttl"))
		}
	case 2:
		g.try(bs("persist", k))
	case 3:
		g.try(bs("del", k))
		return g.c06Fill(k)
	case 4:
		k2 := g.key()
		g.try(bs("rename", k, k2))
	case 5:
		// a write of the family keeps the deadline
		switch typ {
		case "string":
			g.try(bs("append", k, "x"))
		case "list":
			g.try(bs("rpush", k, "c"))
		case "set":
			g.try(bs("sadd", k, "m3"))
		case "hash":
			g.try(bs("hset", k, "g", "w"))
		case "zset":
			g.try(bs("zadd", k, "2", "b"))
		}
	case 6:
		a := bs("expire", k, itoa(pick(r, []int{1, 2, 4, 50})))
		for _, o := range pick(r, [][]string{{"nx"}, {"xx"}, {"gt"}, {"lt"}, {"NX"}, {"GT"}, {"xx", "gt"}, {"xx", "lt"}, {"lt", "xx"}, {"GT", "XX"}, {"nx", "gt"}, {"gt", "lt"}}) {
			a = append(a, B(o))
		}
		g.try(a)
	case 7:
		g.try(bs("expire", k, itoa(pick(r, []int{2, 7}))))
	case 8:
		if typ == "string" {
			g.try(bs("mset", k, "m"))
		}
	case 9:
		g.try(bs("ttl", k))
	}
	return typ
}

func (g *lsGen) c06Probe(k, typ string) {
	r := g.r
	if r.Bool(0.6) {
		// reads
		switch r.Intn(10) {
		case 0, 1:
			g.try(bs("exists", k))
		case 2:
			g.try(bs("ttl", k))
		case 3:
			g.try(bs("type", k))
		case 4:
			g.try(bs("keys", g.prefix+"*"))
		default:
			switch typ {
			case "string":
				g.try(pick(r, [][]B{bs("get", k), bs("strlen", k), bs("mget", k), bs("getrange", k, "0", "-1")}))
			case "list":
				g.try(pick(r, [][]B{bs("llen", k), bs("lrange", k, "0", "-1"), bs("lindex", k, "0")}))
			case "set":
				g.try(pick(r, [][]B{bs("scard", k), bs("smembers", k), bs("sismember", k, "m1")}))
			case "hash":
				g.try(pick(r, [][]B{bs("hlen", k), bs("hget", k, "f"), bs("hgetall", k), bs("hexists", k, "f")}))
			case "zset":
				g.try(pick(r, [][]B{bs("zrank", k, "a"), bs("zrange", k, "0", "-1")}))
			case "stream":
				g.try(bs("xrange", k, "-", "+"))
			}
		}
		return
	}
	// commands whose reply alone says whether the key was there
	if r.Bool(0.2) {
		g.try(pick(r, [][]B{bs("del", k), bs("persist", k), bs("expire", k, "100", "xx"), bs("expire", k, "100", "nx"), bs("rename", k, k+"_r"), bs("exists", k, k)}))
		g.try(bs("exists", k))
		return
	}
	// re-arming: a fresh value and/or deadline written around the old deadline must
	// survive the old timer and the old lazy check (probed again at later instants)
	if r.Bool(0.25) {
		if typ == "string" && r.Bool(0.6) {
			g.try(pick(r, [][]B{bs("set", k, "rearmed", "ex", "100"), bs("setex", k, "100", "rearmed"), bs("set", k, "rearmed", "px", "100000")}))
		} else {
			g.try(bs("expire", k, "100"))
		}
		g.try(bs("exists", k))
		return
	}
	// writes must start from an empty key once it has expired
	if r.Bool(0.25) {
		// ... also when the key is only the destination of a multi-key command
		aux := g.prefix + "aux"
		switch typ {
		case "list":
			g.try(bs("rpush", aux, "x"))
			g.try(bs("lmove", aux, k, pick(r, []string{"left", "right"}), pick(r, []string{"left", "right"})))
			g.try(bs("lrange", k, "0", "-1"))
		case "set":
			g.try(bs("sadd", aux, "m9"))
			g.try(bs("smove", aux, k, "m9"))
			g.try(bs("smembers", k))
		default:
			g.try(bs("set", aux, "moved"))
			g.try(bs("rename", aux, k))
			g.try(bs("ttl", k))
		}
		g.try(bs("del", aux))
		return
	}
	switch typ {
	case "string":
		g.try(pick(r, [][]B{bs("append", k, "w"), bs("incr", k), bs("setnx", k, "n"), bs("setrange", k, "0", "Z"), bs("set", k, "x", "xx"), bs("set", k, "y", "nx")}))
	case "list":
		g.try(pick(r, [][]B{bs("rpush", k, "w"), bs("lpushx", k, "w"), bs("lpop", k), bs("lset", k, "0", "w")}))
	case "set":
		g.try(pick(r, [][]B{bs("sadd", k, "w"), bs("srem", k, "m1"), bs("spop", k, "10")}))
	case "hash":
		g.try(pick(r, [][]B{bs("hset", k, "w", "1"), bs("hdel", k, "f"), bs("hincrby", k, "n", "1"), bs("hsetnx", k, "f", "new")}))
	case "zset":
		g.try(pick(r, [][]B{bs("zadd", k, "5", "w"), bs("zrem", k, "a"), bs("zadd", k, "xx", "7", "a"), bs("zadd", k, "incr", "1", "a")}))
	case "stream":
		g.try(pick(r, [][]B{bs("xadd", k, "*", "f", "w"), bs("xadd", k, "9-1", "f", "w"), bs("xadd", k, "nomkstream", "*", "f", "w"), bs("xadd", k, "1-1", "f", "dup")}))
		g.try(bs("xrange", k, "-", "+"))
	}
}

func genC06(r *core.Rand, env *core.Env, run int) *Scenario {
	sc := &Scenario{Kind: "C06"}
	sc.Knobs = Knobs{ShardNum: pick(r, []int{1, 2, 8, 1024}), Databases: 1, YieldRMW: r.Bool(0.3), MaxSteps: 30000,
		Strategy: pick(r, []int{0, 0, 1, 2, 3}), PreemptPct: pick(r, []int{10, 30, 60})}
	aim := run%8 == 7
	if !aim && run%5 == 3 {
		sc.Knobs.YieldRMW = true
		sc.Knobs.ReplyYield = r.Bool(0.5)
		return genC06Concurrent(r, sc)
	}
	g := newLsGen(r, env, "c0:", 1, aim)
	g.timeOK = true
	g.steps = append(g.steps, Step{Kind: "sleep", Sleep: 500 * time.Millisecond})
	g.keys = keyPool(r, g.prefix, 1+r.Intn(3), true)
	eps := 20 * time.Millisecond
	rounds := 1 + r.Intn(3)
	for round := 0; round < rounds; round++ {
		k := g.key()
		typ := g.c06Create(k)
		if len(g.keys) >= 2 && r.Bool(0.35) {
			// twins: the same time-to-live, the same way, one right after the other
			k2 := g.key()
			for k2 == k {
				k2 = g.key()
			}
			typ2 := g.c06Create(k2)
			g.c06AttachTwin(k, typ, k2, typ2)
			e1, e2 := g.entry(k), g.entry(k2)
			if e1 != nil && e2 != nil && e1.HasTTL && e2.HasTTL {
				lo, hi := e1.WinLo, e2.WinHi
				for _, t := range []time.Time{lo.Add(-eps), lo.Add(eps), lo.Add(hi.Sub(lo) / 4), lo.Add(hi.Sub(lo) / 2), hi.Add(-eps), hi.Add(eps)} {
					if !r.Bool(0.75) {
						continue
					}
					g.sleepTo(t)
					if r.Bool(0.7) {
						g.c06Probe(k2, typ2)
						g.c06Probe(k, typ)
					} else {
						g.c06Probe(k, typ)
						g.c06Probe(k2, typ2)
					}
				}
				continue
			}
		}
		g.c06Attach(k, typ)
		for i := 0; i < r.Intn(3); i++ {
			typ = g.c06FollowUp(k, typ)
		}
		// which key carries the deadline now (RENAME may have moved it)
		for _, kk := range g.keys {
			if e := g.entry(kk); e != nil && e.HasTTL {
				k = kk
				typ = e.T.String()
			}
		}
		e := g.entry(k)
		if e == nil || !e.HasTTL {
			// no deadline left: the key must survive a jump of days
			g.sleep(time.Duration(1+r.Intn(3)) * 24 * time.Hour)
			g.c06Probe(k, typ)
			continue
		}
		lo, hi := e.WinLo, e.WinHi
		if hi.Sub(g.now) > 2*time.Hour {
			// far deadline: probe now and shortly before it, then across it
			g.c06Probe(k, typ)
			g.sleepTo(lo.Add(-time.Second + eps))
		}
		instants := []time.Time{lo.Add(-time.Second + eps), lo.Add(-eps), lo.Add(eps), lo.Add(hi.Sub(lo) / 2), hi.Add(-eps), hi.Add(eps), hi.Add(3 * time.Second)}
		for _, t := range instants {
			if !r.Bool(0.7) {
				continue
			}
			g.sleepTo(t)
			g.c06Probe(k, typ)
			if r.Bool(0.3) {
				g.c06Probe(k, typ)
			}
			if r.Bool(0.15) {
				typ = g.c06FollowUp(k, typ)
				if e2 := g.entry(k); e2 == nil || !e2.HasTTL || !e2.WinLo.Equal(lo) {
					break
				}
			}
		}
		if r.Bool(0.3) {
			g.sleep(time.Duration(1+r.Intn(48)) * time.Hour)
			g.c06Probe(k, typ)
		}
	}
	sc.Clients = append(sc.Clients, ClientProg{Name: "c0", Role: "owner", Steps: g.steps, Pipeline: 1, Chunked: r.Bool(0.15)})
	// co-tenants: commands on other keys that collide on stripes; they never sleep
	for ci := 1; ci <= r.Intn(3); ci++ {
		t := newLsGen(r, env, "t"+itoa(ci)+":", 1, false)
		t.keys = keyPool(r, t.prefix, 2, true)
		for i := 0; i < 10+r.Intn(20); i++ {
			genStringCmd(t)
		}
		sc.Clients = append(sc.Clients, ClientProg{Name: "t" + itoa(ci), Role: "owner", Steps: t.steps, Pipeline: 1})
	}
	return sc
}

var _ = core.Mix
