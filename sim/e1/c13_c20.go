package e1

import (
	"os"
	"math/big"
	"fmt"
	"strings"
	"time"

	"github.com/anishathalye/porcupine"

	"verifsim/core"
)

// C13 — multi-key commands: deadlock freedom and atomicity.
// C20 — numbered databases: isolation and per-connection selection.
// Both use the history oracle (porcupine over the whole reference model).

func init() {
	register(&PropDef{ID: "C13", Gen: genC13, Judge: judgeC13, Nontrivial: func(sc *Scenario, rr *RunResult) bool {
		return rr.HeldSwitch > 0 && rr.Probes["multi-key-ops"] > 0
	}})
	register(&PropDef{ID: "C20", Gen: genC20, Judge: judgeC20, Nontrivial: func(sc *Scenario, rr *RunResult) bool {
		return rr.Probes["select-ops"] > 0 && len(sc.Clients) > 2
	}})
}

func genC13(r *core.Rand, env *core.Env, run int) *Scenario {
	sc := &Scenario{Kind: "C13"}
	sc.Knobs = Knobs{ShardNum: pick(r, []int{1, 1, 2, 2, 3}), Databases: 1, YieldRMW: r.Bool(0.5), MaxSteps: 8000,
		Strategy: pick(r, []int{0, 0, 1, 2, 3}), PreemptPct: pick(r, []int{15, 30, 60})}
	sc.Knobs.ReplyYield = r.Bool(0.4)
	sc.Knobs.WriterPref = r.Bool(0.5)
	profile := pick(r, []string{"string", "list", "set", "mixed"})
	keys := []string{"a", "b", "c", "d"}[:2+r.Intn(3)]
	fam := map[string]string{}
	for _, k := range keys {
		f := profile
		if profile == "mixed" {
			f = pick(r, []string{"string", "list", "set"})
		}
		fam[k] = f
		switch f {
		case "string":
			if r.Bool(0.7) {
				sc.Knobs.Preload = append(sc.Knobs.Preload, bs("set", k, "i"+k))
			}
		case "list":
			if r.Bool(0.8) {
				sc.Knobs.Preload = append(sc.Knobs.Preload, bs("rpush", k, "x"+k+"1", "x"+k+"2"))
			}
		case "set":
			if r.Bool(0.8) {
				sc.Knobs.Preload = append(sc.Knobs.Preload, bs("sadd", k, "m"+k, "shared"))
			}
		}
	}
	keysOf := func(f string) []string {
		var out []string
		for _, k := range keys {
			if fam[k] == f {
				out = append(out, k)
			}
		}
		return out
	}
	uniq := 0
	val := func(ci int) string { uniq++; return fmt.Sprintf("v%d_%d", ci, uniq) }
	gen := func(ci int) []B {
		k := pick(r, keys)
		f := fam[k]
		same := keysOf(f)
		k2 := pick(r, same)
		if r.Bool(0.12) {
			// the other key may hold another type: the command fails as a whole
			k2 = pick(r, keys)
		}
		switch f {
		case "string":
			switch r.Intn(8) {
			case 0, 1, 2:
				a := bs("mset")
				for i := 0; i < 2+r.Intn(2); i++ {
					a = append(a, B(pick(r, same)), B(val(ci)))
				}
				return a
			case 3:
				return bs("rename", k, k2)
			case 4:
				a := bs("mget")
				for _, x := range same {
					a = append(a, B(x))
				}
				return a
			case 5:
				return bs("get", k)
			case 6:
				return bs("set", k, val(ci))
			default:
				a := bs(pick(r, []string{"del", "exists"}))
				for i := 0; i < 1+r.Intn(3); i++ {
					a = append(a, B(pick(r, keys)))
				}
				return a
			}
		case "list":
			switch r.Intn(7) {
			case 0, 1, 2:
				return bs("lmove", k, k2, pick(r, []string{"left", "right"}), pick(r, []string{"left", "right"}))
			case 3:
				return bs("rpush", k, val(ci))
			case 4:
				return bs("lrange", k, "0", "-1")
			case 5:
				return bs("lpop", k)
			default:
				return bs("llen", k)
			}
		default:
			switch r.Intn(9) {
			case 0, 1, 2:
				return bs("smove", k, k2, pick(r, []string{"m" + k, "shared", "new"}))
			case 3:
				return bs("sadd", k, pick(r, []string{"new", "shared", val(ci)}))
			case 4:
				return bs("smembers", k)
			case 5:
				a := bs(pick(r, []string{"sunion", "sinter", "sdiff"}))
				for i := 0; i < 2; i++ {
					a = append(a, B(pick(r, same)))
				}
				return a
			case 6:
				a := bs(pick(r, []string{"sunionstore", "sdiffstore"}), fmt.Sprintf("dst%d", ci))
				for i := 0; i < 2; i++ {
					a = append(a, B(pick(r, same)))
				}
				return a
			case 7:
				return bs("sismember", k, "shared")
			default:
				return bs("scard", k)
			}
		}
	}
	nc := 2 + r.Intn(3)
	total := 0
	for ci := 0; ci < nc; ci++ {
		p := ClientProg{Name: fmt.Sprintf("c%d", ci), Pipeline: 1}
		n := 2 + r.Intn(6)
		for i := 0; i < n && total < 30; i++ {
			a := gen(ci)
			if knownClass(env, classify(preloadModel(sc, 1), 0, a, t2000)) && run%8 != 7 {
				continue
			}
			p.Steps = append(p.Steps, Step{Kind: "cmd", Args: a})
			total++
		}
		sc.Clients = append(sc.Clients, p)
	}
	famAudit := map[string]string{}
	for k, f := range fam {
		switch f {
		case "string":
			famAudit[k] = "reg"
		default:
			famAudit[k] = f
		}
	}
	sc.Clients = append(sc.Clients, ClientProg{Name: "zaudit", Role: "auditor", Pipeline: 1, Steps: auditStepsTyped(keys)})
	return sc
}

// auditStepsTyped reads every key back whatever type it ended up with.
func auditStepsTyped(keys []string) []Step {
	steps := []Step{{Kind: "barrier"}}
	for _, k := range keys {
		steps = append(steps, Step{Kind: "cmd", Args: bs("exists", k)}, Step{Kind: "cmd", Args: bs("type", k)},
			Step{Kind: "cmd", Args: bs("mget", k)}, Step{Kind: "cmd", Args: bs("llen", k)}, Step{Kind: "cmd", Args: bs("scard", k)})
	}
	steps = append(steps, Step{Kind: "cmd", Args: bs("keys", "*")})
	return steps
}

var multiKeyCmds = map[string]bool{"mset": true, "rename": true, "lmove": true, "smove": true, "sunion": true, "sinter": true, "sdiff": true,
	"sunionstore": true, "sinterstore": true, "sdiffstore": true, "mget": true}

func judgeC13(sc *Scenario, rr *RunResult, env *core.Env) (string, string) {
	for _, c := range rr.Clients {
		for _, op := range c.ops {
			if len(op.Args) > 0 && multiKeyCmds[strings.ToLower(string(op.Args[0]))] {
				rr.Probes["multi-key-ops"]++
			}
		}
	}
	init := preloadModel(sc, 1)
	model := linModel(init)
	raw := historyOps(rr, nil)
	// Only MSET, RENAME, LMOVE and SMOVE are required to be atomic.  The other
	// multi-key commands (DEL, EXISTS, MGET, set algebra and their STORE forms)
	// may look at their keys one after another: they are split into one
	// operation per key over the same interval, whose individual replies are
	// unknown (the effect of DEL on each key is still applied atomically per key).
	var ops []porcupine.Operation
	for _, o := range raw {
		in := o.Input.(linIn)
		n := strings.ToLower(string(in.Args[0]))
		switch {
		case (n == "del" || n == "exists" || n == "mget") && len(in.Args) > 2:
			single := map[string]string{"del": "del", "exists": "exists", "mget": "get"}[n]
			for _, k := range in.Args[1:] {
				p := o
				p.Input = linIn{Args: [][]byte{[]byte(single), k}, At: in.At}
				p.Output = linOut{Pending: true}
				ops = append(ops, p)
			}
		case n == "sunion" || n == "sinter" || n == "sdiff":
			// pure reads of several keys: nothing to apply, reply not judged
		case strings.HasSuffix(n, "store"):
			o.Output = linOut{Pending: true}
			ops = append(ops, o)
		default:
			ops = append(ops, o)
		}
	}
	if len(ops) == 0 {
		return "", ""
	}
	switch porcupine.CheckOperationsTimeout(model, ops, 8*time.Second) {
	case porcupine.Ok:
		rr.Probes["porcupine-ok"]++
		return "", ""
	case porcupine.Unknown:
		rr.Probes["porcupine-unknown"]++
		return "", ""
	}
	rr.Probes["porcupine-illegal"]++
	return "C13/not-atomic/" + historyClass(rr), "history of multi-key and single-key commands is not linearizable (a value, element or member was lost, duplicated or half-applied):\n" + describeHistory(ops, model)
}

// ---- C20 -------------------------------------------------------------------

func genC20(r *core.Rand, env *core.Env, run int) *Scenario {
	sc := &Scenario{Kind: "C20"}
	ndb := pick(r, []int{1, 2, 2, 16, 3, 17, 20})
	sc.Knobs = Knobs{ShardNum: pick(r, []int{1, 2, 8}), Databases: ndb, MaxSteps: 8000, Strategy: pick(r, []int{0, 1}), PreemptPct: 30}
	if r.Bool(0.5) {
		// "for all database counts": the count reaches the server the way it does in
		// production, through config.Parse of a configuration file
		sc.Knobs.ConfigText = genConfigText(r, sc.Knobs.ShardNum, ndb)
	}
	nc := 1 + r.Intn(4)
	// (not in the sweep phase: the manager lives inside server.Start there and its
	// pending expiry timers could not be cancelled at the end of a run)
	withDeadlines := r.Bool(0.4) && os.Getenv("VERIF_RACE") != "1"
	keys := []string{"k", "j"}
	uniq := 0
	total := 0
	selArgs := func() []B {
		switch r.Intn(10) {
		case 0:
			return bs("select", itoa(ndb)) // first out-of-range index
		case 1:
			return bs("select", "-1")
		case 2:
			if r.Bool(0.3) {
				// a canonical numeral far out of range that equals a valid index modulo
				// 2^64 or 2^32 (a hand-rolled digit loop without overflow check accepts it)
				b := new(big.Int).Lsh(big.NewInt(int64(1+r.Intn(2))), pick(r, []uint{64, 64, 32}))
				return bs("select", b.Add(b, big.NewInt(int64(r.Intn(ndb)))).String())
			}
			return bs("select", pick(r, []string{"x", "", "1.5", " 0", "99999999999999999999", "+1", "01", "0x1", "1 ", "1e0"}))
		case 3:
			return bs("select")
		case 4:
			return bs("select", "0", "1")
		case 5:
			return bs("SELECT", itoa(r.Intn(ndb)))
		default:
			return bs("select", itoa(r.Intn(ndb)))
		}
	}
	for ci := 0; ci < nc; ci++ {
		p := ClientProg{Name: fmt.Sprintf("c%d", ci), Pipeline: 1}
		n := 3 + r.Intn(7)
		for i := 0; i < n && total < 34; i++ {
			k := pick(r, keys)
			switch r.Intn(7) {
			case 0, 1, 2:
				p.Steps = append(p.Steps, Step{Kind: "cmd", Args: selArgs()})
			case 3, 4:
				uniq++
				p.Steps = append(p.Steps, Step{Kind: "cmd", Args: bs("set", k, fmt.Sprintf("v%d_%d", ci, uniq))})
			case 5:
				p.Steps = append(p.Steps, Step{Kind: "cmd", Args: bs("get", k)})
			default:
				if withDeadlines && r.Bool(0.6) {
					// deadlines belong to the database they were set in, like the values
					uniq++
					p.Steps = append(p.Steps, Step{Kind: "cmd", Args: pick(r, [][]B{bs("set", k, fmt.Sprintf("v%d_%d", ci, uniq), "ex", pick(r, []string{"100", "900"})),
						bs("expire", k, pick(r, []string{"200", "700"})), bs("ttl", k), bs("ttl", k), bs("persist", k)})})
					break
				}
				p.Steps = append(p.Steps, Step{Kind: "cmd", Args: bs(pick(r, []string{"exists", "del"}), k)})
			}
			total++
		}
		sc.Clients = append(sc.Clients, p)
	}
	if r.Bool(0.35) {
		// a connection hangs up with a database selected; a connection accepted
		// afterwards starts in database 0 like any other
		c0 := &sc.Clients[0]
		c0.Steps = append(c0.Steps, Step{Kind: "cmd", Args: bs("select", itoa(r.Intn(ndb)))}, Step{Kind: "close"})
		late := ClientProg{Name: fmt.Sprintf("c%d", nc), Pipeline: 1, Late: true, Steps: []Step{{Kind: "connect", Tag: c0.Name}}}
		for i, n := 0, 2+r.Intn(3); i < n; i++ {
			k := pick(r, keys)
			if r.Bool(0.5) {
				uniq++
				late.Steps = append(late.Steps, Step{Kind: "cmd", Args: bs("set", k, fmt.Sprintf("vL_%d", uniq))})
			} else {
				late.Steps = append(late.Steps, Step{Kind: "cmd", Args: bs("get", k)})
			}
		}
		sc.Clients = append(sc.Clients, late)
	}
	// auditor: look into every database
	aud := ClientProg{Name: "zaudit", Role: "auditor", Pipeline: 1, Steps: []Step{{Kind: "barrier"}}}
	for d := 0; d < min(ndb, 3); d++ {
		aud.Steps = append(aud.Steps, Step{Kind: "cmd", Args: bs("select", itoa(d))})
		for _, k := range keys {
			aud.Steps = append(aud.Steps, Step{Kind: "cmd", Args: bs("get", k)})
			if withDeadlines {
				aud.Steps = append(aud.Steps, Step{Kind: "cmd", Args: bs("ttl", k)})
			}
		}
	}
	sc.Clients = append(sc.Clients, aud)
	return sc
}

// genConfigText renders a configuration file that sets the shard and database
// counts, in the liberties the format allows: key case, blanks, comments, other
// settings around, LF / CRLF line ends, and a last line with or without one.
func genConfigText(r *core.Rand, shards, ndb int) string {
	lines := []string{
		pick(r, []string{"databases", "Databases", "DATABASES"}) + pick(r, []string{" ", "  ", "\t"}) + itoa(ndb),
		pick(r, []string{"shardnum", "ShardNum"}) + " " + itoa(shards),
	}
	extra := []string{"# a comment", "", "loglevel info", "port 6380", "host 127.0.0.1", "logdir ./", "#databases 9", "appendonly no"}
	for i, n := 0, r.Intn(4); i < n; i++ {
		lines = append(lines, pick(r, extra))
	}
	// tape-free shuffle from the run's generator
	for i := len(lines) - 1; i > 0; i-- {
		j := r.Intn(i + 1)
		lines[i], lines[j] = lines[j], lines[i]
	}
	if r.Bool(0.4) {
		// the database count on the last line
		for i, l := range lines {
			if strings.HasPrefix(strings.ToLower(l), "databases") {
				lines[i], lines[len(lines)-1] = lines[len(lines)-1], lines[i]
			}
		}
	}
	eol := pick(r, []string{"\n", "\n", "\r\n"})
	text := strings.Join(lines, eol)
	if r.Bool(0.5) {
		text += eol
	}
	return text
}

func judgeC20(sc *Scenario, rr *RunResult, env *core.Env) (string, string) {
	init := preloadModel(sc, sc.Knobs.Databases)
	model := linModel(init)
	ops := historyOps(rr, nil)
	nsel := 0
	for i := range ops {
		in := ops[i].Input.(linIn)
		in.Conn = ops[i].ClientId // the selected database is the connection's own state
		ops[i].Input = in
		if strings.EqualFold(string(in.Args[0]), "select") {
			nsel++
		}
	}
	rr.Probes["select-ops"] += int64(nsel)
	if len(ops) == 0 {
		return "", ""
	}
	switch porcupine.CheckOperationsTimeout(model, ops, 8*time.Second) {
	case porcupine.Ok:
		rr.Probes["porcupine-ok"]++
		return "", ""
	case porcupine.Unknown:
		rr.Probes["porcupine-unknown"]++
		return "", ""
	}
	active := 0
	for _, c := range rr.Clients {
		if c.prog.Role != "auditor" && len(c.ops) > 0 {
			active++
		}
	}
	class := "single-connection"
	if active > 1 {
		class = "across-connections"
	}
	return "C20/db-isolation/" + class, "replies are not explained by per-connection database selection over isolated keyspaces:\n" + describeHistory(ops, model)
}
