package e1

import (
	"fmt"
	"sort"
	"strings"
	"time"

	"github.com/anishathalye/porcupine"

	"verifsim/refmodel"
	rd "verifsim/respdec"
)

type linIn struct {
	Args [][]byte
	At   time.Time
	Conn int
}

type linOut struct {
	V       rd.Value
	Pending bool
}

// linModel wraps the reference model as a porcupine model over the whole
// keyspace (KEYS and multi-key commands included).
func linModel(init *refmodel.Model) porcupine.Model {
	return porcupine.Model{
		Init: func() interface{} { return init },
		Step: func(state, input, output interface{}) (bool, interface{}) {
			m := state.(*refmodel.Model).Clone()
			in := input.(linIn)
			out := output.(linOut)
			if out.Pending {
				// never answered: it may have taken effect with any reply
				m.Exec(in.Conn, in.Args, in.At)
				return true, m
			}
			ok, _ := m.Apply(in.Conn, in.Args, in.At, out.V)
			return ok, m
		},
		Equal: func(a, b interface{}) bool {
			ma, mb := a.(*refmodel.Model), b.(*refmodel.Model)
			if len(ma.DBs) != len(mb.DBs) {
				return false
			}
			for i := range ma.DBs {
				da, db := ma.DumpDeadlines(i), mb.DumpDeadlines(i)
				if len(da) != len(db) {
					return false
				}
				for j := range da {
					if da[j] != db[j] {
						return false
					}
				}
			}
			return true
		},
		DescribeOperation: func(input, output interface{}) string {
			in := input.(linIn)
			out := output.(linOut)
			parts := make([]string, len(in.Args))
			for i, a := range in.Args {
				parts[i] = string(a)
			}
			if out.Pending {
				return strings.Join(parts, " ") + " -> (no reply)"
			}
			return strings.Join(parts, " ") + " -> " + out.V.String()
		},
	}
}

// historyOps turns the clients' request/response records into porcupine
// operations stamped with the simulator's global event sequence numbers.
func historyOps(rr *RunResult, include func(c *clientState, op *OpRec) bool) []porcupine.Operation {
	var ops []porcupine.Operation
	for ci, c := range rr.Clients {
		for _, op := range c.ops {
			if op.Args == nil || (include != nil && !include(c, op)) {
				continue
			}
			o := porcupine.Operation{ClientId: ci, Input: linIn{Args: argv(op.Args), At: op.InvokeAt, Conn: 0}, Call: op.InvokeSeq}
			if op.Done {
				o.Output = linOut{V: op.Reply}
				o.Return = op.ReturnSeq
			} else {
				o.Output = linOut{Pending: true}
				o.Return = rr.Seq + 1000
			}
			ops = append(ops, o)
		}
	}
	sort.Slice(ops, func(i, j int) bool { return ops[i].Call < ops[j].Call })
	return ops
}

func describeHistory(ops []porcupine.Operation, m porcupine.Model) string {
	var sb strings.Builder
	for _, o := range ops {
		fmt.Fprintf(&sb, "  [%d..%d] c%d %s\n", o.Call, o.Return, o.ClientId, m.DescribeOperation(o.Input, o.Output))
	}
	return sb.String()
}

// preloadModel builds the reference state after the scenario's preload.
func preloadModel(sc *Scenario, ndb int) *refmodel.Model {
	if ndb <= 0 {
		ndb = 1
	}
	m := refmodel.New(ndb)
	t0 := time.Date(2000, 1, 1, 0, 0, 0, 0, time.UTC)
	for _, c := range sc.Knobs.Preload {
		m.Exec(0, argv(c), t0)
	}
	return m
}
