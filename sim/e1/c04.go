package e1

import (
	"fmt"
	"os"
	"strconv"
	"strings"
	"time"

	"verifsim/core"
)

// C04 — no client input can crash, wedge or hang the server.
//
// An attacker connection sends adversarial (command, argv) vectors against one
// key of each type; after each input it probes the same key and PINGs, a
// bystander works on other keys, and a late connection PINGs at the end.  The
// oracle is liveness only: the process is alive (executor panics are process
// deaths: there is no recover on any path), every probe is answered, no lock
// is leaked, nothing deadlocks, every reply is RESP, and a blocking pop answers
// by its timeout on the fake clock.

func init() {
	register(&PropDef{ID: "C04", Gen: genC04, Judge: judgeC04, Nontrivial: func(sc *Scenario, rr *RunResult) bool { return true }})
}

var allCommands = []string{"hdel", "hexists", "hget", "hgetall", "hincrby", "hincrbyfloat", "hkeys", "hlen", "hmget", "hset", "hsetnx", "hvals",
	"hstrlen", "hrandfield", "ping", "del", "exists", "keys", "expire", "persist", "ttl", "type", "rename", "llen", "lindex", "lpos", "lpop", "rpop",
	"lpush", "lpushx", "rpush", "rpushx", "lset", "lrem", "ltrim", "lrange", "lmove", "blpop", "brpop", "subscribe", "publish", "rconf", "member",
	"sadd", "scard", "sdiff", "sdiffstore", "sinter", "sinterstore", "sismember", "smembers", "smove", "spop", "srandmember", "srem", "sunion",
	"sunionstore", "sscan", "zadd", "zrange", "zrem", "zrank", "xadd", "xrange", "set", "get", "getrange", "setrange", "mget", "mset", "setex",
	"setnx", "strlen", "incr", "incrby", "decr", "decrby", "incrbyfloat", "append", "select", "nosuchcmd", ""}

var cmdOptions = map[string][]string{
	"set": {"nx", "xx", "get", "ex", "px", "exat", "keepttl"}, "expire": {"nx", "xx", "gt", "lt"},
	"zadd": {"nx", "xx", "gt", "lt", "ch", "incr"}, "zrange": {"rev", "withscores", "limit", "byscore", "bylex"},
	"lpos": {"rank", "count", "maxlen"}, "lmove": {"left", "right"}, "hrandfield": {"withvalues"},
	"xadd": {"nomkstream", "maxlen", "minid", "limit", "=", "~", "*"}, "xrange": {"count", "-", "+"},
	"rconf": {"add", "delete", "update"}, "member": {"list"}, "sscan": {"match", "count"}, "spop": {}, "srandmember": {},
}

var advAlphabet = []string{"", "-1", "0", "1", "2", "9223372036854775807", "-9223372036854775808", "9223372036854775808", "1e309", "nan", "inf", "-inf",
	"(", "*", "[", "\\", "[a-", "3.5", " 1", "0x10", "1-1", "0-0", "5-*", "\r\n", "\x00"}

// (kxe: a stream that exists but was trimmed to no entries)
var typedKeys = []string{"ks", "kl", "kh", "kS", "kz", "kx", "kmissing", "kxe"}

func c04Preload() [][]B {
	return [][]B{bs("set", "ks", "hello"), bs("rpush", "kl", "a", "b", "c"), bs("hset", "kh", "f", "v", "n", "5"), bs("sadd", "kS", "m1", "m2"),
		bs("zadd", "kz", "1", "a", "2", "b", "2", "c"), bs("xadd", "kx", "1-1", "f", "v"), bs("xadd", "kxe", "maxlen", "0", "7-1", "f", "v")}
}

func mixCase(r *core.Rand, s string) string {
	switch r.Intn(3) {
	case 0:
		return s
	case 1:
		return strings.ToUpper(s)
	}
	b := []byte(s)
	for i := range b {
		if r.Bool(0.5) && b[i] >= 'a' && b[i] <= 'z' {
			b[i] -= 32
		}
	}
	return string(b)
}

// genC04Parallel is the race-sweep shape: several attacker connections fire
// adversarial commands at the same typed keys at once, free-running on real
// threads; what the oracle can see there is a runtime abort (concurrent map
// access, index out of range on a slice another command shrank, nil
// dereference) or the race detector's report of the map race behind it.
func genC04Parallel(r *core.Rand, env *core.Env, run int) *Scenario {
	sc := &Scenario{Kind: "C04"}
	sc.Knobs = Knobs{ShardNum: pick(r, []int{1, 2, 8, 1024}), Databases: 1, MaxSteps: 30000, IdleBudget: 60, Preload: c04Preload()}
	nc := 2 + r.Intn(3)
	// few keys so that the connections meet: one or two of the typed keys
	keys := []string{pick(r, typedKeys[:6])}
	if r.Bool(0.4) {
		keys = append(keys, pick(r, typedKeys))
	}
	fam := map[string][]string{
		"ks": {"set", "get", "append", "incr", "setrange", "getrange", "strlen", "setnx", "setex", "incrbyfloat", "decrby"},
		"kl": {"lpush", "rpush", "lpop", "rpop", "lrange", "lindex", "lset", "lrem", "ltrim", "llen", "lpos", "lmove", "lpushx"},
		"kh": {"hset", "hsetnx", "hget", "hdel", "hgetall", "hincrby", "hincrbyfloat", "hkeys", "hvals", "hlen", "hmget", "hexists", "hstrlen", "hrandfield"},
		"kS": {"sadd", "srem", "smembers", "sismember", "scard", "spop", "srandmember", "smove", "sunion", "sinter", "sdiff", "sunionstore", "sscan"},
		"kz": {"zadd", "zrem", "zrange", "zrank"},
		"kx": {"xadd", "xrange"},
	}
	generic := []string{"del", "exists", "type", "ttl", "expire", "persist", "rename", "keys"}
	for ci := 0; ci < nc; ci++ {
		cp := ClientProg{Name: fmt.Sprintf("c%d", ci), Role: "attacker", Pipeline: 1 + r.Intn(4)}
		for i, n := 0, 6+r.Intn(10); i < n; i++ {
			key := pick(r, keys)
			var name string
			switch {
			case r.Bool(0.7) && len(fam[key]) > 0:
				name = pick(r, fam[key])
			case r.Bool(0.5):
				name = pick(r, generic)
			default:
				name = pick(r, allCommands)
			}
			if name == "subscribe" || name == "blpop" || name == "brpop" || name == "rconf" || name == "member" || name == "" {
				name = "ping"
			}
			a := []B{B(name), B(key)}
			for j, extra := 0, r.Intn(5); j < extra; j++ {
				switch {
				case r.Bool(0.3) && len(cmdOptions[name]) > 0:
					a = append(a, B(pick(r, cmdOptions[name])))
				case r.Bool(0.3):
					a = append(a, B(pick(r, keys)))
				case r.Bool(0.5):
					a = append(a, B(pick(r, []string{"f", "n", "m1", "m2", "a", "b", "v", "1", "2", "0", "-1", "1.5"})))
				default:
					a = append(a, B(pick(r, advAlphabet)))
				}
			}
			if knownClassC04(env, a) && run%8 != 7 {
				continue
			}
			cp.Steps = append(cp.Steps, Step{Kind: "cmd", Args: a, Tag: "attack"})
		}
		cp.Steps = append(cp.Steps, Step{Kind: "cmd", Args: bs("ping"), Tag: "probe"})
		sc.Clients = append(sc.Clients, cp)
	}
	late := ClientProg{Name: fmt.Sprintf("c%d", nc), Role: "auditor", Pipeline: 1, Steps: []Step{{Kind: "barrier"}, {Kind: "cmd", Args: bs("ping")}}}
	for _, k := range typedKeys {
		late.Steps = append(late.Steps, Step{Kind: "cmd", Args: bs("type", k)}, Step{Kind: "cmd", Args: bs("del", k)})
	}
	sc.Clients = append(sc.Clients, late)
	return sc
}

// c04Templates are well-formed commands that use every option of their
// command.  The generator cuts them short at every length and drops single
// words: an option keyword whose value is missing, at the very end of the
// argument vector, is where hand-written parsers index past the end.
var c04Templates = [][]string{
	{"xadd", "kx", "nomkstream", "maxlen", "~", "5", "limit", "10", "*", "f", "v"},
	{"xadd", "kx", "maxlen", "=", "5", "2-1", "f", "v"},
	{"xadd", "kx", "minid", "~", "1-0", "limit", "3", "3-1", "f", "v", "g", "w"},
	{"xadd", "kmissing", "nomkstream", "minid", "=", "0-1", "*", "f", "v"},
	{"xrange", "kx", "-", "+", "count", "2"},
	{"xrange", "kx", "(1-0", "(5-0", "count", "1"},
	{"set", "ks", "v", "ex", "10", "nx", "get", "keepttl"},
	{"set", "ks", "v", "px", "10000", "xx", "get"},
	{"set", "ks", "v", "exat", "4000000000", "get"},
	{"setex", "ks", "10", "v"},
	{"expire", "ks", "10", "xx", "gt"},
	{"zadd", "kz", "xx", "gt", "ch", "incr", "1", "a"},
	{"zadd", "kz", "nx", "ch", "1", "m", "2", "n"},
	{"zrange", "kz", "0", "-1", "byscore", "rev", "limit", "0", "1", "withscores"},
	{"zrange", "kz", "(1", "+inf", "byscore", "limit", "0", "1"},
	{"zrange", "kz", "[a", "+", "bylex", "limit", "0", "1"},
	{"lpos", "kl", "a", "rank", "-1", "count", "2", "maxlen", "3"},
	{"lmove", "kl", "kmissing", "left", "right"},
	{"lmove", "kl", "kh", "left", "right"},
	{"lmove", "kl", "kS", "right", "left"},
	{"lmove", "kl", "kl", "right", "left"},
	{"smove", "kS", "kz", "m1"},
	{"smove", "kS", "kS", "m1"},
	{"rename", "ks", "kl"},
	{"rename", "kl", "kl"},
	{"sinterstore", "kh", "kS"},
	{"sunionstore", "kl", "kS", "kS"},
	{"sdiffstore", "ks", "kS", "kx"},
	{"sdiffstore", "kz", "kmissing", "ks"},
	{"mset", "ks", "v", "kl", "w", "ks", "x"},
	{"mget", "ks", "kl", "kmissing", "ks"},
	{"del", "ks", "kl", "ks"},
	{"exists", "ks", "kmissing", "ks"},
	{"sunion", "kS", "kl"},
	{"sinter", "kmissing", "kl"},
	{"sdiff", "kS", "kmissing", "kh"},
	{"lpop", "kl", "2"},
	{"lrem", "kl", "-1", "a"},
	{"ltrim", "kl", "0", "-1"},
	{"lset", "kl", "-1", "z"},
	{"blpop", "kmissing", "kl", "1"},
	{"brpop", "kl", "kmissing", "1"},
	{"hrandfield", "kh", "-3", "withvalues"},
	{"hset", "kh", "f", "v", "g", "w"},
	{"hincrbyfloat", "kh", "n", "1.5"},
	{"hmget", "kh", "f", "nosuch", "n"},
	{"srandmember", "kS", "-3"},
	{"spop", "kS", "1"},
	{"smove", "kS", "kmissing", "m1"},
	{"sinterstore", "kmissing", "kS", "kS"},
	{"sdiffstore", "kS", "kS", "kmissing"},
	{"sscan", "kS", "0", "match", "*", "count", "10"},
	{"getrange", "ks", "0", "-1"},
	{"setrange", "ks", "3", "xyz"},
	{"incrbyfloat", "ks", "1.5"},
	{"mset", "ks", "v", "kmissing", "w"},
	{"rename", "ks", "kmissing"},
	{"select", "0"},
	{"subscribe", "ch1", "ch2"},
	{"publish", "ch1", "hello"},
	{"rconf", "add", "4", "http://127.0.0.1:1"},
	{"member", "list"},
	{"keys", "k[a-z]*"},
	{"xadd", "kxe", "9-1", "f", "v"},
	{"xadd", "kxe", "minid", "5", "*", "f", "v"},
	{"xadd", "kx", "maxlen", "0", "*", "f", "v"},
	{"xrange", "kxe", "-", "+"},
}

// c04FromTemplate derives the run's systematic input: template t cut to a
// prefix, or with one word dropped, or with one word replaced by an option
// keyword of that command.
func c04FromTemplate(r *core.Rand, cell int) []B {
	t := c04Templates[cell%len(c04Templates)]
	variant := cell / len(c04Templates)
	a := append([]string{}, t...)
	switch {
	case variant%3 == 0:
		// every prefix length in turn
		n := 1 + (variant/3)%len(t)
		a = a[:n]
	case variant%3 == 1 && len(t) > 2:
		// one word dropped
		i := 1 + (variant/3)%(len(t)-1)
		a = append(a[:i], a[i+1:]...)
	default:
		// a value replaced by an option keyword (or an option by a value)
		i := 1 + (variant/3)%(len(t)-1)
		if os := cmdOptions[t[0]]; len(os) > 0 && r.Bool(0.6) {
			a[i] = pick(r, os)
		} else if r.Bool(0.4) {
			a[i] = pick(r, typedKeys)
		} else {
			a[i] = pick(r, advAlphabet)
		}
	}
	out := make([]B, len(a))
	for i, x := range a {
		if i == 0 {
			x = mixCase(r, x)
		}
		out[i] = B(x)
	}
	return out
}

func genC04(r *core.Rand, env *core.Env, run int) *Scenario {
	if os.Getenv("VERIF_RACE") == "1" {
		return genC04Parallel(r, env, run)
	}
	sc := &Scenario{Kind: "C04"}
	sc.Knobs = Knobs{ShardNum: pick(r, []int{1, 2, 8, 1024}), Databases: pick(r, []int{1, 2, 16}), MaxSteps: 30000, IdleBudget: 60,
		Strategy: pick(r, []int{0, 1}), Preload: c04Preload()}
	sc.Knobs.WriterPref = r.Bool(0.3)
	att := ClientProg{Name: "c0", Role: "attacker", Pipeline: 1, Chunked: r.Bool(0.1)}
	by := ClientProg{Name: "c1", Role: "bystander", Pipeline: 1}
	if r.Bool(0.25) {
		// the typed keys carry a deadline that has just passed and has not been
		// reaped yet (deadlines are whole seconds, the reaper fires a whole TTL after
		// the EXPIRE): every input then meets the lazy-expiry path of its command
		att.Steps = append(att.Steps, Step{Kind: "sleep", Sleep: 600 * time.Millisecond})
		for _, k := range typedKeys[:6] {
			if r.Bool(0.7) {
				att.Steps = append(att.Steps, Step{Kind: "cmd", Args: bs("expire", k, "1"), Tag: "probe"})
			}
		}
		att.Steps = append(att.Steps, Step{Kind: "sleep", Sleep: time.Duration(450+r.Intn(100)) * time.Millisecond})
	}
	n := 4 + r.Intn(10)
	// systematic coverage: the run index walks the (command x arity) grid
	for i := 0; i < n; i++ {
		var name string
		var arity int
		if i == 0 {
			cell := run % (len(allCommands) * 7)
			name, arity = allCommands[cell/7], cell%7
		} else {
			name, arity = pick(r, allCommands), r.Intn(7)
		}
		a := []B{B(mixCase(r, name))}
		key := pick(r, typedKeys)
		if i == 1 {
			// the second input walks the (template x cut) grid
			a = c04FromTemplate(r, run/2)
			name, arity = strings.ToLower(string(a[0])), len(a)-1
			if len(a) > 1 {
				key = string(a[1])
			}
		}
		for j := 0; j < arity && i != 1; j++ {
			var s string
			switch {
			case j == 0 && r.Bool(0.8):
				s = key
			case r.Bool(0.3) && len(cmdOptions[name]) > 0:
				s = mixCase(r, pick(r, cmdOptions[name]))
			case r.Bool(0.25):
				s = pick(r, typedKeys)
			case r.Bool(0.1):
				s = key // same key twice
			default:
				s = pick(r, advAlphabet)
			}
			a = append(a, B(s))
		}
		if ln := strings.ToLower(name); (ln == "blpop" || ln == "brpop") && arity >= 2 {
			// keep the wait bounded: an unbounded (0) or huge timeout may
			// legitimately never answer, which this oracle could not tell from a hang
			// (0 = wait forever is documented behaviour and is exercised by C09)
			to := pick(r, []string{"1", "2", "-1", "x", "", "1.5"})
			a[len(a)-1] = B(to)
		}
		if knownClassC04(env, a) && run%8 != 7 {
			continue
		}
		att.Steps = append(att.Steps, Step{Kind: "cmd", Args: a, Tag: "attack"})
		lname := strings.ToLower(name)
		if (lname == "blpop" || lname == "brpop") && arity >= 2 {
			// whatever the timeout argument means to the server, an element
			// arrives eventually: the pop must then answer
			for _, k := range a[1 : len(a)-1] {
				by.Steps = append(by.Steps, Step{Kind: "cmd", Args: bs("rpush", string(k), "wake")})
			}
			by.Steps = append(by.Steps, Step{Kind: "cmd", Args: bs("rpush", "kmissing", "wake")})
		}
		if lname == "subscribe" {
			// a subscribed connection keeps answering commands in this server
			att.Steps = append(att.Steps, Step{Kind: "cmd", Args: bs("ping"), Tag: "probe"})
			break
		}
		// probes: same key, another key, liveness
		att.Steps = append(att.Steps, Step{Kind: "cmd", Args: bs("exists", key), Tag: "probe"}, Step{Kind: "cmd", Args: bs("ping", fmt.Sprintf("p%d", i)), Tag: "probe"})
		by.Steps = append(by.Steps, Step{Kind: "cmd", Args: bs("set", fmt.Sprintf("b%d", r.Intn(3)), "v")}, Step{Kind: "cmd", Args: bs("get", key)})
	}
	late := ClientProg{Name: "c2", Role: "auditor", Pipeline: 1, Steps: []Step{{Kind: "barrier"}, {Kind: "cmd", Args: bs("ping")}, {Kind: "cmd", Args: bs("keys", "*")}}}
	for _, k := range typedKeys {
		late.Steps = append(late.Steps, Step{Kind: "cmd", Args: bs("type", k)}, Step{Kind: "cmd", Args: bs("del", k)})
	}
	sc.Clients = []ClientProg{att, by, late}
	return sc
}

// c04Class: (command, arity) — the trigger class of a liveness failure.
func c04Class(a []B) string {
	return fmt.Sprintf("%s:argc=%d", cmdClass(a), len(a)-1)
}

func knownClassC04(env *core.Env, a []B) bool {
	cl := c04Class(a)
	for sig := range env.Known {
		parts := strings.SplitN(sig, "/", 3)
		if len(parts) == 3 && parts[0] == "C04" && (parts[2] == cl || (strings.Contains(parts[2], "*") && core.Glob(parts[2], cl))) {
			return true
		}
	}
	return false
}

func judgeC04(sc *Scenario, rr *RunResult, env *core.Env) (string, string) {
	for ci, c := range rr.Clients {
		for _, op := range c.ops {
			if !op.Done {
				continue
			}
			if blockingPop(op.Args) && len(op.Args) >= 3 {
				to, err := strconv.Atoi(string(op.Args[len(op.Args)-1]))
				if err == nil && to > 0 && to < 1000 {
					lim := time.Duration(to)*time.Second + 250*time.Millisecond
					if d := op.ReturnAt.Sub(op.InvokeAt); d > lim {
						return "C04/blocking-overrun/" + c04Class(op.Args), fmt.Sprintf("client %d: %s answered after %v of simulated time, timeout is %ds", ci, cmdString(op.Args), d, to)
					}
				}
			}
		}
	}
	return "", ""
}
