package e1

import (
	"errors"
	"io"
	"net"
	"sync"
	"time"

	vsync "github.com/innovationb1ue/RedisGO/verifvsync"
)

// Conn is the simulated client connection handed to Manager.Handle.  The
// harness owns both directions: bytes appear in the inbound buffer only when
// the scheduler delivers them (fragmentation), the peer can vanish (EOF on
// read, EPIPE on write) and a stalled reader is a bounded outbound buffer.
type Conn struct {
	id   int
	name string

	mu       sync.Mutex // real, held briefly, never while blocked
	in       []byte
	inEOF    bool
	inWake   chan struct{}
	out      []byte
	closed   bool // server side called Close
	peerGone bool // client vanished: writes fail
	outLimit int  // >0: writer blocks while len(out) >= outLimit (stalled reader)
	outWake  chan struct{}
	writes   int
	// writeYield makes every Write a scheduling point (Pub/Sub fan-out).
	writeYield bool
	blockedW   int
	wDeadline  time.Time
}

func newConn(id int, name string) *Conn {
	return &Conn{id: id, name: name, inWake: make(chan struct{}, 1), outWake: make(chan struct{}, 1)}
}

type simAddr string

func (a simAddr) Network() string { return "sim" }
func (a simAddr) String() string  { return string(a) }

func (c *Conn) Read(p []byte) (int, error) {
	for {
		c.mu.Lock()
		if c.closed {
			c.mu.Unlock()
			return 0, net.ErrClosed
		}
		if len(c.in) > 0 {
			n := copy(p, c.in)
			c.in = c.in[n:]
			c.mu.Unlock()
			return n, nil
		}
		if c.inEOF {
			c.mu.Unlock()
			return 0, io.EOF
		}
		c.mu.Unlock()
		<-c.inWake
	}
}

var errPipe = errors.New("write: broken pipe")
var errTimeout = errors.New("write: i/o timeout")

func (c *Conn) Write(p []byte) (int, error) {
	if c.writeYield {
		vsync.YieldPoint()
	}
	for {
		c.mu.Lock()
		if c.closed {
			c.mu.Unlock()
			return 0, net.ErrClosed
		}
		if c.peerGone {
			c.mu.Unlock()
			return 0, errPipe
		}
		if c.outLimit > 0 && len(c.out) >= c.outLimit {
			dl := c.wDeadline
			if !dl.IsZero() && !time.Now().Before(dl) {
				c.mu.Unlock()
				return 0, errTimeout
			}
			c.blockedW++
			c.mu.Unlock()
			if dl.IsZero() {
				<-c.outWake
			} else {
				tm := time.NewTimer(time.Until(dl))
				select {
				case <-c.outWake:
					tm.Stop()
				case <-tm.C:
				}
			}
			c.mu.Lock()
			c.blockedW--
			c.mu.Unlock()
			continue
		}
		c.out = append(c.out, p...)
		c.writes++
		c.mu.Unlock()
		return len(p), nil
	}
}

func (c *Conn) Close() error {
	c.mu.Lock()
	c.closed = true
	c.mu.Unlock()
	c.wake()
	return nil
}

func (c *Conn) wake() {
	select {
	case c.inWake <- struct{}{}:
	default:
	}
	select {
	case c.outWake <- struct{}{}:
	default:
	}
}

func (c *Conn) LocalAddr() net.Addr                { return simAddr("server") }
func (c *Conn) RemoteAddr() net.Addr               { return simAddr(c.name) }
func (c *Conn) SetDeadline(t time.Time) error      { return nil }
func (c *Conn) SetReadDeadline(t time.Time) error  { return nil }
func (c *Conn) SetWriteDeadline(t time.Time) error {
	c.mu.Lock()
	c.wDeadline = t
	c.mu.Unlock()
	return nil
}

// ---- harness side ----------------------------------------------------------

func (c *Conn) deliver(b []byte) {
	c.mu.Lock()
	c.in = append(c.in, b...)
	c.mu.Unlock()
	c.wake()
}

func (c *Conn) clientClose() {
	c.mu.Lock()
	c.inEOF = true
	c.peerGone = true
	c.mu.Unlock()
	c.wake()
}

func (c *Conn) halfClose() {
	c.mu.Lock()
	c.inEOF = true
	c.mu.Unlock()
	c.wake()
}

func (c *Conn) takeOut() []byte {
	c.mu.Lock()
	b := c.out
	c.out = nil
	c.mu.Unlock()
	select {
	case c.outWake <- struct{}{}:
	default:
	}
	return b
}

func (c *Conn) serverClosed() bool {
	c.mu.Lock()
	defer c.mu.Unlock()
	return c.closed
}

func (c *Conn) writerBlocked() bool {
	c.mu.Lock()
	defer c.mu.Unlock()
	return c.blockedW > 0
}
