package e1

import (
	"encoding/json"
	"fmt"
	"time"

	"verifsim/core"
)

// C03 — each command gets exactly one well-formed RESP reply, in request order.
//
// Deeply pipelined batches (1-50 outstanding) mixing every family, payloads
// with CR/LF/NUL/empty, chunked reads; replies are re-decoded by the
// simulator's own RESP decoder and matched FIFO against the model's expected
// reply for each command: a missing, extra, split or mis-framed reply shifts
// everything after it and is caught at the first command it touches.  PINGs
// with unique tokens are interleaved as sync markers.

func init() {
	register(&PropDef{ID: "C03", Gen: genC03, Judge: judgeLockstep("C03"), Nontrivial: func(sc *Scenario, rr *RunResult) bool {
		return rr.Probes["lockstep-ops-checked"] >= 8
	}})
}

func genC03(r *core.Rand, env *core.Env, run int) *Scenario {
	sc := &Scenario{Kind: "C03"}
	sc.Knobs = Knobs{ShardNum: pick(r, []int{1, 2, 8, 1024}), Databases: 1, MaxSteps: 40000, Strategy: pick(r, []int{0, 1}), PreemptPct: 20}
	aim := run%8 == 7
	ex, _ := json.Marshal(lsExtra{Aim: aim})
	sc.Extra = ex
	fams := []familyGen{genStringCmd, genListCmd, genHashCmd, genSetCmd, genZSetCmd, genStreamCmd}
	nc := 1 + r.Intn(3)
	for ci := 0; ci < nc; ci++ {
		g := newLsGen(r, env, fmt.Sprintf("c%d:", ci), 1, aim)
		g.keys = keyPool(r, g.prefix, 2+r.Intn(4), r.Bool(0.3))
		n := 10 + r.Intn(60)
		if aim {
			n = 4 + r.Intn(10)
		}
		sync := 0
		for i := 0; i < n; i++ {
			pick(r, fams)(g)
			if r.Bool(0.1) {
				sync++
				g.try(bs("ping", fmt.Sprintf("sync-%d-%d", ci, sync)))
			}
		}
		g.try(bs("ping", "end"))
		if r.Bool(0.15) && len(g.steps) > 6 {
			// the client vanishes in the middle of a pipelined batch: what it received
			// until then must still be the in-order prefix of the replies
			cut := 3 + r.Intn(len(g.steps)-4)
			g.steps = append(append(append([]Step{}, g.steps[:cut]...), Step{Kind: "close", Tag: "abrupt"}), g.steps[cut:]...)
		}
		cp := ClientProg{Name: fmt.Sprintf("c%d", ci), Role: "owner", Steps: g.steps,
			Pipeline: pick(r, []int{1, 2, 5, 10, 50}), Chunked: r.Bool(0.5), WriteYield: r.Bool(0.5)}
		if r.Bool(0.15) && len(g.steps) > 8 {
			// a slow reader: the client stops reading while it keeps a pipelined batch
			// outstanding, its (small) socket buffer fills, seconds pass, then it
			// drains everything: still one complete reply per command, in order
			cp.OutLimit = pick(r, []int{16, 64, 256, 1024})
			at := 1 + r.Intn(len(g.steps)-6)
			batch := 2 + r.Intn(4)
			if cp.Pipeline < batch {
				cp.Pipeline = batch
			}
			var st []Step
			st = append(st, g.steps[:at]...)
			st = append(st, Step{Kind: "stall"})
			st = append(st, g.steps[at:at+batch]...)
			st = append(st, Step{Kind: "sleep", Sleep: time.Duration(pick(r, []int{100, 1500, 2500, 5000, 61000})) * time.Millisecond}, Step{Kind: "unstall"})
			st = append(st, g.steps[at+batch:]...)
			cp.Steps = st
		}
		sc.Clients = append(sc.Clients, cp)
	}
	return sc
}
