package e1

import (
	"encoding/json"
	"fmt"

	"verifsim/core"
)

// C03 — each command gets exactly one well-formed RESP reply, in request order.
//
// Deeply pipelined batches (1-50 outstanding) mixing every family, payloads
// with CR/LF/NUL/empty, chunked reads; replies are re-decoded by the
// simulator's own RESP decoder and matched FIFO against the model's expected
// reply for each command: a missing, extra, split or mis-framed reply shifts
// everything after it and is caught at the first command it touches.  PINGs
// with unique tokens are interleaved as sync markers.

func init() {
	register(&PropDef{ID: "C03", Gen: genC03, Judge: judgeLockstep("C03"), Nontrivial: func(sc *Scenario, rr *RunResult) bool {
		return rr.Probes["lockstep-ops-checked"] >= 8
	}})
}

func genC03(r *core.Rand, env *core.Env, run int) *Scenario {
	sc := &Scenario{Kind: "C03"}
	sc.Knobs = Knobs{ShardNum: pick(r, []int{1, 2, 8, 1024}), Databases: 1, MaxSteps: 40000, Strategy: pick(r, []int{0, 1}), PreemptPct: 20}
	aim := run%8 == 7
	ex, _ := json.Marshal(lsExtra{Aim: aim})
	sc.Extra = ex
	fams := []familyGen{genStringCmd, genListCmd, genHashCmd, genSetCmd, genZSetCmd, genStreamCmd}
	nc := 1 + r.Intn(3)
	for ci := 0; ci < nc; ci++ {
		g := newLsGen(r, env, fmt.Sprintf("c%d:", ci), 1, aim)
		g.keys = keyPool(r, g.prefix, 2+r.Intn(4), r.Bool(0.3))
		n := 10 + r.Intn(60)
		if aim {
			n = 4 + r.Intn(10)
		}
		sync := 0
		for i := 0; i < n; i++ {
			pick(r, fams)(g)
			if r.Bool(0.1) {
				sync++
				g.try(bs("ping", fmt.Sprintf("sync-%d-%d", ci, sync)))
			}
		}
		g.try(bs("ping", "end"))
		if r.Bool(0.15) && len(g.steps) > 6 {
			// the client vanishes in the middle of a pipelined batch: what it received
			// until then must still be the in-order prefix of the replies
			cut := 3 + r.Intn(len(g.steps)-4)
			g.steps = append(append(append([]Step{}, g.steps[:cut]...), Step{Kind: "close", Tag: "abrupt"}), g.steps[cut:]...)
		}
		sc.Clients = append(sc.Clients, ClientProg{Name: fmt.Sprintf("c%d", ci), Role: "owner", Steps: g.steps,
			Pipeline: pick(r, []int{1, 2, 5, 10, 50}), Chunked: r.Bool(0.5), WriteYield: r.Bool(0.5)})
	}
	return sc
}
