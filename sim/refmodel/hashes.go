package refmodel

import (
	"bytes"
	"fmt"
	"math"
	"sort"
	"strconv"
	"time"

	rd "verifsim/respdec"
)

func init() {
	reg("hset", cmdHSet)
	reg("hsetnx", cmdHSetNx)
	reg("hget", cmdHGet)
	reg("hmget", cmdHMGet)
	reg("hgetall", cmdHGetAll)
	reg("hkeys", cmdHKeys)
	reg("hvals", cmdHVals)
	reg("hlen", cmdHLen)
	reg("hexists", cmdHExists)
	reg("hstrlen", cmdHStrlen)
	reg("hdel", cmdHDel)
	reg("hincrby", cmdHIncrBy)
	reg("hincrbyfloat", cmdHIncrByFloat)
	reg("hrandfield", cmdHRandField)
	reg("blpop", func(m *Model, d *DB, c int, a [][]byte, now time.Time) Reply { return bpop(d, a, true) })
	reg("brpop", func(m *Model, d *DB, c int, a [][]byte, now time.Time) Reply { return bpop(d, a, false) })
}

// bpop models a blocking pop whose reply has been received: the first listed
// key holding a non-empty list is popped, otherwise nil (the caller only
// applies this once the timeout has certainly elapsed or an element was
// certainly available).
func bpop(d *DB, a [][]byte, left bool) Reply {
	if len(a) < 3 {
		return arity(lower(a[0]))
	}
	if _, ok := parseFloat(a[len(a)-1]); !ok {
		return errAny("timeout is not a float or out of range")
	}
	for _, k := range a[1 : len(a)-1] {
		e, exists, isList := d.list(string(k))
		if !exists {
			continue
		}
		if !isList {
			return wrongType()
		}
		var v []byte
		if left {
			v, e.L = e.L[0], e.L[1:]
		} else {
			v, e.L = e.L[len(e.L)-1], e.L[:len(e.L)-1]
		}
		d.dropIfEmpty(string(k))
		return array([]rd.Value{rd.BulkB(k), rd.BulkB(v)})
	}
	return nilReply()
}

func (d *DB) hash(key string) (*Entry, bool, bool) {
	e, ok := d.Keys[key]
	if !ok {
		return nil, false, true
	}
	return e, true, e.T == THash
}

func cmdHSet(m *Model, d *DB, conn int, a [][]byte, now time.Time) Reply {
	if len(a) < 4 || len(a)%2 != 0 {
		return arity("hset")
	}
	key := string(a[1])
	e, exists, isH := d.hash(key)
	if exists && !isH {
		return wrongType()
	}
	if !exists {
		e = &Entry{T: THash, H: map[string][]byte{}}
		d.Keys[key] = e
	}
	added := int64(0)
	for i := 2; i < len(a); i += 2 {
		if _, ok := e.H[string(a[i])]; !ok {
			added++
		}
		e.H[string(a[i])] = append([]byte{}, a[i+1]...)
	}
	return integer(added)
}

func cmdHSetNx(m *Model, d *DB, conn int, a [][]byte, now time.Time) Reply {
	if len(a) != 4 {
		return arity("hsetnx")
	}
	key := string(a[1])
	e, exists, isH := d.hash(key)
	if exists && !isH {
		return wrongType()
	}
	if exists {
		if _, ok := e.H[string(a[2])]; ok {
			return integer(0)
		}
	} else {
		e = &Entry{T: THash, H: map[string][]byte{}}
		d.Keys[key] = e
	}
	e.H[string(a[2])] = append([]byte{}, a[3]...)
	return integer(1)
}

func cmdHGet(m *Model, d *DB, conn int, a [][]byte, now time.Time) Reply {
	if len(a) != 3 {
		return arity("hget")
	}
	e, exists, isH := d.hash(string(a[1]))
	if !exists {
		return nilReply()
	}
	if !isH {
		return wrongType()
	}
	v, ok := e.H[string(a[2])]
	if !ok {
		return nilReply()
	}
	return bulk(v)
}

func cmdHMGet(m *Model, d *DB, conn int, a [][]byte, now time.Time) Reply {
	if len(a) < 3 {
		return arity("hmget")
	}
	e, exists, isH := d.hash(string(a[1]))
	if exists && !isH {
		return wrongType()
	}
	out := make([]rd.Value, 0, len(a)-2)
	for _, f := range a[2:] {
		if exists {
			if v, ok := e.H[string(f)]; ok {
				out = append(out, rd.BulkB(v))
				continue
			}
		}
		out = append(out, rd.Nil())
	}
	return array(out)
}

func cmdHGetAll(m *Model, d *DB, conn int, a [][]byte, now time.Time) Reply {
	if len(a) != 2 {
		return arity("hgetall")
	}
	e, exists, isH := d.hash(string(a[1]))
	if !exists {
		return array(nil)
	}
	if !isH {
		return wrongType()
	}
	return unorderedPairs(e.H)
}

func cmdHKeys(m *Model, d *DB, conn int, a [][]byte, now time.Time) Reply {
	if len(a) != 2 {
		return arity("hkeys")
	}
	e, exists, isH := d.hash(string(a[1]))
	if !exists {
		return array(nil)
	}
	if !isH {
		return wrongType()
	}
	var ks [][]byte
	for f := range e.H {
		ks = append(ks, []byte(f))
	}
	return unordered(ks)
}

func cmdHVals(m *Model, d *DB, conn int, a [][]byte, now time.Time) Reply {
	if len(a) != 2 {
		return arity("hvals")
	}
	e, exists, isH := d.hash(string(a[1]))
	if !exists {
		return array(nil)
	}
	if !isH {
		return wrongType()
	}
	var vs [][]byte
	for _, v := range e.H {
		vs = append(vs, v)
	}
	return unordered(vs)
}

func cmdHLen(m *Model, d *DB, conn int, a [][]byte, now time.Time) Reply {
	if len(a) != 2 {
		return arity("hlen")
	}
	e, exists, isH := d.hash(string(a[1]))
	if !exists {
		return integer(0)
	}
	if !isH {
		return wrongType()
	}
	return integer(int64(len(e.H)))
}

func cmdHExists(m *Model, d *DB, conn int, a [][]byte, now time.Time) Reply {
	if len(a) != 3 {
		return arity("hexists")
	}
	e, exists, isH := d.hash(string(a[1]))
	if !exists {
		return integer(0)
	}
	if !isH {
		return wrongType()
	}
	if _, ok := e.H[string(a[2])]; ok {
		return integer(1)
	}
	return integer(0)
}

func cmdHStrlen(m *Model, d *DB, conn int, a [][]byte, now time.Time) Reply {
	if len(a) != 3 {
		return arity("hstrlen")
	}
	e, exists, isH := d.hash(string(a[1]))
	if !exists {
		return integer(0)
	}
	if !isH {
		return wrongType()
	}
	return integer(int64(len(e.H[string(a[2])])))
}

func cmdHDel(m *Model, d *DB, conn int, a [][]byte, now time.Time) Reply {
	if len(a) < 3 {
		return arity("hdel")
	}
	key := string(a[1])
	e, exists, isH := d.hash(key)
	if !exists {
		return integer(0)
	}
	if !isH {
		return wrongType()
	}
	n := int64(0)
	for _, f := range a[2:] {
		if _, ok := e.H[string(f)]; ok {
			delete(e.H, string(f))
			n++
		}
	}
	d.dropIfEmpty(key)
	return integer(n)
}

func cmdHIncrBy(m *Model, d *DB, conn int, a [][]byte, now time.Time) Reply {
	if len(a) != 4 {
		return arity("hincrby")
	}
	inc, ok := parseInt(a[3])
	if !ok {
		return errAny("value is not an integer or out of range")
	}
	key := string(a[1])
	e, exists, isH := d.hash(key)
	if exists && !isH {
		return wrongType()
	}
	var cur int64
	if exists {
		if v, ok := e.H[string(a[2])]; ok {
			c, ok := parseInt(v)
			if !ok {
				return errAny("hash value is not an integer")
			}
			cur = c
		}
	}
	if (inc > 0 && cur > math.MaxInt64-inc) || (inc < 0 && cur < math.MinInt64-inc) {
		return errAny("increment or decrement would overflow")
	}
	cur += inc
	if !exists {
		e = &Entry{T: THash, H: map[string][]byte{}}
		d.Keys[key] = e
	}
	e.H[string(a[2])] = []byte(strconv.FormatInt(cur, 10))
	return integer(cur)
}

func cmdHIncrByFloat(m *Model, d *DB, conn int, a [][]byte, now time.Time) Reply {
	if len(a) != 4 {
		return arity("hincrbyfloat")
	}
	inc, ok := parseFloat(a[3])
	if !ok {
		return errAny("value is not a valid float")
	}
	key := string(a[1])
	e, exists, isH := d.hash(key)
	if exists && !isH {
		return wrongType()
	}
	var cur float64
	if exists {
		if v, ok := e.H[string(a[2])]; ok {
			c, ok := parseFloat(v)
			if !ok {
				return errAny("hash value is not a float")
			}
			cur = c
		}
	}
	cur += inc
	if math.IsNaN(cur) || math.IsInf(cur, 0) {
		return errAny("increment would produce NaN or Infinity")
	}
	return Reply{Desc: "bulk float " + fmtFloat(cur), Check: func(got rd.Value) (bool, string) {
		ok, why := floatReply(cur).Check(got)
		if !ok {
			return false, why
		}
		if !exists {
			e = &Entry{T: THash, H: map[string][]byte{}}
			d.Keys[key] = e
		}
		e.H[string(a[2])] = append([]byte{}, got.Str...)
		return true, ""
	}}
}

func cmdHRandField(m *Model, d *DB, conn int, a [][]byte, now time.Time) Reply {
	if len(a) < 2 || len(a) > 4 {
		return arity("hrandfield")
	}
	withValues := false
	var count int64
	hasCount := len(a) >= 3
	if hasCount {
		c, ok := parseInt(a[2])
		if !ok {
			return errAny("value is not an integer or out of range")
		}
		count = c
	}
	if len(a) == 4 {
		if lower(a[3]) != "withvalues" {
			return errAny("syntax error")
		}
		withValues = true
	}
	e, exists, isH := d.hash(string(a[1]))
	if exists && !isH {
		return wrongType()
	}
	if !hasCount {
		if !exists {
			return nilReply()
		}
		return Reply{Desc: "one existing field (bulk)", Check: func(got rd.Value) (bool, string) {
			if got.StringLike() {
				if _, ok := e.H[string(got.Str)]; ok {
					return true, ""
				}
			}
			return false, "expected one existing field as a bulk string, got " + describe(got)
		}}
	}
	if !exists {
		return array(nil)
	}
	n := int64(len(e.H))
	var wantLen int64
	distinct := count >= 0
	if count >= 0 {
		wantLen = count
		if wantLen > n {
			wantLen = n
		}
	} else {
		wantLen = -count
	}
	desc := fmt.Sprintf("%d existing fields (distinct=%v, withvalues=%v)", wantLen, distinct, withValues)
	return Reply{Desc: desc, Check: func(got rd.Value) (bool, string) {
		if got.Kind != rd.Array {
			return false, "expected " + desc + ", got " + describe(got)
		}
		step := 1
		if withValues {
			step = 2
		}
		if int64(len(got.Arr)) != wantLen*int64(step) {
			return false, "expected " + desc + ", got " + describe(got)
		}
		seen := map[string]bool{}
		for i := 0; i < len(got.Arr); i += step {
			f := got.Arr[i]
			if !f.StringLike() {
				return false, "expected " + desc + ", got " + describe(got)
			}
			v, ok := e.H[string(f.Str)]
			if !ok {
				return false, fmt.Sprintf("field %q is not in the hash; got %s", f.Str, describe(got))
			}
			if distinct && seen[string(f.Str)] {
				return false, fmt.Sprintf("field %q returned twice with a positive count; got %s", f.Str, describe(got))
			}
			seen[string(f.Str)] = true
			if withValues && (!got.Arr[i+1].StringLike() || !bytes.Equal(got.Arr[i+1].Str, v)) {
				return false, fmt.Sprintf("field %q paired with a wrong value; got %s", f.Str, describe(got))
			}
		}
		return true, ""
	}}
}

var _ = sort.Strings
