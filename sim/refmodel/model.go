// Package refmodel is a small sequential model of the Redis commands the
// properties name, written from the Redis command reference (7.x semantics).
// It holds plain Go maps and slices and shares nothing with /repo.
//
// Comparison rules (DESIGN.md §2.3): values byte-exact; integers exact; nil vs
// empty distinguished; unordered replies as multisets; random-choice commands
// relational; scores compared numerically; error replies by class only (error
// vs non-error, WRONGTYPE prefix where the reference says WRONGTYPE); simple
// vs bulk framing not compared here.
package refmodel

import (
	"bytes"
	"fmt"
	"math"
	"sort"
	"strconv"
	"strings"
	"time"

	rd "verifsim/respdec"
)

type Type int

const (
	TString Type = iota
	TList
	THash
	TSet
	TZSet
	TStream
)

func (t Type) String() string {
	return [...]string{"string", "list", "hash", "set", "zset", "stream"}[t]
}

type StreamEntry struct {
	MS, Seq uint64
	Fields  [][]byte
}

type Entry struct {
	T   Type
	S   []byte
	L   [][]byte
	H   map[string][]byte
	Set map[string]struct{}
	Z   map[string]float64
	X   []StreamEntry
	// stream: last generated id survives deletion of entries
	XLastMS, XLastSeq uint64
	XHasLast          bool

	HasTTL bool
	// Exact is the instant the reference expires the key; [WinLo,WinHi) is the
	// interval in which an implementation with one-second clock granularity may
	// make it disappear.
	Exact, WinLo, WinHi time.Time
	// How and when the deadline was attached (relative time-to-live only): class
	// is the attaching command form ("expire", "setex", "set-ex", "set-px"), Rel the
	// time-to-live, AttachAt the instant.  Whatever instant inside the window an
	// implementation uses as *the* deadline, it is a non-decreasing function of
	// the attach instant for one form and one time-to-live: see DB.Gone.
	DClass   string
	DRel     time.Duration
	AttachAt time.Time
}

// goneRec remembers that a key whose deadline was attached at AttachAt (form
// Class, time-to-live Rel) was found gone at GoneAt.
type goneRec struct {
	Class    string
	Rel      time.Duration
	AttachAt time.Time
	GoneAt   time.Time
}

func (e *Entry) clone() *Entry {
	c := *e
	c.S = append([]byte(nil), e.S...)
	if e.L != nil {
		c.L = make([][]byte, len(e.L))
		copy(c.L, e.L)
	}
	if e.H != nil {
		c.H = make(map[string][]byte, len(e.H))
		for k, v := range e.H {
			c.H[k] = v
		}
	}
	if e.Set != nil {
		c.Set = make(map[string]struct{}, len(e.Set))
		for k := range e.Set {
			c.Set[k] = struct{}{}
		}
	}
	if e.Z != nil {
		c.Z = make(map[string]float64, len(e.Z))
		for k, v := range e.Z {
			c.Z[k] = v
		}
	}
	if e.X != nil {
		c.X = append([]StreamEntry(nil), e.X...)
	}
	return &c
}

type DB struct {
	Keys map[string]*Entry
	// Gone: expiries observed so far (one deadline per key, the same for every
	// command: a key whose deadline was attached no later, in the same form and
	// with the same time-to-live, as that of a key already found gone cannot be
	// seen alive afterwards).
	Gone []goneRec
}

func (d *DB) clone() *DB {
	c := &DB{Keys: make(map[string]*Entry, len(d.Keys)), Gone: append([]goneRec(nil), d.Gone...)}
	for k, v := range d.Keys {
		c.Keys[k] = v.clone()
	}
	return c
}

// Model is the whole server: numbered databases and the per-connection
// selection.
type Model struct {
	DBs      []*DB
	Selected map[int]int
	// GlobMatch judges KEYS patterns (independent matcher).
	// Opt: tolerated reference ambiguities.
	Opt Options
	// NowHi, when set, is the latest instant at which the command being applied
	// can have executed (its reply instant); commands that read the clock accept
	// any instant in [now, NowHi].
	NowHi time.Time
	// Alt holds the other hypotheses that still explain every reply so far.
	Alt []*Model
	// Overflow: more than 64 hypotheses were alive at some point and the excess
	// was dropped; a later mismatch is then inconclusive.
	Overflow bool
}

type Options struct {
	// SetOverwritesOtherTypes: C01's last sentence says WRONGTYPE, the command
	// reference says SET overwrites; both accepted when true.
	AcceptSetWrongType bool
}

func New(ndb int) *Model {
	m := &Model{Selected: map[int]int{}, Opt: Options{AcceptSetWrongType: true}}
	for i := 0; i < ndb; i++ {
		m.DBs = append(m.DBs, &DB{Keys: map[string]*Entry{}})
	}
	return m
}

func (m *Model) Clone() *Model {
	c := &Model{Selected: map[int]int{}, Opt: m.Opt, NowHi: m.NowHi, Overflow: m.Overflow}
	for _, a := range m.Alt {
		c.Alt = append(c.Alt, a.snapshot())
	}
	for _, d := range m.DBs {
		c.DBs = append(c.DBs, d.clone())
	}
	for k, v := range m.Selected {
		c.Selected[k] = v
	}
	return c
}

func (m *Model) db(conn int) *DB { return m.DBs[m.Selected[conn]] }

// Reply is what the model expects; Check judges an observed reply and, for
// relational commands, finalises the model state from the observed choice.
type Reply struct {
	Desc  string
	Check func(got rd.Value) (bool, string)
}

func describe(v rd.Value) string { return v.String() }

func strLikeEq(got rd.Value, want []byte) bool {
	return got.StringLike() && bytes.Equal(got.Str, want)
}

// valueMatches: structural comparison ignoring simple/bulk framing and the two
// spellings of nil.
func valueMatches(got, want rd.Value) bool {
	switch want.Kind {
	case rd.Simple, rd.Bulk:
		return strLikeEq(got, want.Str)
	case rd.NilBulk, rd.NilArray:
		return got.IsNil()
	case rd.Integer:
		return got.Kind == rd.Integer && got.Int == want.Int
	case rd.Error:
		return got.Kind == rd.Error
	case rd.Array:
		if got.Kind != rd.Array || len(got.Arr) != len(want.Arr) {
			return false
		}
		for i := range want.Arr {
			if !valueMatches(got.Arr[i], want.Arr[i]) {
				return false
			}
		}
		return true
	}
	return false
}

func exact(v rd.Value) Reply {
	return Reply{Desc: describe(v), Check: func(got rd.Value) (bool, string) {
		if valueMatches(got, v) {
			return true, ""
		}
		return false, "expected " + describe(v) + ", got " + describe(got)
	}}
}

func status(s string) Reply   { return exact(rd.Status_(s)) }
func integer(i int64) Reply   { return exact(rd.Int(i)) }
func bulk(b []byte) Reply     { return exact(rd.BulkB(b)) }
func nilReply() Reply         { return exact(rd.Nil()) }
func array(vs []rd.Value) Reply { return exact(rd.Arr(vs...)) }

func bulks(bs [][]byte) []rd.Value {
	out := make([]rd.Value, len(bs))
	for i, b := range bs {
		out[i] = rd.BulkB(b)
	}
	return out
}

// errAny: the reference answers with an error; its text is not compared.
func errAny(why string) Reply {
	return Reply{Desc: "error (" + why + ")", Check: func(got rd.Value) (bool, string) {
		if got.Kind == rd.Error {
			return true, ""
		}
		return false, "expected an error reply (" + why + "), got " + describe(got)
	}}
}

func wrongType() Reply {
	return Reply{Desc: "WRONGTYPE error", Check: func(got rd.Value) (bool, string) {
		if got.Kind == rd.Error && strings.HasPrefix(string(got.Str), "WRONGTYPE") {
			return true, ""
		}
		return false, "expected a WRONGTYPE error, got " + describe(got)
	}}
}

// unordered: an array whose elements may come in any order (multiset equality).
func unordered(want [][]byte) Reply {
	w := make([]string, len(want))
	for i, b := range want {
		w[i] = string(b)
	}
	sort.Strings(w)
	desc := fmt.Sprintf("array (any order) of %q", w)
	return Reply{Desc: desc, Check: func(got rd.Value) (bool, string) {
		if got.Kind != rd.Array || len(got.Arr) != len(w) {
			return false, "expected " + desc + ", got " + describe(got)
		}
		g := make([]string, len(got.Arr))
		for i, e := range got.Arr {
			if !e.StringLike() {
				return false, "expected " + desc + ", got " + describe(got)
			}
			g[i] = string(e.Str)
		}
		sort.Strings(g)
		for i := range w {
			if g[i] != w[i] {
				return false, "expected " + desc + ", got " + describe(got)
			}
		}
		return true, ""
	}}
}

// unorderedPairs: flat array of (field,value) pairs in any pair order.
func unorderedPairs(h map[string][]byte) Reply {
	desc := fmt.Sprintf("flat field/value array (any order) of %d pairs", len(h))
	return Reply{Desc: desc, Check: func(got rd.Value) (bool, string) {
		if got.Kind != rd.Array || len(got.Arr) != 2*len(h) {
			return false, "expected " + desc + ", got " + describe(got)
		}
		seen := map[string]bool{}
		for i := 0; i < len(got.Arr); i += 2 {
			f, v := got.Arr[i], got.Arr[i+1]
			if !f.StringLike() || !v.StringLike() {
				return false, "expected " + desc + ", got " + describe(got)
			}
			want, ok := h[string(f.Str)]
			if !ok || seen[string(f.Str)] || !bytes.Equal(want, v.Str) {
				return false, fmt.Sprintf("pair %q=%q not in the hash (or repeated); got %s", f.Str, v.Str, describe(got))
			}
			seen[string(f.Str)] = true
		}
		return true, ""
	}}
}

func either(a, b Reply) Reply {
	return Reply{Desc: a.Desc + " | " + b.Desc, Check: func(got rd.Value) (bool, string) {
		if ok, _ := a.Check(got); ok {
			return true, ""
		}
		if ok, _ := b.Check(got); ok {
			return true, ""
		}
		return false, "expected " + a.Desc + " or " + b.Desc + ", got " + describe(got)
	}}
}

// floatReply: a bulk string that parses to the given double.
func floatReply(f float64) Reply {
	desc := "bulk float " + fmtFloat(f)
	return Reply{Desc: desc, Check: func(got rd.Value) (bool, string) {
		if !got.StringLike() {
			return false, "expected " + desc + ", got " + describe(got)
		}
		g, err := strconv.ParseFloat(string(got.Str), 64)
		if err != nil || !(g == f || (math.IsNaN(g) && math.IsNaN(f))) {
			return false, "expected " + desc + ", got " + describe(got)
		}
		return true, ""
	}}
}

func fmtFloat(f float64) string {
	if math.IsInf(f, 1) {
		return "inf"
	}
	if math.IsInf(f, -1) {
		return "-inf"
	}
	return strconv.FormatFloat(f, 'f', -1, 64)
}

// parseInt follows the reference's strict integer syntax (no spaces, no '+',
// no leading zeros issue ignored).
func parseInt(b []byte) (int64, bool) {
	s := string(b)
	if s == "" || len(s) > 20 {
		return 0, false
	}
	if s[0] == '+' || s[0] == ' ' || s[len(s)-1] == ' ' {
		return 0, false
	}
	v, err := strconv.ParseInt(s, 10, 64)
	if err != nil {
		return 0, false
	}
	// reject "-0", "01": Redis string2ll rejects leading zeros and "-0"
	if strconv.FormatInt(v, 10) != s {
		return 0, false
	}
	return v, true
}

func parseFloat(b []byte) (float64, bool) {
	s := string(b)
	if s == "" || strings.ContainsAny(s, " \t\n") {
		return 0, false
	}
	f, err := strconv.ParseFloat(s, 64)
	if err != nil || math.IsNaN(f) {
		// ParseFloat returns ±Inf with ErrRange for overflow: the reference rejects
		return 0, false
	}
	return f, true
}

func lower(b []byte) string { return strings.ToLower(string(b)) }

// ---- expiry ----------------------------------------------------------------

// alive reports the key's entry under the hypothesis chosen by deadKeys: a key
// inside its expiry window is alive unless the hypothesis says it has gone.
func (d *DB) purge(now time.Time, dead map[string]bool) {
	for k, e := range d.Keys {
		if !e.HasTTL {
			continue
		}
		if !now.Before(e.WinHi) || (dead[k] && !now.Before(e.WinLo)) {
			d.noteGone(e, now)
			delete(d.Keys, k)
		}
	}
	// one deadline per key, whoever asks: a key attached no later (same form, same
	// time-to-live) than one already found gone has gone as well
	for changed := true; changed; {
		changed = false
		for k, e := range d.Keys {
			if e.HasTTL && e.DClass != "" && !now.Before(e.WinLo) && d.goneBefore(e, now) {
				d.noteGone(e, now)
				delete(d.Keys, k)
				changed = true
			}
		}
	}
}

func (d *DB) noteGone(e *Entry, now time.Time) {
	if e.DClass == "" || !now.Before(e.WinHi) {
		return // absolute deadline, or outside any window: nothing to learn from it
	}
	d.Gone = append(d.Gone, goneRec{Class: e.DClass, Rel: e.DRel, AttachAt: e.AttachAt, GoneAt: now})
	if len(d.Gone) > 32 {
		d.Gone = d.Gone[len(d.Gone)-32:]
	}
}

func (d *DB) goneBefore(e *Entry, now time.Time) bool {
	for _, g := range d.Gone {
		if g.Class == e.DClass && g.Rel == e.DRel && !g.AttachAt.Before(e.AttachAt) && !g.GoneAt.After(now) {
			return true
		}
	}
	return false
}

// AmbiguousKeys lists keys of the connection's database whose expiry window
// contains now (sorted).
func (m *Model) AmbiguousKeys(conn int, now time.Time) []string {
	var out []string
	for k, e := range m.db(conn).Keys {
		if e.HasTTL && !now.Before(e.WinLo) && now.Before(e.WinHi) {
			out = append(out, k)
		}
	}
	sort.Strings(out)
	return out
}

func (e *Entry) setDeadline(exact, lo, hi time.Time) {
	e.HasTTL = true
	e.Exact, e.WinLo, e.WinHi = exact, lo, hi
	e.DClass, e.DRel, e.AttachAt = "", 0, time.Time{}
}

// keepDeadline copies old's deadline (KEEPTTL, RENAME) with its provenance.
func (e *Entry) keepDeadline(old *Entry) {
	e.setDeadline(old.Exact, old.WinLo, old.WinHi)
	e.DClass, e.DRel, e.AttachAt = old.DClass, old.DRel, old.AttachAt
}

func floorSec(t time.Time) time.Time { return t.Truncate(time.Second) }

// deadlineIn attaches "ttl from now" the way the property reads it.
func (e *Entry) expireIn(now time.Time, ttl time.Duration, class string) {
	exact := now.Add(ttl)
	lo := floorSec(now).Add(ttl.Truncate(time.Second))
	hi := floorSec(exact).Add(time.Second)
	e.setDeadline(exact, lo, hi)
	e.DClass, e.DRel, e.AttachAt = class, ttl, now
}

func (e *Entry) expireAt(unix int64) {
	t := time.Unix(unix, 0)
	e.setDeadline(t, t, t.Add(time.Second))
}

// ---- dispatch --------------------------------------------------------------

type handler func(m *Model, d *DB, conn int, a [][]byte, now time.Time) Reply

var table = map[string]handler{}

func reg(name string, h handler) { table[name] = h }

// Known reports whether the model covers the command.
func Known(name string) bool { _, ok := table[strings.ToLower(name)]; return ok }

// Apply runs one command against the model and judges the observed reply.
//
// A key inside its one-second expiry window may or may not have gone yet, and
// the reply does not always tell which.  The model therefore keeps every
// hypothesis (a set of alternative states, Alt) that explains all replies so
// far: a command is applied to each hypothesis under each "these keys have
// gone" choice for the ambiguous keys it touches; hypotheses contradicted by
// the reply die.  No surviving hypothesis = mismatch.  This is exactly the
// window oracle of DESIGN C06: visible before the window, gone after it, and
// monotone inside it (a hypothesis in which the key has gone never gets it back).
func (m *Model) Apply(conn int, args [][]byte, now time.Time, got rd.Value) (bool, string) {
	if len(args) == 0 {
		return true, ""
	}
	name := lower(args[0])
	h, ok := table[name]
	if !ok {
		if got.Kind == rd.Error {
			return true, ""
		}
		return false, "unknown command must be answered with an error, got " + describe(got)
	}
	hyps := append([]*Model{m.snapshot()}, m.Alt...)
	var next []*Model
	seen := map[string]bool{}
	firstWhy := ""
	for _, hyp := range hyps {
		amb := hyp.touchedAmbiguous(conn, args, now)
		nh := 1 << len(amb)
		if len(amb) > 3 {
			nh = 8
		}
		for hmask := 0; hmask < nh; hmask++ {
			dead := map[string]bool{}
			for i, k := range amb {
				if hmask&(1<<i) != 0 {
					dead[k] = true
				}
			}
			c := hyp.snapshot()
			c.NowHi = m.NowHi
			d := c.db(conn)
			d.purge(now, dead)
			r := h(c, d, conn, args, now)
			ok, why := r.Check(got)
			if !ok && r.Desc == "WRONGTYPE error" && got.Kind == rd.Error {
				// The reference checks some arguments before it looks at the key.
				// When the command is also wrong for an argument-level reason (it
				// errors even with the key absent) either error is acceptable.
				c2 := hyp.snapshot()
				d2 := c2.db(conn)
				d2.purge(now, dead)
				for _, a := range args[1:] {
					delete(d2.Keys, string(a))
				}
				if r2 := h(c2, d2, conn, args, now); strings.HasPrefix(r2.Desc, "error") {
					ok = true
				}
			}
			if !ok {
				if firstWhy == "" {
					firstWhy = why
				}
				continue
			}
			sig := c.stateKey()
			if !seen[sig] {
				seen[sig] = true
				next = append(next, c)
			}
		}
	}
	if len(next) == 0 {
		return false, firstWhy
	}
	if len(next) > 64 {
		next = next[:64]
		m.Overflow = true
	}
	m.adopt(next[0])
	m.Alt = next[1:]
	return true, ""
}

// snapshot copies the primary state only (no alternatives).
func (m *Model) snapshot() *Model {
	c := &Model{Selected: map[int]int{}, Opt: m.Opt, NowHi: m.NowHi}
	for _, d := range m.DBs {
		c.DBs = append(c.DBs, d.clone())
	}
	for k, v := range m.Selected {
		c.Selected[k] = v
	}
	return c
}

func (m *Model) adopt(c *Model) {
	m.DBs, m.Selected = c.DBs, c.Selected
}

// stateKey identifies a hypothesis: contents plus deadlines.
func (m *Model) stateKey() string {
	var sb strings.Builder
	for i, d := range m.DBs {
		keys := make([]string, 0, len(d.Keys))
		for k := range d.Keys {
			keys = append(keys, k)
		}
		sort.Strings(keys)
		fmt.Fprintf(&sb, "db%d:", i)
		for _, g := range d.Gone {
			fmt.Fprintf(&sb, "gone(%s,%d,%d,%d)", g.Class, g.Rel, g.AttachAt.UnixNano(), g.GoneAt.UnixNano())
		}
		for _, k := range keys {
			e := d.Keys[k]
			sb.WriteString(strconv.Quote(k))
			sb.WriteString(e.dump())
			if e.HasTTL {
				fmt.Fprintf(&sb, "@%d", e.Exact.UnixNano())
			}
			if e.T == TStream {
				fmt.Fprintf(&sb, "^%d-%d", e.XLastMS, e.XLastSeq)
			}
			sb.WriteByte(';')
		}
	}
	sel := make([]int, 0, len(m.Selected))
	for c := range m.Selected {
		sel = append(sel, c)
	}
	sort.Ints(sel)
	for _, c := range sel {
		fmt.Fprintf(&sb, "s%d=%d", c, m.Selected[c])
	}
	return sb.String()
}

// Expected describes what the model would expect (alive hypothesis) without
// changing the model; used for messages and by generators.
func (m *Model) Expected(conn int, args [][]byte, now time.Time) string {
	if len(args) == 0 {
		return ""
	}
	h, ok := table[lower(args[0])]
	if !ok {
		return "error (unknown command)"
	}
	c := m.Clone()
	d := c.db(conn)
	d.purge(now, nil)
	return h(c, d, conn, args, now).Desc
}

// Exec applies the command assuming the reference's own reply (used to build
// prior states and by generators); relational commands pick deterministically.
func (m *Model) Exec(conn int, args [][]byte, now time.Time) {
	if len(args) == 0 {
		return
	}
	h, ok := table[lower(args[0])]
	if !ok {
		return
	}
	d := m.db(conn)
	d.purge(now, nil)
	h(m, d, conn, args, now)
}

func (m *Model) touchedAmbiguous(conn int, args [][]byte, now time.Time) []string {
	amb := m.AmbiguousKeys(conn, now)
	if len(amb) == 0 {
		return nil
	}
	name := lower(args[0])
	if name == "keys" {
		return amb
	}
	var out []string
	for _, k := range amb {
		for _, a := range args[1:] {
			if string(a) == k {
				out = append(out, k)
				break
			}
		}
	}
	return out
}

// Dump is the canonical dump in the same format as memdb.VerifDump(false).
func (m *Model) Dump(dbi int, now time.Time) []string {
	d := m.DBs[dbi]
	keys := make([]string, 0, len(d.Keys))
	for k, e := range d.Keys {
		if e.HasTTL && !now.Before(e.WinHi) {
			continue
		}
		keys = append(keys, k)
	}
	sort.Strings(keys)
	out := make([]string, 0, len(keys))
	for _, k := range keys {
		out = append(out, strconv.Quote(k)+" "+d.Keys[k].dump())
	}
	return out
}

// DumpDeadlines is Dump plus each key's deadline (state equality for history
// checking must tell two keyspaces apart that differ only in a deadline).
func (m *Model) DumpDeadlines(dbi int) []string {
	d := m.DBs[dbi]
	keys := make([]string, 0, len(d.Keys))
	for k := range d.Keys {
		keys = append(keys, k)
	}
	sort.Strings(keys)
	out := make([]string, 0, len(keys))
	for _, k := range keys {
		e := d.Keys[k]
		s := strconv.Quote(k) + " " + e.dump()
		if e.HasTTL {
			s += " deadline=" + strconv.FormatInt(e.WinLo.UnixNano(), 10) + ".." + strconv.FormatInt(e.WinHi.UnixNano(), 10)
		}
		out = append(out, s)
	}
	return out
}

func (e *Entry) dump() string {
	q := func(b []byte) string { return strconv.Quote(string(b)) }
	switch e.T {
	case TString:
		return "string " + q(e.S)
	case TList:
		s := make([]string, len(e.L))
		for i, v := range e.L {
			s[i] = q(v)
		}
		return "list [" + strings.Join(s, " ") + "]"
	case THash:
		fs := make([]string, 0, len(e.H))
		for f := range e.H {
			fs = append(fs, f)
		}
		sort.Strings(fs)
		for i, f := range fs {
			fs[i] = strconv.Quote(f) + ":" + q(e.H[f])
		}
		return "hash {" + strings.Join(fs, " ") + "}"
	case TSet:
		ms := make([]string, 0, len(e.Set))
		for f := range e.Set {
			ms = append(ms, strconv.Quote(f))
		}
		sort.Strings(ms)
		return "set {" + strings.Join(ms, " ") + "}"
	case TZSet:
		type p struct {
			n string
			s float64
		}
		var ps []p
		for n, s := range e.Z {
			ps = append(ps, p{n, s})
		}
		sort.Slice(ps, func(i, j int) bool {
			if ps[i].s != ps[j].s {
				return ps[i].s < ps[j].s
			}
			return ps[i].n < ps[j].n
		})
		ss := make([]string, len(ps))
		for i, x := range ps {
			ss[i] = strconv.Quote(x.n) + "=" + strconv.FormatFloat(x.s, 'g', -1, 64)
		}
		return "zset [" + strings.Join(ss, " ") + "]"
	case TStream:
		ss := make([]string, len(e.X))
		for i, x := range e.X {
			fs := make([]string, len(x.Fields))
			for j, f := range x.Fields {
				fs[j] = string(f)
			}
			ss[i] = fmt.Sprintf("%d-%d=%s", x.MS, x.Seq, strconv.Quote(strings.Join(fs, "\x00")))
		}
		return "stream [" + strings.Join(ss, " ") + "]"
	}
	return "?"
}
