package refmodel

import (
	"fmt"
	"sort"
	"time"

	rd "verifsim/respdec"
)

func init() {
	reg("sadd", cmdSAdd)
	reg("srem", cmdSRem)
	reg("sismember", cmdSIsMember)
	reg("scard", cmdSCard)
	reg("smembers", cmdSMembers)
	reg("smove", cmdSMove)
	reg("spop", cmdSPop)
	reg("srandmember", cmdSRandMember)
	reg("sunion", func(m *Model, d *DB, c int, a [][]byte, now time.Time) Reply { return setAlgebra(d, a, "union", false) })
	reg("sinter", func(m *Model, d *DB, c int, a [][]byte, now time.Time) Reply { return setAlgebra(d, a, "inter", false) })
	reg("sdiff", func(m *Model, d *DB, c int, a [][]byte, now time.Time) Reply { return setAlgebra(d, a, "diff", false) })
	reg("sunionstore", func(m *Model, d *DB, c int, a [][]byte, now time.Time) Reply { return setAlgebra(d, a, "union", true) })
	reg("sinterstore", func(m *Model, d *DB, c int, a [][]byte, now time.Time) Reply { return setAlgebra(d, a, "inter", true) })
	reg("sdiffstore", func(m *Model, d *DB, c int, a [][]byte, now time.Time) Reply { return setAlgebra(d, a, "diff", true) })
}

func (d *DB) set(key string) (*Entry, bool, bool) {
	e, ok := d.Keys[key]
	if !ok {
		return nil, false, true
	}
	return e, true, e.T == TSet
}

func setMembers(e *Entry) [][]byte {
	ms := make([]string, 0, len(e.Set))
	for k := range e.Set {
		ms = append(ms, k)
	}
	sort.Strings(ms)
	out := make([][]byte, len(ms))
	for i, s := range ms {
		out[i] = []byte(s)
	}
	return out
}

func cmdSAdd(m *Model, d *DB, conn int, a [][]byte, now time.Time) Reply {
	if len(a) < 3 {
		return arity("sadd")
	}
	key := string(a[1])
	e, exists, isS := d.set(key)
	if exists && !isS {
		return wrongType()
	}
	if !exists {
		e = &Entry{T: TSet, Set: map[string]struct{}{}}
		d.Keys[key] = e
	}
	n := int64(0)
	for _, v := range a[2:] {
		if _, ok := e.Set[string(v)]; !ok {
			e.Set[string(v)] = struct{}{}
			n++
		}
	}
	return integer(n)
}

func cmdSRem(m *Model, d *DB, conn int, a [][]byte, now time.Time) Reply {
	if len(a) < 3 {
		return arity("srem")
	}
	key := string(a[1])
	e, exists, isS := d.set(key)
	if !exists {
		return integer(0)
	}
	if !isS {
		return wrongType()
	}
	n := int64(0)
	for _, v := range a[2:] {
		if _, ok := e.Set[string(v)]; ok {
			delete(e.Set, string(v))
			n++
		}
	}
	d.dropIfEmpty(key)
	return integer(n)
}

func cmdSIsMember(m *Model, d *DB, conn int, a [][]byte, now time.Time) Reply {
	if len(a) != 3 {
		return arity("sismember")
	}
	e, exists, isS := d.set(string(a[1]))
	if !exists {
		return integer(0)
	}
	if !isS {
		return wrongType()
	}
	if _, ok := e.Set[string(a[2])]; ok {
		return integer(1)
	}
	return integer(0)
}

func cmdSCard(m *Model, d *DB, conn int, a [][]byte, now time.Time) Reply {
	if len(a) != 2 {
		return arity("scard")
	}
	e, exists, isS := d.set(string(a[1]))
	if !exists {
		return integer(0)
	}
	if !isS {
		return wrongType()
	}
	return integer(int64(len(e.Set)))
}

func cmdSMembers(m *Model, d *DB, conn int, a [][]byte, now time.Time) Reply {
	if len(a) != 2 {
		return arity("smembers")
	}
	e, exists, isS := d.set(string(a[1]))
	if !exists {
		return array(nil)
	}
	if !isS {
		return wrongType()
	}
	return unordered(setMembers(e))
}

func cmdSMove(m *Model, d *DB, conn int, a [][]byte, now time.Time) Reply {
	if len(a) != 4 {
		return arity("smove")
	}
	src, dst, mem := string(a[1]), string(a[2]), string(a[3])
	se, sExists, sIsS := d.set(src)
	de, dExists, dIsS := d.set(dst)
	if !sExists {
		// the reference checks the destination type only when the source exists
		return integer(0)
	}
	if !sIsS || (dExists && !dIsS) {
		return wrongType()
	}
	if _, ok := se.Set[mem]; !ok {
		return integer(0)
	}
	if src == dst {
		return integer(1)
	}
	delete(se.Set, mem)
	d.dropIfEmpty(src)
	if !dExists {
		de = &Entry{T: TSet, Set: map[string]struct{}{}}
		d.Keys[dst] = de
	}
	de.Set[mem] = struct{}{}
	return integer(1)
}

func cmdSPop(m *Model, d *DB, conn int, a [][]byte, now time.Time) Reply {
	if len(a) != 2 && len(a) != 3 {
		return arity("spop")
	}
	key := string(a[1])
	hasCount := len(a) == 3
	var count int64
	if hasCount {
		c, ok := parseInt(a[2])
		if !ok || c < 0 {
			return errAny("value is out of range, must be positive")
		}
		count = c
	}
	e, exists, isS := d.set(key)
	if !exists {
		if hasCount {
			return array(nil)
		}
		return nilReply()
	}
	if !isS {
		return wrongType()
	}
	if !hasCount {
		return Reply{Desc: "one current member (removed)", Check: func(got rd.Value) (bool, string) {
			if !got.StringLike() {
				return false, "expected one current member as a bulk string, got " + describe(got)
			}
			if _, ok := e.Set[string(got.Str)]; !ok {
				return false, fmt.Sprintf("SPOP returned %q which is not a member", got.Str)
			}
			delete(e.Set, string(got.Str))
			d.dropIfEmpty(key)
			return true, ""
		}}
	}
	want := count
	if want > int64(len(e.Set)) {
		want = int64(len(e.Set))
	}
	desc := fmt.Sprintf("%d distinct current members (removed)", want)
	return Reply{Desc: desc, Check: func(got rd.Value) (bool, string) {
		if got.Kind != rd.Array || int64(len(got.Arr)) != want {
			return false, "expected " + desc + ", got " + describe(got)
		}
		seen := map[string]bool{}
		for _, g := range got.Arr {
			if !g.StringLike() {
				return false, "expected " + desc + ", got " + describe(got)
			}
			if _, ok := e.Set[string(g.Str)]; !ok || seen[string(g.Str)] {
				return false, fmt.Sprintf("SPOP returned %q which is not a (distinct) member; got %s", g.Str, describe(got))
			}
			seen[string(g.Str)] = true
		}
		for k := range seen {
			delete(e.Set, k)
		}
		d.dropIfEmpty(key)
		return true, ""
	}}
}

func cmdSRandMember(m *Model, d *DB, conn int, a [][]byte, now time.Time) Reply {
	if len(a) != 2 && len(a) != 3 {
		return arity("srandmember")
	}
	hasCount := len(a) == 3
	var count int64
	if hasCount {
		c, ok := parseInt(a[2])
		if !ok {
			return errAny("value is not an integer or out of range")
		}
		count = c
	}
	e, exists, isS := d.set(string(a[1]))
	if exists && !isS {
		return wrongType()
	}
	if !hasCount {
		if !exists {
			return nilReply()
		}
		return Reply{Desc: "one current member", Check: func(got rd.Value) (bool, string) {
			if got.StringLike() {
				if _, ok := e.Set[string(got.Str)]; ok {
					return true, ""
				}
			}
			return false, "expected one current member as a bulk string, got " + describe(got)
		}}
	}
	if !exists {
		return array(nil)
	}
	distinct := count >= 0
	want := count
	if count < 0 {
		want = -count
	} else if want > int64(len(e.Set)) {
		want = int64(len(e.Set))
	}
	desc := fmt.Sprintf("%d current members (distinct=%v)", want, distinct)
	return Reply{Desc: desc, Check: func(got rd.Value) (bool, string) {
		if got.Kind != rd.Array || int64(len(got.Arr)) != want {
			return false, "expected " + desc + ", got " + describe(got)
		}
		seen := map[string]bool{}
		for _, g := range got.Arr {
			if !g.StringLike() {
				return false, "expected " + desc + ", got " + describe(got)
			}
			if _, ok := e.Set[string(g.Str)]; !ok || (distinct && seen[string(g.Str)]) {
				return false, fmt.Sprintf("SRANDMEMBER returned %q (not a member, or repeated); got %s", g.Str, describe(got))
			}
			seen[string(g.Str)] = true
		}
		return true, ""
	}}
}

func setAlgebra(d *DB, a [][]byte, op string, store bool) Reply {
	first := 1
	if store {
		first = 2
	}
	if len(a) < first+1 {
		return arity(lower(a[0]))
	}
	var sets []map[string]struct{}
	for _, k := range a[first:] {
		e, exists, isS := d.set(string(k))
		if !exists && op == "inter" {
			// the reference stops at the first missing operand: the intersection is
			// empty and the types of the remaining operands are not looked at
			sets = []map[string]struct{}{{}}
			break
		}
		if exists && !isS {
			return wrongType()
		}
		if exists {
			sets = append(sets, e.Set)
		} else {
			sets = append(sets, map[string]struct{}{})
		}
	}
	res := map[string]struct{}{}
	switch op {
	case "union":
		for _, s := range sets {
			for k := range s {
				res[k] = struct{}{}
			}
		}
	case "inter":
		for k := range sets[0] {
			in := true
			for _, s := range sets[1:] {
				if _, ok := s[k]; !ok {
					in = false
					break
				}
			}
			if in {
				res[k] = struct{}{}
			}
		}
	case "diff":
		for k := range sets[0] {
			in := false
			for _, s := range sets[1:] {
				if _, ok := s[k]; ok {
					in = true
					break
				}
			}
			if !in {
				res[k] = struct{}{}
			}
		}
	}
	if !store {
		return unordered(setMembers(&Entry{Set: res}))
	}
	dst := string(a[1])
	if len(res) == 0 {
		delete(d.Keys, dst)
		return integer(0)
	}
	d.Keys[dst] = &Entry{T: TSet, Set: res}
	return integer(int64(len(res)))
}
