package refmodel

import (
	"fmt"
	"math"
	"sort"
	"strconv"
	"time"

	rd "verifsim/respdec"
)

func init() {
	reg("ping", cmdPing)
	reg("set", cmdSet)
	reg("get", cmdGet)
	reg("getrange", cmdGetRange)
	reg("setrange", cmdSetRange)
	reg("mget", cmdMGet)
	reg("mset", cmdMSet)
	reg("setex", cmdSetEx)
	reg("setnx", cmdSetNx)
	reg("strlen", cmdStrlen)
	reg("incr", func(m *Model, d *DB, c int, a [][]byte, now time.Time) Reply { return incrBy(d, a, 1, 2, false) })
	reg("decr", func(m *Model, d *DB, c int, a [][]byte, now time.Time) Reply { return incrBy(d, a, -1, 2, false) })
	reg("incrby", func(m *Model, d *DB, c int, a [][]byte, now time.Time) Reply { return incrBy(d, a, 0, 3, false) })
	reg("decrby", func(m *Model, d *DB, c int, a [][]byte, now time.Time) Reply { return incrBy(d, a, 0, 3, true) })
	reg("incrbyfloat", cmdIncrByFloat)
	reg("append", cmdAppend)
	reg("del", cmdDel)
	reg("exists", cmdExists)
	reg("keys", cmdKeys)
	reg("expire", cmdExpire)
	reg("persist", cmdPersist)
	reg("ttl", cmdTTL)
	reg("type", cmdType)
	reg("rename", cmdRename)
	reg("select", cmdSelect)
}

func arity(name string) Reply { return errAny("wrong number of arguments for '" + name + "'") }

func cmdPing(m *Model, d *DB, conn int, a [][]byte, now time.Time) Reply {
	switch len(a) {
	case 1:
		return status("PONG")
	case 2:
		return bulk(a[1])
	}
	return arity("ping")
}

func cmdSet(m *Model, d *DB, conn int, a [][]byte, now time.Time) Reply {
	if len(a) < 3 {
		return arity("set")
	}
	key, val := string(a[1]), a[2]
	var nx, xx, get, keepttl bool
	var ttlKind string
	var ttlVal int64
	for i := 3; i < len(a); i++ {
		switch lower(a[i]) {
		case "nx":
			nx = true
		case "xx":
			xx = true
		case "get":
			get = true
		case "keepttl":
			keepttl = true
		case "ex", "px", "exat", "pxat":
			if ttlKind != "" || i+1 >= len(a) {
				return errAny("syntax error")
			}
			ttlKind = lower(a[i])
			v, ok := parseInt(a[i+1])
			if !ok {
				return errAny("value is not an integer or out of range")
			}
			ttlVal = v
			i++
		default:
			return errAny("syntax error")
		}
	}
	if (nx && xx) || (keepttl && ttlKind != "") {
		return errAny("syntax error")
	}
	if ttlKind != "" && ttlVal <= 0 {
		return errAny("invalid expire time in 'set' command")
	}
	if ttlKind == "ex" && ttlVal > math.MaxInt64/1000 {
		return errAny("invalid expire time in 'set' command")
	}
	old, exists := d.Keys[key]
	if get && exists && old.T != TString {
		return wrongType()
	}
	apply := func() {
		e := &Entry{T: TString, S: append([]byte(nil), val...)}
		if keepttl && exists && old.HasTTL {
			e.keepDeadline(old)
		}
		switch ttlKind {
		case "ex":
			e.expireIn(now, time.Duration(ttlVal)*time.Second, "set-ex")
		case "px":
			e.expireIn(now, time.Duration(ttlVal)*time.Millisecond, "set-px")
		case "exat":
			e.expireAt(ttlVal)
		case "pxat":
			t := time.UnixMilli(ttlVal)
			e.setDeadline(t, floorSec(t), floorSec(t).Add(time.Second))
		}
		d.Keys[key] = e
		if e.HasTTL && !now.Before(e.WinHi) {
			delete(d.Keys, key) // deadline already in the past
		}
	}
	skip := (nx && exists) || (xx && !exists)
	ref := func() Reply {
		if get {
			var res Reply
			if exists {
				res = bulk(old.S)
			} else {
				res = nilReply()
			}
			if !skip {
				apply()
			}
			return res
		}
		if skip {
			return nilReply()
		}
		apply()
		return status("OK")
	}
	if exists && old.T != TString && m.Opt.AcceptSetWrongType {
		// the property text says a command applied to a key of another type
		// fails with WRONGTYPE and changes nothing; the command reference says
		// SET ignores the old type.  Both are accepted; the state follows
		// whichever was observed.
		return Reply{Desc: "reference SET behaviour | WRONGTYPE (unchanged)", Check: func(got rd.Value) (bool, string) {
			if got.Kind == rd.Error {
				return wrongType().Check(got)
			}
			return ref().Check(got)
		}}
	}
	return ref()
}

func cmdGet(m *Model, d *DB, conn int, a [][]byte, now time.Time) Reply {
	if len(a) != 2 {
		return arity("get")
	}
	e, ok := d.Keys[string(a[1])]
	if !ok {
		return nilReply()
	}
	if e.T != TString {
		return wrongType()
	}
	return bulk(e.S)
}

func cmdGetRange(m *Model, d *DB, conn int, a [][]byte, now time.Time) Reply {
	if len(a) != 4 {
		return arity("getrange")
	}
	start, ok1 := parseInt(a[2])
	end, ok2 := parseInt(a[3])
	if !ok1 || !ok2 {
		return errAny("value is not an integer or out of range")
	}
	e, ok := d.Keys[string(a[1])]
	if !ok {
		return bulk([]byte{})
	}
	if e.T != TString {
		return wrongType()
	}
	n := int64(len(e.S))
	if start < 0 && end < 0 && start > end {
		return bulk([]byte{})
	}
	if start < 0 {
		start += n
	}
	if end < 0 {
		end += n
	}
	if start < 0 {
		start = 0
	}
	if end < 0 {
		end = 0
	}
	if end >= n {
		end = n - 1
	}
	if n == 0 || start > end {
		return bulk([]byte{})
	}
	return bulk(e.S[start : end+1])
}

func cmdSetRange(m *Model, d *DB, conn int, a [][]byte, now time.Time) Reply {
	if len(a) != 4 {
		return arity("setrange")
	}
	off, ok := parseInt(a[2])
	if !ok {
		return errAny("value is not an integer or out of range")
	}
	if off < 0 {
		return errAny("offset is out of range")
	}
	key, val := string(a[1]), a[3]
	e, exists := d.Keys[key]
	if exists && e.T != TString {
		return wrongType()
	}
	if off+int64(len(val)) > 512*1024*1024 {
		return errAny("string exceeds maximum allowed size")
	}
	if len(val) == 0 {
		if !exists {
			return integer(0)
		}
		return integer(int64(len(e.S)))
	}
	var s []byte
	if exists {
		s = append([]byte(nil), e.S...)
	}
	for int64(len(s)) < off+int64(len(val)) {
		s = append(s, 0)
	}
	copy(s[off:], val)
	if exists {
		e.S = s
	} else {
		d.Keys[key] = &Entry{T: TString, S: s}
	}
	return integer(int64(len(s)))
}

func cmdMGet(m *Model, d *DB, conn int, a [][]byte, now time.Time) Reply {
	if len(a) < 2 {
		return arity("mget")
	}
	out := make([]rd.Value, 0, len(a)-1)
	for _, k := range a[1:] {
		e, ok := d.Keys[string(k)]
		if !ok || e.T != TString {
			out = append(out, rd.Nil())
		} else {
			out = append(out, rd.BulkB(e.S))
		}
	}
	return array(out)
}

func cmdMSet(m *Model, d *DB, conn int, a [][]byte, now time.Time) Reply {
	if len(a) < 3 || len(a)%2 != 1 {
		return arity("mset")
	}
	for i := 1; i < len(a); i += 2 {
		d.Keys[string(a[i])] = &Entry{T: TString, S: append([]byte(nil), a[i+1]...)}
	}
	return status("OK")
}

func cmdSetEx(m *Model, d *DB, conn int, a [][]byte, now time.Time) Reply {
	if len(a) != 4 {
		return arity("setex")
	}
	sec, ok := parseInt(a[2])
	if !ok {
		return errAny("value is not an integer or out of range")
	}
	if sec <= 0 || sec > math.MaxInt64/1000 {
		return errAny("invalid expire time in 'setex' command")
	}
	e := &Entry{T: TString, S: append([]byte(nil), a[3]...)}
	e.expireIn(now, time.Duration(sec)*time.Second, "setex")
	d.Keys[string(a[1])] = e
	return status("OK")
}

func cmdSetNx(m *Model, d *DB, conn int, a [][]byte, now time.Time) Reply {
	if len(a) != 3 {
		return arity("setnx")
	}
	if _, ok := d.Keys[string(a[1])]; ok {
		return integer(0)
	}
	d.Keys[string(a[1])] = &Entry{T: TString, S: append([]byte(nil), a[2]...)}
	return integer(1)
}

func cmdStrlen(m *Model, d *DB, conn int, a [][]byte, now time.Time) Reply {
	if len(a) != 2 {
		return arity("strlen")
	}
	e, ok := d.Keys[string(a[1])]
	if !ok {
		return integer(0)
	}
	if e.T != TString {
		return wrongType()
	}
	return integer(int64(len(e.S)))
}

func incrBy(d *DB, a [][]byte, delta int64, wantArgs int, negate bool) Reply {
	if len(a) != wantArgs {
		return arity(lower(a[0]))
	}
	if wantArgs == 3 {
		v, ok := parseInt(a[2])
		if !ok {
			return errAny("value is not an integer or out of range")
		}
		if negate {
			if v == math.MinInt64 {
				return errAny("decrement would overflow")
			}
			v = -v
		}
		delta = v
	}
	key := string(a[1])
	e, exists := d.Keys[key]
	var cur int64
	if exists {
		if e.T != TString {
			return wrongType()
		}
		v, ok := parseInt(e.S)
		if !ok {
			return errAny("value is not an integer or out of range")
		}
		cur = v
	}
	if (delta > 0 && cur > math.MaxInt64-delta) || (delta < 0 && cur < math.MinInt64-delta) {
		return errAny("increment or decrement would overflow")
	}
	cur += delta
	s := []byte(strconv.FormatInt(cur, 10))
	if exists {
		e.S = s
	} else {
		d.Keys[key] = &Entry{T: TString, S: s}
	}
	return integer(cur)
}

func cmdIncrByFloat(m *Model, d *DB, conn int, a [][]byte, now time.Time) Reply {
	if len(a) != 3 {
		return arity("incrbyfloat")
	}
	key := string(a[1])
	e, exists := d.Keys[key]
	if exists && e.T != TString {
		return wrongType()
	}
	var cur float64
	if exists {
		v, ok := parseFloat(e.S)
		if !ok {
			return errAny("value is not a valid float")
		}
		cur = v
	}
	inc, ok := parseFloat(a[2])
	if !ok {
		return errAny("value is not a valid float")
	}
	cur += inc
	if math.IsNaN(cur) || math.IsInf(cur, 0) {
		return errAny("increment would produce NaN or Infinity")
	}
	// The stored spelling is the reply's spelling; adopt the observed one when
	// it denotes the right number.
	return Reply{Desc: "bulk float " + fmtFloat(cur), Check: func(got rd.Value) (bool, string) {
		ok, why := floatReply(cur).Check(got)
		if !ok {
			return false, why
		}
		s := append([]byte(nil), got.Str...)
		if exists {
			e.S = s
		} else {
			d.Keys[key] = &Entry{T: TString, S: s}
		}
		return true, ""
	}}
}

func cmdAppend(m *Model, d *DB, conn int, a [][]byte, now time.Time) Reply {
	if len(a) != 3 {
		return arity("append")
	}
	key := string(a[1])
	e, exists := d.Keys[key]
	if !exists {
		d.Keys[key] = &Entry{T: TString, S: append([]byte(nil), a[2]...)}
		return integer(int64(len(a[2])))
	}
	if e.T != TString {
		return wrongType()
	}
	e.S = append(append([]byte(nil), e.S...), a[2]...)
	return integer(int64(len(e.S)))
}

func cmdDel(m *Model, d *DB, conn int, a [][]byte, now time.Time) Reply {
	if len(a) < 2 {
		return arity("del")
	}
	n := int64(0)
	for _, k := range a[1:] {
		if _, ok := d.Keys[string(k)]; ok {
			delete(d.Keys, string(k))
			n++
		}
	}
	return integer(n)
}

func cmdExists(m *Model, d *DB, conn int, a [][]byte, now time.Time) Reply {
	if len(a) < 2 {
		return arity("exists")
	}
	n := int64(0)
	for _, k := range a[1:] {
		if _, ok := d.Keys[string(k)]; ok {
			n++
		}
	}
	return integer(n)
}

func cmdKeys(m *Model, d *DB, conn int, a [][]byte, now time.Time) Reply {
	if len(a) != 2 {
		return arity("keys")
	}
	var out [][]byte
	ks := make([]string, 0, len(d.Keys))
	for k := range d.Keys {
		ks = append(ks, k)
	}
	sort.Strings(ks)
	for _, k := range ks {
		if GlobMatch(a[1], []byte(k)) {
			out = append(out, []byte(k))
		}
	}
	return unordered(out)
}

func cmdExpire(m *Model, d *DB, conn int, a [][]byte, now time.Time) Reply {
	if len(a) < 3 {
		return arity("expire")
	}
	sec, ok := parseInt(a[2])
	if !ok {
		return errAny("value is not an integer or out of range")
	}
	var nx, xx, gt, lt bool
	for _, o := range a[3:] {
		switch lower(o) {
		case "nx":
			nx = true
		case "xx":
			xx = true
		case "gt":
			gt = true
		case "lt":
			lt = true
		default:
			return errAny("unsupported option")
		}
	}
	if (nx && (xx || gt || lt)) || (gt && lt) {
		return errAny("NX and XX, GT or LT options at the same time are not compatible")
	}
	if sec > math.MaxInt64/1000 || sec < math.MinInt64/1000 {
		return errAny("invalid expire time in 'expire' command")
	}
	key := string(a[1])
	e, exists := d.Keys[key]
	if !exists {
		return integer(0)
	}
	newExact := now.Add(time.Duration(sec) * time.Second)
	if nx && e.HasTTL {
		return integer(0)
	}
	if xx && !e.HasTTL {
		return integer(0)
	}
	apply := func() {
		if sec <= 0 {
			delete(d.Keys, key)
			return
		}
		e.expireIn(now, time.Duration(sec)*time.Second, "expire")
	}
	if (gt || lt) && e.HasTTL {
		diff := newExact.Sub(e.Exact)
		if diff < 0 {
			diff = -diff
		}
		if diff < time.Second {
			// at one-second clock granularity the two deadlines may compare
			// either way (or equal): both outcomes are accepted
			return Reply{Desc: ":1 (deadline replaced) | :0 (kept)", Check: func(got rd.Value) (bool, string) {
				if got.Kind == rd.Integer && got.Int == 1 {
					apply()
					return true, ""
				}
				if got.Kind == rd.Integer && got.Int == 0 {
					return true, ""
				}
				return false, "expected :1 or :0, got " + describe(got)
			}}
		}
	}
	if gt && (!e.HasTTL || !newExact.After(e.Exact)) {
		// a key without deadline counts as infinite TTL
		return integer(0)
	}
	if lt && e.HasTTL && !newExact.Before(e.Exact) {
		return integer(0)
	}
	apply()
	return integer(1)
}

func cmdPersist(m *Model, d *DB, conn int, a [][]byte, now time.Time) Reply {
	if len(a) != 2 {
		return arity("persist")
	}
	e, ok := d.Keys[string(a[1])]
	if !ok || !e.HasTTL {
		return integer(0)
	}
	e.HasTTL = false
	return integer(1)
}

func cmdTTL(m *Model, d *DB, conn int, a [][]byte, now time.Time) Reply {
	if len(a) != 2 {
		return arity("ttl")
	}
	e, ok := d.Keys[string(a[1])]
	if !ok {
		return integer(-2)
	}
	if !e.HasTTL {
		return integer(-1)
	}
	// the reported seconds must fit some expiry instant of the key's window, to
	// within the clock's one-second granularity
	lo := e.WinLo.Sub(now).Seconds() - 1
	hi := e.WinHi.Sub(now).Seconds() + 1
	desc := fmt.Sprintf("integer in [%.3f, %.3f] (remaining time to live)", math.Max(lo, 0), hi)
	return Reply{Desc: desc, Check: func(got rd.Value) (bool, string) {
		if got.Kind == rd.Integer && got.Int >= 0 && float64(got.Int) >= lo && float64(got.Int) <= hi {
			return true, ""
		}
		return false, "expected " + desc + ", got " + describe(got)
	}}
}

func cmdType(m *Model, d *DB, conn int, a [][]byte, now time.Time) Reply {
	if len(a) != 2 {
		return arity("type")
	}
	e, ok := d.Keys[string(a[1])]
	if !ok {
		return status("none")
	}
	return status(e.T.String())
}

func cmdRename(m *Model, d *DB, conn int, a [][]byte, now time.Time) Reply {
	if len(a) != 3 {
		return arity("rename")
	}
	src, dst := string(a[1]), string(a[2])
	e, ok := d.Keys[src]
	if !ok {
		return errAny("no such key")
	}
	if src != dst {
		delete(d.Keys, src)
		d.Keys[dst] = e // the deadline travels with the value
	}
	return status("OK")
}

func cmdSelect(m *Model, d *DB, conn int, a [][]byte, now time.Time) Reply {
	if len(a) != 2 {
		return arity("select")
	}
	i, ok := parseInt(a[1])
	if !ok {
		return errAny("invalid DB index")
	}
	if i < 0 || i >= int64(len(m.DBs)) {
		return errAny("DB index is out of range")
	}
	m.Selected[conn] = int(i)
	return status("OK")
}

// GlobMatch is the documented KEYS glob grammar: ? one byte, * any run,
// [...] byte set with a-b ranges and ^ negation, backslash escapes the next
// byte.  Written from the Redis documentation (stringmatchlen semantics); a
// syntactically broken pattern matches nothing.
func GlobMatch(p, s []byte) bool {
	if !globWellFormed(p) {
		return false
	}
	return globMatch(p, s)
}

func globWellFormed(p []byte) bool {
	for i := 0; i < len(p); i++ {
		switch p[i] {
		case '\\':
			if i+1 >= len(p) {
				return false
			}
			i++
		case '[':
			j := i + 1
			if j < len(p) && p[j] == '^' {
				j++
			}
			closed := false
			for j < len(p) {
				if p[j] == '\\' {
					if j+1 >= len(p) {
						return false
					}
					j += 2
					continue
				}
				if p[j] == ']' {
					closed = true
					break
				}
				if j+2 < len(p) && p[j+1] == '-' && p[j+2] != ']' {
					j += 3
					continue
				}
				if p[j] == '-' || (j+1 < len(p) && p[j+1] == '-') {
					// dangling range
					return false
				}
				j++
			}
			if !closed {
				return false
			}
			i = j
		}
	}
	return true
}

func globMatch(p, s []byte) bool {
	for len(p) > 0 {
		switch p[0] {
		case '*':
			for len(p) > 1 && p[1] == '*' {
				p = p[1:]
			}
			if len(p) == 1 {
				return true
			}
			for i := 0; i <= len(s); i++ {
				if globMatch(p[1:], s[i:]) {
					return true
				}
			}
			return false
		case '?':
			if len(s) == 0 {
				return false
			}
			s = s[1:]
			p = p[1:]
		case '[':
			if len(s) == 0 {
				return false
			}
			j := 1
			not := false
			if j < len(p) && p[j] == '^' {
				not = true
				j++
			}
			match := false
			for j < len(p) && p[j] != ']' {
				if p[j] == '\\' && j+1 < len(p) {
					j++
					if p[j] == s[0] {
						match = true
					}
					j++
					continue
				}
				if j+2 < len(p) && p[j+1] == '-' && p[j+2] != ']' {
					lo, hi := p[j], p[j+2]
					if lo > hi {
						lo, hi = hi, lo
					}
					if s[0] >= lo && s[0] <= hi {
						match = true
					}
					j += 3
					continue
				}
				if p[j] == s[0] {
					match = true
				}
				j++
			}
			if not {
				match = !match
			}
			if !match {
				return false
			}
			s = s[1:]
			p = p[j+1:]
		case '\\':
			if len(p) >= 2 {
				p = p[1:]
			}
			fallthrough
		default:
			if len(s) == 0 || p[0] != s[0] {
				return false
			}
			s = s[1:]
			p = p[1:]
		}
	}
	return len(s) == 0
}
