package refmodel

import (
	"bytes"
	"time"

	rd "verifsim/respdec"
)

func init() {
	reg("lpush", func(m *Model, d *DB, c int, a [][]byte, now time.Time) Reply { return push(d, a, true, false) })
	reg("rpush", func(m *Model, d *DB, c int, a [][]byte, now time.Time) Reply { return push(d, a, false, false) })
	reg("lpushx", func(m *Model, d *DB, c int, a [][]byte, now time.Time) Reply { return push(d, a, true, true) })
	reg("rpushx", func(m *Model, d *DB, c int, a [][]byte, now time.Time) Reply { return push(d, a, false, true) })
	reg("lpop", func(m *Model, d *DB, c int, a [][]byte, now time.Time) Reply { return pop(d, a, true) })
	reg("rpop", func(m *Model, d *DB, c int, a [][]byte, now time.Time) Reply { return pop(d, a, false) })
	reg("llen", cmdLLen)
	reg("lindex", cmdLIndex)
	reg("lrange", cmdLRange)
	reg("lset", cmdLSet)
	reg("lrem", cmdLRem)
	reg("ltrim", cmdLTrim)
	reg("lpos", cmdLPos)
	reg("lmove", cmdLMove)
}

func (d *DB) list(key string) (*Entry, bool, bool) {
	e, ok := d.Keys[key]
	if !ok {
		return nil, false, true
	}
	return e, true, e.T == TList
}

func (d *DB) dropIfEmpty(key string) {
	if e, ok := d.Keys[key]; ok {
		switch e.T {
		case TList:
			if len(e.L) == 0 {
				delete(d.Keys, key)
			}
		case THash:
			if len(e.H) == 0 {
				delete(d.Keys, key)
			}
		case TSet:
			if len(e.Set) == 0 {
				delete(d.Keys, key)
			}
		case TZSet:
			if len(e.Z) == 0 {
				delete(d.Keys, key)
			}
		}
	}
}

func push(d *DB, a [][]byte, left, onlyIfExists bool) Reply {
	if len(a) < 3 {
		return arity(lower(a[0]))
	}
	key := string(a[1])
	e, exists, isList := d.list(key)
	if exists && !isList {
		return wrongType()
	}
	if !exists {
		if onlyIfExists {
			return integer(0)
		}
		e = &Entry{T: TList}
		d.Keys[key] = e
	}
	for _, v := range a[2:] {
		v = append([]byte(nil), v...)
		if left {
			e.L = append([][]byte{v}, e.L...)
		} else {
			e.L = append(e.L, v)
		}
	}
	return integer(int64(len(e.L)))
}

func pop(d *DB, a [][]byte, left bool) Reply {
	if len(a) != 2 && len(a) != 3 {
		return arity(lower(a[0]))
	}
	key := string(a[1])
	hasCount := len(a) == 3
	var count int64 = 1
	if hasCount {
		c, ok := parseInt(a[2])
		if !ok || c < 0 {
			return errAny("value is out of range, must be positive")
		}
		count = c
	}
	e, exists, isList := d.list(key)
	if !exists {
		if hasCount {
			return exact(rd.NilArr())
		}
		return nilReply()
	}
	if !isList {
		return wrongType()
	}
	if !hasCount {
		var v []byte
		if left {
			v, e.L = e.L[0], e.L[1:]
		} else {
			v, e.L = e.L[len(e.L)-1], e.L[:len(e.L)-1]
		}
		d.dropIfEmpty(key)
		return bulk(v)
	}
	if count == 0 {
		// version dependent (empty array since 7.0, nil before)
		return either(array(nil), exact(rd.NilArr()))
	}
	var out [][]byte
	for i := int64(0); i < count && len(e.L) > 0; i++ {
		if left {
			out = append(out, e.L[0])
			e.L = e.L[1:]
		} else {
			out = append(out, e.L[len(e.L)-1])
			e.L = e.L[:len(e.L)-1]
		}
	}
	d.dropIfEmpty(key)
	return array(bulks(out))
}

func cmdLLen(m *Model, d *DB, conn int, a [][]byte, now time.Time) Reply {
	if len(a) != 2 {
		return arity("llen")
	}
	e, exists, isList := d.list(string(a[1]))
	if !exists {
		return integer(0)
	}
	if !isList {
		return wrongType()
	}
	return integer(int64(len(e.L)))
}

func cmdLIndex(m *Model, d *DB, conn int, a [][]byte, now time.Time) Reply {
	if len(a) != 3 {
		return arity("lindex")
	}
	idx, ok := parseInt(a[2])
	if !ok {
		return errAny("value is not an integer or out of range")
	}
	e, exists, isList := d.list(string(a[1]))
	if !exists {
		return nilReply()
	}
	if !isList {
		return wrongType()
	}
	n := int64(len(e.L))
	if idx < 0 {
		idx += n
	}
	if idx < 0 || idx >= n {
		return nilReply()
	}
	return bulk(e.L[idx])
}

func clampRange(start, end, n int64) (int64, int64, bool) {
	if start < 0 {
		start += n
	}
	if end < 0 {
		end += n
	}
	if start < 0 {
		start = 0
	}
	if start > end || start >= n {
		return 0, 0, false
	}
	if end >= n {
		end = n - 1
	}
	return start, end, true
}

func cmdLRange(m *Model, d *DB, conn int, a [][]byte, now time.Time) Reply {
	if len(a) != 4 {
		return arity("lrange")
	}
	s, ok1 := parseInt(a[2])
	t, ok2 := parseInt(a[3])
	if !ok1 || !ok2 {
		return errAny("value is not an integer or out of range")
	}
	e, exists, isList := d.list(string(a[1]))
	if !exists {
		return array(nil)
	}
	if !isList {
		return wrongType()
	}
	s, t, ok := clampRange(s, t, int64(len(e.L)))
	if !ok {
		return array(nil)
	}
	return array(bulks(e.L[s : t+1]))
}

func cmdLSet(m *Model, d *DB, conn int, a [][]byte, now time.Time) Reply {
	if len(a) != 4 {
		return arity("lset")
	}
	idx, ok := parseInt(a[2])
	if !ok {
		return errAny("value is not an integer or out of range")
	}
	e, exists, isList := d.list(string(a[1]))
	if !exists {
		return errAny("no such key")
	}
	if !isList {
		return wrongType()
	}
	n := int64(len(e.L))
	if idx < 0 {
		idx += n
	}
	if idx < 0 || idx >= n {
		return errAny("index out of range")
	}
	e.L[idx] = append([]byte(nil), a[3]...)
	return status("OK")
}

func cmdLRem(m *Model, d *DB, conn int, a [][]byte, now time.Time) Reply {
	if len(a) != 4 {
		return arity("lrem")
	}
	cnt, ok := parseInt(a[2])
	if !ok {
		return errAny("value is not an integer or out of range")
	}
	key := string(a[1])
	e, exists, isList := d.list(key)
	if !exists {
		return integer(0)
	}
	if !isList {
		return wrongType()
	}
	removed := int64(0)
	if cnt >= 0 {
		var out [][]byte
		for _, v := range e.L {
			if bytes.Equal(v, a[3]) && (cnt == 0 || removed < cnt) {
				removed++
				continue
			}
			out = append(out, v)
		}
		e.L = out
	} else {
		var out [][]byte
		for i := len(e.L) - 1; i >= 0; i-- {
			v := e.L[i]
			if bytes.Equal(v, a[3]) && removed < -cnt {
				removed++
				continue
			}
			out = append([][]byte{v}, out...)
		}
		e.L = out
	}
	d.dropIfEmpty(key)
	return integer(removed)
}

func cmdLTrim(m *Model, d *DB, conn int, a [][]byte, now time.Time) Reply {
	if len(a) != 4 {
		return arity("ltrim")
	}
	s, ok1 := parseInt(a[2])
	t, ok2 := parseInt(a[3])
	if !ok1 || !ok2 {
		return errAny("value is not an integer or out of range")
	}
	key := string(a[1])
	e, exists, isList := d.list(key)
	if !exists {
		return status("OK")
	}
	if !isList {
		return wrongType()
	}
	s, t, ok := clampRange(s, t, int64(len(e.L)))
	if !ok {
		e.L = nil
	} else {
		e.L = append([][]byte(nil), e.L[s:t+1]...)
	}
	d.dropIfEmpty(key)
	return status("OK")
}

func cmdLPos(m *Model, d *DB, conn int, a [][]byte, now time.Time) Reply {
	if len(a) < 3 || len(a)%2 != 1 {
		if len(a) < 3 {
			return arity("lpos")
		}
		return errAny("syntax error")
	}
	var rank int64 = 1
	var count int64 = -1
	var maxlen int64
	for i := 3; i < len(a); i += 2 {
		v, ok := parseInt(a[i+1])
		switch lower(a[i]) {
		case "rank":
			if !ok || v == 0 {
				return errAny("RANK can't be zero")
			}
			rank = v
		case "count":
			if !ok || v < 0 {
				return errAny("COUNT can't be negative")
			}
			count = v
		case "maxlen":
			if !ok || v < 0 {
				return errAny("MAXLEN can't be negative")
			}
			maxlen = v
		default:
			return errAny("syntax error")
		}
	}
	e, exists, isList := d.list(string(a[1]))
	if exists && !isList {
		return wrongType()
	}
	var l [][]byte
	if exists {
		l = e.L
	}
	var found []int64
	n := int64(len(l))
	matches := int64(0)
	compared := int64(0)
	want := count
	if count == -1 {
		want = 1
	}
	visit := func(i int64) bool {
		if maxlen != 0 && compared >= maxlen {
			return false
		}
		compared++
		if bytes.Equal(l[i], a[2]) {
			matches++
			r := rank
			if r < 0 {
				r = -r
			}
			if matches >= r {
				found = append(found, i)
				if want != 0 && int64(len(found)) >= want {
					return false
				}
			}
		}
		return true
	}
	if rank > 0 {
		for i := int64(0); i < n; i++ {
			if !visit(i) {
				break
			}
		}
	} else {
		for i := n - 1; i >= 0; i-- {
			if !visit(i) {
				break
			}
		}
	}
	if count == -1 {
		if len(found) == 0 {
			return nilReply()
		}
		return integer(found[0])
	}
	out := make([]rd.Value, len(found))
	for i, f := range found {
		out[i] = rd.Int(f)
	}
	return array(out)
}

func cmdLMove(m *Model, d *DB, conn int, a [][]byte, now time.Time) Reply {
	if len(a) != 5 {
		return arity("lmove")
	}
	from, to := lower(a[3]), lower(a[4])
	if (from != "left" && from != "right") || (to != "left" && to != "right") {
		return errAny("syntax error")
	}
	src, dst := string(a[1]), string(a[2])
	se, sExists, sIsList := d.list(src)
	if !sExists {
		return nilReply()
	}
	if !sIsList {
		return wrongType()
	}
	de, dExists, dIsList := d.list(dst)
	if dExists && !dIsList {
		return wrongType()
	}
	var v []byte
	if from == "left" {
		v, se.L = se.L[0], se.L[1:]
	} else {
		v, se.L = se.L[len(se.L)-1], se.L[:len(se.L)-1]
	}
	if src == dst {
		de = se
	} else if !dExists {
		de = &Entry{T: TList}
		d.Keys[dst] = de
	}
	if to == "left" {
		de.L = append([][]byte{v}, de.L...)
	} else {
		de.L = append(de.L, v)
	}
	d.dropIfEmpty(src)
	return bulk(v)
}
