package refmodel

import (
	"fmt"
	"math"
	"sort"
	"strconv"
	"strings"
	"time"

	rd "verifsim/respdec"
)

func init() {
	reg("zadd", cmdZAdd)
	reg("zrem", cmdZRem)
	reg("zrange", cmdZRange)
	reg("zrank", cmdZRank)
}

func (d *DB) zset(key string) (*Entry, bool, bool) {
	e, ok := d.Keys[key]
	if !ok {
		return nil, false, true
	}
	return e, true, e.T == TZSet
}

func parseScore(b []byte) (float64, bool) {
	s := strings.ToLower(string(b))
	switch s {
	case "inf", "+inf", "infinity", "+infinity":
		return math.Inf(1), true
	case "-inf", "-infinity":
		return math.Inf(-1), true
	}
	if s == "" || strings.ContainsAny(s, " \t\n_") || strings.HasPrefix(s, "0x") || strings.Contains(s, "nan") {
		return 0, false
	}
	f, err := strconv.ParseFloat(s, 64)
	if err != nil {
		return 0, false
	}
	return f, true
}

func cmdZAdd(m *Model, d *DB, conn int, a [][]byte, now time.Time) Reply {
	if len(a) < 4 {
		return arity("zadd")
	}
	var nx, xx, gt, lt, ch, incr bool
	i := 2
loop:
	for ; i < len(a); i++ {
		switch lower(a[i]) {
		case "nx":
			nx = true
		case "xx":
			xx = true
		case "gt":
			gt = true
		case "lt":
			lt = true
		case "ch":
			ch = true
		case "incr":
			incr = true
		default:
			break loop
		}
	}
	rest := a[i:]
	if len(rest) == 0 || len(rest)%2 != 0 {
		return errAny("syntax error")
	}
	if nx && xx {
		return errAny("XX and NX options at the same time are not compatible")
	}
	if (gt && nx) || (lt && nx) || (gt && lt) {
		return errAny("GT, LT, and/or NX options at the same time are not compatible")
	}
	if incr && len(rest) != 2 {
		return errAny("INCR option supports a single increment-element pair")
	}
	scores := make([]float64, 0, len(rest)/2)
	for j := 0; j < len(rest); j += 2 {
		s, ok := parseScore(rest[j])
		if !ok {
			return errAny("value is not a valid float")
		}
		scores = append(scores, s)
	}
	key := string(a[1])
	e, exists, isZ := d.zset(key)
	if exists && !isZ {
		return wrongType()
	}
	if !exists {
		if xx {
			if incr {
				return nilReply()
			}
			return integer(0)
		}
		e = &Entry{T: TZSet, Z: map[string]float64{}}
	}
	// work on a copy so that a NaN abort changes nothing
	z := make(map[string]float64, len(e.Z))
	for k, v := range e.Z {
		z[k] = v
	}
	added, changed := int64(0), int64(0)
	var incrResult *float64
	for j := 0; j < len(rest); j += 2 {
		mem := string(rest[j+1])
		s := scores[j/2]
		cur, has := z[mem]
		if has {
			if nx {
				continue
			}
			ns := s
			if incr {
				ns = cur + s
				if math.IsNaN(ns) {
					return errAny("resulting score is not a number (NaN)")
				}
			}
			if (gt && !(ns > cur)) || (lt && !(ns < cur)) {
				continue
			}
			if ns != cur {
				changed++
			}
			z[mem] = ns
			if incr {
				v := ns
				incrResult = &v
			}
		} else {
			if xx {
				continue
			}
			z[mem] = s
			added++
			if incr {
				v := s
				incrResult = &v
			}
		}
	}
	e.Z = z
	if len(z) > 0 {
		d.Keys[key] = e
	}
	if incr {
		if incrResult == nil {
			return nilReply()
		}
		return floatReply(*incrResult)
	}
	if ch {
		return integer(added + changed)
	}
	return integer(added)
}

func cmdZRem(m *Model, d *DB, conn int, a [][]byte, now time.Time) Reply {
	if len(a) < 3 {
		return arity("zrem")
	}
	key := string(a[1])
	e, exists, isZ := d.zset(key)
	if !exists {
		return integer(0)
	}
	if !isZ {
		return wrongType()
	}
	n := int64(0)
	for _, mem := range a[2:] {
		if _, ok := e.Z[string(mem)]; ok {
			delete(e.Z, string(mem))
			n++
		}
	}
	d.dropIfEmpty(key)
	return integer(n)
}

type zpair struct {
	m string
	s float64
}

func zsorted(e *Entry) []zpair {
	ps := make([]zpair, 0, len(e.Z))
	for m, s := range e.Z {
		ps = append(ps, zpair{m, s})
	}
	sort.Slice(ps, func(i, j int) bool {
		if ps[i].s != ps[j].s {
			return ps[i].s < ps[j].s
		}
		return ps[i].m < ps[j].m
	})
	return ps
}

// cmdZRange: by index, optional REV and WITHSCORES.  The property orders by
// score only, so among equal scores any relative order is accepted: the reply
// must be sorted by score, every member must exist with the score shown, no
// member twice, and the multiset of scores must equal that of the requested
// rank range.
func cmdZRange(m *Model, d *DB, conn int, a [][]byte, now time.Time) Reply {
	if len(a) < 4 {
		return arity("zrange")
	}
	start, ok1 := parseInt(a[2])
	stop, ok2 := parseInt(a[3])
	if !ok1 || !ok2 {
		return errAny("value is not an integer or out of range")
	}
	rev, withScores := false, false
	for _, o := range a[4:] {
		switch lower(o) {
		case "rev":
			rev = true
		case "withscores":
			withScores = true
		default:
			return errAny("syntax error (option outside the modelled subset)")
		}
	}
	e, exists, isZ := d.zset(string(a[1]))
	if !exists {
		return array(nil)
	}
	if !isZ {
		return wrongType()
	}
	ps := zsorted(e)
	if rev {
		for i, j := 0, len(ps)-1; i < j; i, j = i+1, j-1 {
			ps[i], ps[j] = ps[j], ps[i]
		}
	}
	s, t, ok := clampRange(start, stop, int64(len(ps)))
	if !ok {
		return array(nil)
	}
	want := ps[s : t+1]
	desc := fmt.Sprintf("%d members of ranks %d..%d by score (rev=%v withscores=%v): e.g. %v", len(want), s, t, rev, withScores, want)
	return Reply{Desc: desc, Check: func(got rd.Value) (bool, string) {
		step := 1
		if withScores {
			step = 2
		}
		if got.Kind != rd.Array || len(got.Arr) != len(want)*step {
			return false, "expected " + desc + ", got " + describe(got)
		}
		seen := map[string]bool{}
		for i := 0; i < len(want); i++ {
			g := got.Arr[i*step]
			if !g.StringLike() {
				return false, "expected " + desc + ", got " + describe(got)
			}
			sc, ok := e.Z[string(g.Str)]
			if !ok || seen[string(g.Str)] {
				return false, fmt.Sprintf("member %q is not in the sorted set (or returned twice); got %s", g.Str, describe(got))
			}
			seen[string(g.Str)] = true
			if sc != want[i].s {
				return false, fmt.Sprintf("position %d holds %q (score %v) but the score at that rank is %v; got %s", i, g.Str, sc, want[i].s, describe(got))
			}
			if withScores {
				gs := got.Arr[i*step+1]
				f, okf := parseScore(gs.Str)
				if !gs.StringLike() || !okf || f != sc {
					return false, fmt.Sprintf("member %q shown with score %s, has %v", g.Str, describe(gs), sc)
				}
			}
		}
		return true, ""
	}}
}

func cmdZRank(m *Model, d *DB, conn int, a [][]byte, now time.Time) Reply {
	if len(a) != 3 {
		return arity("zrank")
	}
	e, exists, isZ := d.zset(string(a[1]))
	if !exists {
		return nilReply()
	}
	if !isZ {
		return wrongType()
	}
	sc, ok := e.Z[string(a[2])]
	if !ok {
		return nilReply()
	}
	lo, hi := int64(0), int64(-1)
	for _, s := range e.Z {
		if s < sc {
			lo++
		}
		if s <= sc {
			hi++
		}
	}
	desc := fmt.Sprintf("integer rank in [%d,%d]", lo, hi)
	return Reply{Desc: desc, Check: func(got rd.Value) (bool, string) {
		if got.Kind == rd.Integer && got.Int >= lo && got.Int <= hi {
			return true, ""
		}
		return false, "expected " + desc + ", got " + describe(got)
	}}
}
