package refmodel

import (
	"fmt"
	"math"
	"strconv"
	"strings"
	"time"

	rd "verifsim/respdec"
)

func init() {
	reg("xadd", cmdXAdd)
	reg("xrange", cmdXRange)
}

func (d *DB) stream(key string) (*Entry, bool, bool) {
	e, ok := d.Keys[key]
	if !ok {
		return nil, false, true
	}
	return e, true, e.T == TStream
}

// parseStreamID parses "ms", "ms-seq"; seqGiven reports whether a sequence part
// was present.
func parseStreamID(s string) (ms, seq uint64, seqGiven, ok bool) {
	if s == "" {
		return
	}
	parts := strings.SplitN(s, "-", 2)
	v, err := strconv.ParseUint(parts[0], 10, 64)
	if err != nil {
		return
	}
	ms = v
	if len(parts) == 2 {
		v, err := strconv.ParseUint(parts[1], 10, 64)
		if err != nil {
			return 0, 0, false, false
		}
		seq, seqGiven = v, true
	}
	return ms, seq, seqGiven, true
}

func idLess(am, as, bm, bs uint64) bool { return am < bm || (am == bm && as < bs) }

func fmtID(ms, seq uint64) string { return fmt.Sprintf("%d-%d", ms, seq) }

func cmdXAdd(m *Model, d *DB, conn int, a [][]byte, now time.Time) Reply {
	if len(a) < 5 {
		return arity("xadd")
	}
	i := 2
	nomk := false
	trim := ""
	var trimLen int64
	var trimMS, trimSeq uint64
	for i < len(a) {
		o := lower(a[i])
		if o == "nomkstream" {
			nomk = true
			i++
			continue
		}
		if o == "maxlen" || o == "minid" {
			trim = o
			i++
			if i < len(a) && (string(a[i]) == "=" || string(a[i]) == "~") {
				if string(a[i]) == "~" {
					return errAny("approximate trimming is outside the modelled subset")
				}
				i++
			}
			if i >= len(a) {
				return errAny("syntax error")
			}
			if trim == "maxlen" {
				v, ok := parseInt(a[i])
				if !ok || v < 0 {
					return errAny("value is not an integer or out of range")
				}
				trimLen = v
			} else {
				ms, seq, _, ok := parseStreamID(string(a[i]))
				if !ok {
					return errAny("Invalid stream ID specified as stream command argument")
				}
				trimMS, trimSeq = ms, seq
			}
			i++
			continue
		}
		if o == "limit" {
			return errAny("syntax error, LIMIT cannot be used without the special ~ option")
		}
		break
	}
	if i >= len(a) {
		return arity("xadd")
	}
	idArg := string(a[i])
	fields := a[i+1:]
	if len(fields) == 0 || len(fields)%2 != 0 {
		return arity("xadd")
	}
	// validate the ID syntax before touching the key
	auto := idArg == "*"
	var ms, seq uint64
	seqAuto := false
	if !auto {
		if strings.HasSuffix(idArg, "-*") {
			v, err := strconv.ParseUint(strings.TrimSuffix(idArg, "-*"), 10, 64)
			if err != nil {
				return errAny("Invalid stream ID specified as stream command argument")
			}
			ms, seqAuto = v, true
		} else {
			var ok bool
			ms, seq, _, ok = parseStreamID(idArg)
			if !ok {
				return errAny("Invalid stream ID specified as stream command argument")
			}
		}
	}
	key := string(a[1])
	e, exists, isX := d.stream(key)
	if exists && !isX {
		return wrongType()
	}
	if !exists && nomk {
		return nilReply()
	}
	var lastMS, lastSeq uint64
	hasLast := false
	if exists {
		lastMS, lastSeq, hasLast = e.XLastMS, e.XLastSeq, e.XHasLast
	}
	switch {
	case auto:
		nowMS := uint64(now.UnixMilli())
		if !hasLast || nowMS > lastMS {
			ms, seq = nowMS, 0
		} else {
			if lastSeq == math.MaxUint64 {
				return errAny("The stream has exhausted the last possible ID")
			}
			ms, seq = lastMS, lastSeq+1
		}
	case seqAuto:
		if hasLast && ms < lastMS {
			return errAny("The ID specified in XADD is equal or smaller than the target stream top item")
		}
		if hasLast && ms == lastMS {
			if lastSeq == math.MaxUint64 {
				return errAny("The ID specified in XADD is equal or smaller than the target stream top item")
			}
			seq = lastSeq + 1
		} else if ms == 0 {
			seq = 1 // 0-0 is never a valid ID
		} else {
			seq = 0
		}
	default:
		if ms == 0 && seq == 0 {
			return errAny("The ID specified in XADD must be greater than 0-0")
		}
		if hasLast && !idLess(lastMS, lastSeq, ms, seq) {
			return errAny("The ID specified in XADD is equal or smaller than the target stream top item")
		}
	}
	if !exists {
		e = &Entry{T: TStream}
		d.Keys[key] = e
	}
	fs := make([][]byte, len(fields))
	for j, f := range fields {
		fs[j] = append([]byte{}, f...)
	}
	e.X = append(e.X, StreamEntry{MS: ms, Seq: seq, Fields: fs})
	e.XLastMS, e.XLastSeq, e.XHasLast = ms, seq, true
	switch trim {
	case "maxlen":
		if int64(len(e.X)) > trimLen {
			e.X = append([]StreamEntry(nil), e.X[int64(len(e.X))-trimLen:]...)
		}
	case "minid":
		k := 0
		for k < len(e.X) && idLess(e.X[k].MS, e.X[k].Seq, trimMS, trimSeq) {
			k++
		}
		e.X = append([]StreamEntry(nil), e.X[k:]...)
	}
	want := fmtID(ms, seq)
	if auto {
		// the implementation reads its own clock a little after the request was
		// issued: accept any millisecond from the request instant on, provided
		// the ID exceeds the previous last ID; the model adopts the reported ID.
		return Reply{Desc: "new ID >= " + want, Check: func(got rd.Value) (bool, string) {
			if !got.StringLike() {
				return false, "expected a stream ID, got " + describe(got)
			}
			gm, gs, sg, ok := parseStreamID(string(got.Str))
			if !ok || !sg {
				return false, "expected a stream ID, got " + describe(got)
			}
			hiMS := ms + 1000
			if !m.NowHi.IsZero() && uint64(m.NowHi.UnixMilli()) > ms {
				hiMS = uint64(m.NowHi.UnixMilli())
			}
			if idLess(gm, gs, ms, seq) || gm > hiMS {
				return false, fmt.Sprintf("auto-generated ID %s is not the next ID at clock %d ms (expected %s)", got.Str, now.UnixMilli(), want)
			}
			if gm == ms && gs != seq {
				return false, fmt.Sprintf("auto-generated ID %s: expected %s", got.Str, want)
			}
			if gm > ms && gs != 0 {
				return false, fmt.Sprintf("auto-generated ID %s: a new millisecond starts at sequence 0", got.Str)
			}
			if n := len(e.X); n > 0 && e.X[n-1].MS == ms && e.X[n-1].Seq == seq {
				e.X[n-1].MS, e.X[n-1].Seq = gm, gs
			}
			e.XLastMS, e.XLastSeq = gm, gs
			return true, ""
		}}
	}
	return bulk([]byte(want))
}

func cmdXRange(m *Model, d *DB, conn int, a [][]byte, now time.Time) Reply {
	if len(a) != 4 && len(a) != 6 {
		return arity("xrange")
	}
	count := int64(-1)
	if len(a) == 6 {
		if lower(a[4]) != "count" {
			return errAny("syntax error")
		}
		c, ok := parseInt(a[5])
		if !ok {
			return errAny("value is not an integer or out of range")
		}
		if c < 0 {
			c = 0
		}
		count = c
	}
	parseBound := func(s string, isStart bool) (ms, seq uint64, ok bool, empty bool) {
		excl := false
		if strings.HasPrefix(s, "(") {
			excl = true
			s = s[1:]
		}
		switch s {
		case "-":
			if excl {
				return 0, 0, false, false
			}
			return 0, 0, true, false
		case "+":
			if excl {
				return 0, 0, false, false
			}
			return math.MaxUint64, math.MaxUint64, true, false
		}
		ms, seq, given, ok := parseStreamID(s)
		if !ok {
			return 0, 0, false, false
		}
		if !given && !isStart {
			seq = math.MaxUint64
		}
		if excl {
			if isStart {
				if ms == math.MaxUint64 && seq == math.MaxUint64 {
					return 0, 0, false, false
				}
				if seq == math.MaxUint64 {
					ms, seq = ms+1, 0
				} else {
					seq++
				}
			} else {
				if ms == 0 && seq == 0 {
					return 0, 0, false, false
				}
				if seq == 0 {
					ms, seq = ms-1, math.MaxUint64
				} else {
					seq--
				}
			}
		}
		return ms, seq, true, false
	}
	sm, ss, ok1, _ := parseBound(string(a[2]), true)
	em, es, ok2, _ := parseBound(string(a[3]), false)
	if !ok1 || !ok2 {
		return errAny("Invalid stream ID specified as stream command argument")
	}
	e, exists, isX := d.stream(string(a[1]))
	if !exists {
		return array(nil)
	}
	if !isX {
		return wrongType()
	}
	var out []rd.Value
	for _, x := range e.X {
		if idLess(x.MS, x.Seq, sm, ss) || idLess(em, es, x.MS, x.Seq) {
			continue
		}
		if count >= 0 && int64(len(out)) >= count {
			break
		}
		out = append(out, rd.Arr(rd.Str(fmtID(x.MS, x.Seq)), rd.Arr(bulks(x.Fields)...)))
	}
	return array(out)
}
