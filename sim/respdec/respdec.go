// Package respdec is the simulator's own RESP2 encoder/decoder, written from
// the protocol specification.  It shares no code with /repo/resp, so that the
// oracle does not inherit the parser's or encoder's mistakes.
package respdec

import (
	"bytes"
	"fmt"
	"strconv"
)

type Kind byte

const (
	Simple   Kind = '+'
	Error    Kind = '-'
	Integer  Kind = ':'
	Bulk     Kind = '$'
	Array    Kind = '*'
	NilBulk  Kind = '_'
	NilArray Kind = 'N'
)

type Value struct {
	Kind Kind
	Str  []byte
	Int  int64
	Arr  []Value
}

type Status int

const (
	OK Status = iota
	Incomplete
	Malformed
)

// EncodeCommand frames argv as an array of bulk strings.
func EncodeCommand(args [][]byte) []byte {
	var b bytes.Buffer
	b.WriteString("*" + strconv.Itoa(len(args)) + "\r\n")
	for _, a := range args {
		b.WriteString("$" + strconv.Itoa(len(a)) + "\r\n")
		b.Write(a)
		b.WriteString("\r\n")
	}
	return b.Bytes()
}

func line(buf []byte) (l []byte, n int, st Status) {
	i := bytes.IndexByte(buf, '\n')
	if i < 0 {
		// a simple line may not contain a bare CR followed by something else
		// than LF, but we cannot know yet
		return nil, 0, Incomplete
	}
	if i == 0 || buf[i-1] != '\r' {
		return nil, 0, Malformed
	}
	l = buf[:i-1]
	if bytes.IndexByte(l, '\r') >= 0 {
		return nil, 0, Malformed
	}
	return l, i + 1, OK
}

func parseInt(b []byte) (int64, bool) {
	if len(b) == 0 {
		return 0, false
	}
	v, err := strconv.ParseInt(string(b), 10, 64)
	return v, err == nil
}

// Decode reads one complete RESP value from the start of buf.
func Decode(buf []byte) (v Value, n int, st Status) {
	return decode(buf, 0)
}

func decode(buf []byte, depth int) (v Value, n int, st Status) {
	if len(buf) == 0 {
		return v, 0, Incomplete
	}
	if depth > 8 {
		return v, 0, Malformed
	}
	switch buf[0] {
	case '+', '-':
		l, c, s := line(buf[1:])
		if s != OK {
			return v, 0, s
		}
		return Value{Kind: Kind(buf[0]), Str: append([]byte(nil), l...)}, 1 + c, OK
	case ':':
		l, c, s := line(buf[1:])
		if s != OK {
			return v, 0, s
		}
		i, ok := parseInt(l)
		if !ok {
			return v, 0, Malformed
		}
		return Value{Kind: Integer, Int: i}, 1 + c, OK
	case '$':
		l, c, s := line(buf[1:])
		if s != OK {
			return v, 0, s
		}
		ln, ok := parseInt(l)
		if !ok || ln < -1 {
			return v, 0, Malformed
		}
		if ln == -1 {
			return Value{Kind: NilBulk}, 1 + c, OK
		}
		if ln > int64(len(buf)) {
			// cannot be complete yet (also guards the arithmetic below)
			return v, 0, Incomplete
		}
		need := 1 + c + int(ln) + 2
		if len(buf) < need {
			return v, 0, Incomplete
		}
		if buf[need-2] != '\r' || buf[need-1] != '\n' {
			return v, 0, Malformed
		}
		return Value{Kind: Bulk, Str: append([]byte(nil), buf[1+c:1+c+int(ln)]...)}, need, OK
	case '*':
		l, c, s := line(buf[1:])
		if s != OK {
			return v, 0, s
		}
		cnt, ok := parseInt(l)
		if !ok || cnt < -1 {
			return v, 0, Malformed
		}
		if cnt == -1 {
			return Value{Kind: NilArray}, 1 + c, OK
		}
		pos := 1 + c
		if cnt > int64(len(buf)) {
			return v, 0, Incomplete
		}
		arr := make([]Value, 0, cnt)
		for i := int64(0); i < cnt; i++ {
			e, en, es := decode(buf[pos:], depth+1)
			if es != OK {
				return v, 0, es
			}
			arr = append(arr, e)
			pos += en
		}
		return Value{Kind: Array, Arr: arr}, pos, OK
	}
	return v, 0, Malformed
}

// Bytes returns the payload bytes a conforming client would hand to its caller
// for string-like values.
func (v Value) Bytes() []byte { return v.Str }

func (v Value) IsNil() bool { return v.Kind == NilBulk || v.Kind == NilArray }

func (v Value) IsError() bool { return v.Kind == Error }

// StringLike reports whether the value decodes to a byte string (simple or bulk).
func (v Value) StringLike() bool { return v.Kind == Simple || v.Kind == Bulk }

func (v Value) String() string {
	switch v.Kind {
	case Simple:
		return "+" + strconv.Quote(string(v.Str))
	case Error:
		return "-" + strconv.Quote(string(v.Str))
	case Integer:
		return ":" + strconv.FormatInt(v.Int, 10)
	case Bulk:
		return "$" + strconv.Quote(string(v.Str))
	case NilBulk:
		return "$nil"
	case NilArray:
		return "*nil"
	case Array:
		s := "["
		for i, e := range v.Arr {
			if i > 0 {
				s += " "
			}
			s += e.String()
		}
		return s + "]"
	}
	return fmt.Sprintf("?%c", v.Kind)
}

// Equal is structural equality (kind and payload).
func Equal(a, b Value) bool {
	if a.Kind != b.Kind {
		return false
	}
	switch a.Kind {
	case Integer:
		return a.Int == b.Int
	case Array:
		if len(a.Arr) != len(b.Arr) {
			return false
		}
		for i := range a.Arr {
			if !Equal(a.Arr[i], b.Arr[i]) {
				return false
			}
		}
		return true
	case NilBulk, NilArray:
		return true
	}
	return bytes.Equal(a.Str, b.Str)
}

// Constructors used by the reference model.
func Str(s string) Value     { return Value{Kind: Bulk, Str: []byte(s)} }
func BulkB(b []byte) Value   { return Value{Kind: Bulk, Str: append([]byte(nil), b...)} }
func Status_(s string) Value { return Value{Kind: Simple, Str: []byte(s)} }
func Int(i int64) Value      { return Value{Kind: Integer, Int: i} }
func Nil() Value             { return Value{Kind: NilBulk} }
func NilArr() Value          { return Value{Kind: NilArray} }
func Arr(vs ...Value) Value  { return Value{Kind: Array, Arr: append([]Value{}, vs...)} }
func Err(s string) Value     { return Value{Kind: Error, Str: []byte(s)} }
