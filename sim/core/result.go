package core

import (
	"encoding/json"
	"fmt"
	"os"
	"sort"
	"strconv"
	"strings"
	"time"
)

// Case is the replay file: everything needed to repeat one run exactly.
type Case struct {
	Property    string          `json:"property"`
	Engine      string          `json:"engine"`
	Seed        int64           `json:"seed"`
	Run         int             `json:"run"`
	Profile     string          `json:"profile,omitempty"`
	Body        json.RawMessage `json:"body"`
	Tape        []uint32        `json:"tape"`
	Signature   string          `json:"signature"`
	Message     string          `json:"message"`
	ReplayExact bool            `json:"replay_exact"`
	Minimised   bool            `json:"minimised"`
	GenTape     bool            `json:"gen_tape,omitempty"` // tape is regenerated from (seed, property, run)
	Trace       []string        `json:"trace,omitempty"`
	// PreludeStride > 0: before the case, the replay runs the run this worker
	// process executed just before it (run - stride of the same seed): the failure
	// needs state that the code under test keeps across server instances.
	PreludeStride int    `json:"prelude_stride,omitempty"`
	ReplayNote    string `json:"replay_note,omitempty"`
}

type Violation struct {
	Signature string `json:"signature"`
	Message   string `json:"message"`
	Case      *Case  `json:"case"`
}

// Result is what one worker process hands back to the driver.
type Result struct {
	Property    string            `json:"property"`
	Worker      int               `json:"worker"`
	Runs        int64             `json:"runs"`
	Steps       int64             `json:"steps"`
	SimNs       float64           `json:"sim_ns"` // float: days-long clock jumps times many runs overflow int64
	WallS       float64           `json:"wall_s"`
	Nontrivial  int64             `json:"nontrivial"`
	TraceHashes []string          `json:"trace_hashes"` // distinct hashes of non-trivial runs
	StateHashes []string          `json:"state_hashes"` // distinct abstract states reached
	Faults      map[string]int64  `json:"faults"`
	Probes      map[string]int64  `json:"probes"`
	Counters    map[string]int64  `json:"counters"`
	Violations  []Violation       `json:"violations"`
	Samples     []json.RawMessage `json:"samples"`
	Notes       []string          `json:"notes"`
	Known       []KnownHit        `json:"known"`

	traceSet map[uint64]struct{}
	stateSet map[uint64]struct{}
}

func NewResult(property string, worker int) *Result {
	return &Result{Property: property, Worker: worker,
		Faults: map[string]int64{}, Probes: map[string]int64{}, Counters: map[string]int64{},
		traceSet: map[uint64]struct{}{}, stateSet: map[uint64]struct{}{}}
}

func (r *Result) Fault(kind string, n int64) { r.Faults[kind] += n }
func (r *Result) Probe(name string, n int64) { r.Probes[name] += n }
func (r *Result) Count(name string, n int64) { r.Counters[name] += n }

// AddTrace records the trace hash of one run; nontrivial by the property's rule.
func (r *Result) AddTrace(h uint64, nontrivial bool) {
	if !nontrivial {
		return
	}
	r.Nontrivial++
	r.traceSet[h] = struct{}{}
}

func (r *Result) AddState(h uint64) {
	if len(r.stateSet) < 2_000_000 {
		r.stateSet[h] = struct{}{}
	}
}

func (r *Result) AddSample(v any) {
	if len(r.Samples) >= 3 {
		return
	}
	b, err := json.Marshal(v)
	if err == nil {
		r.Samples = append(r.Samples, b)
	}
}

func (r *Result) Write(path string, start time.Time) error {
	r.WallS = time.Since(start).Seconds()
	r.TraceHashes = r.TraceHashes[:0]
	for h := range r.traceSet {
		r.TraceHashes = append(r.TraceHashes, strconv.FormatUint(h, 16))
	}
	sort.Strings(r.TraceHashes)
	r.StateHashes = r.StateHashes[:0]
	for h := range r.stateSet {
		r.StateHashes = append(r.StateHashes, strconv.FormatUint(h, 16))
	}
	sort.Strings(r.StateHashes)
	b, err := json.Marshal(r)
	if err != nil {
		return err
	}
	tmp := path + ".tmp"
	if err := os.WriteFile(tmp, b, 0o644); err != nil {
		return err
	}
	return os.Rename(tmp, path)
}

// Env is the worker's view of its invocation.
type Env struct {
	Mode     string // batch | replay | minimise
	Property string
	Tier     string
	Seed     int64
	Worker   int
	Workers  int
	Runs     int     // total runs over all workers (0 = until wall budget)
	WallS    float64 // per-worker wall budget
	Out      string
	Journal  string
	CasePath string
	Known    map[string]bool // known-finding signatures for this property
	Params   map[string]string
	Start    time.Time
	J        *Journal
}

func getenv(k, d string) string {
	if v := os.Getenv(k); v != "" {
		return v
	}
	return d
}

func ReadEnv() *Env {
	e := &Env{Known: map[string]bool{}, Params: map[string]string{}, Start: time.Now()}
	e.Mode = getenv("VERIF_MODE", "batch")
	e.Property = getenv("VERIF_PROP", "")
	e.Tier = getenv("VERIF_TIER", "quick")
	e.Seed, _ = strconv.ParseInt(getenv("VERIF_SEED", "1"), 10, 64)
	e.Worker, _ = strconv.Atoi(getenv("VERIF_WORKER", "0"))
	e.Workers, _ = strconv.Atoi(getenv("VERIF_WORKERS", "1"))
	e.Runs, _ = strconv.Atoi(getenv("VERIF_RUNS", "0"))
	e.WallS, _ = strconv.ParseFloat(getenv("VERIF_WALL_S", "30"), 64)
	e.Out = getenv("VERIF_OUT", "")
	e.Journal = getenv("VERIF_JOURNAL", "")
	e.CasePath = getenv("VERIF_CASE", "")
	for _, s := range strings.Split(getenv("VERIF_KNOWN", ""), "\n") {
		s = strings.TrimSpace(s)
		if s != "" {
			e.Known[s] = true
		}
	}
	for _, kv := range strings.Split(getenv("VERIF_PARAMS", ""), ",") {
		if i := strings.IndexByte(kv, '='); i > 0 {
			e.Params[kv[:i]] = kv[i+1:]
		}
	}
	return e
}

func (e *Env) ParamInt(k string, d int) int {
	if v, ok := e.Params[k]; ok {
		if n, err := strconv.Atoi(v); err == nil {
			return n
		}
	}
	return d
}

// Glob matches s against a pattern in which '*' stands for any run of
// characters (no other metacharacters).
func Glob(pat, s string) bool {
	for len(pat) > 0 {
		if pat[0] == '*' {
			for len(pat) > 0 && pat[0] == '*' {
				pat = pat[1:]
			}
			if len(pat) == 0 {
				return true
			}
			for i := 0; i <= len(s); i++ {
				if Glob(pat, s[i:]) {
					return true
				}
			}
			return false
		}
		if len(s) == 0 || pat[0] != s[0] {
			return false
		}
		pat, s = pat[1:], s[1:]
	}
	return len(s) == 0
}

// IsKnown reports whether a violation signature is a listed finding; it
// returns the listing pattern that matched.
func (e *Env) IsKnown(sig string) (string, bool) {
	if e.Known[sig] {
		return sig, true
	}
	for pat := range e.Known {
		if strings.Contains(pat, "*") && Glob(pat, sig) {
			return pat, true
		}
	}
	return "", false
}

// TimeUp reports whether the worker's wall budget is used (never consulted
// inside a run: only between runs, so it cannot perturb a schedule).
func (e *Env) TimeUp() bool { return time.Since(e.Start).Seconds() > e.WallS }

// Journal: the worker writes what it is about to do before doing it, so that
// the driver can attribute a process death.
type Journal struct{ f *os.File }

func OpenJournal(path string) *Journal {
	if path == "" {
		return &Journal{}
	}
	f, err := os.OpenFile(path, os.O_CREATE|os.O_WRONLY|os.O_TRUNC, 0o644)
	if err != nil {
		return &Journal{}
	}
	return &Journal{f: f}
}

// Begin records the case about to run (overwrites the previous one).
func (j *Journal) Begin(c *Case) {
	if j.f == nil {
		return
	}
	b, _ := json.Marshal(c)
	j.f.Truncate(0)
	j.f.Seek(0, 0)
	j.f.Write(b)
	j.f.Write([]byte("\n"))
}

// Step appends one line describing the step about to execute.
func (j *Journal) Step(format string, a ...any) {
	if j.f == nil {
		return
	}
	fmt.Fprintf(j.f, format+"\n", a...)
}

func (j *Journal) Done() {
	if j.f == nil {
		return
	}
	j.f.Truncate(0)
	j.f.Seek(0, 0)
}

func LoadCase(path string) (*Case, error) {
	b, err := os.ReadFile(path)
	if err != nil {
		return nil, err
	}
	c := &Case{}
	if err := json.Unmarshal(b, c); err == nil {
		return c, nil
	}
	// a journal file has the case on its first line
	if i := strings.IndexByte(string(b), '\n'); i > 0 {
		b = b[:i]
	}
	c = &Case{}
	if err := json.Unmarshal(b, c); err != nil {
		return nil, err
	}
	return c, nil
}

func SaveCase(path string, c *Case) error {
	b, err := json.MarshalIndent(c, "", " ")
	if err != nil {
		return err
	}
	return os.WriteFile(path, b, 0o644)
}
