package core

import (
	"fmt"
	"os"
	"runtime"
	"runtime/pprof"
	"sort"
	"sync/atomic"
	"time"
)

// Engine is what a simulation engine offers to the common worker loop.
type Engine interface {
	// Run generates and executes run number `run` of the batch.  It returns a
	// violation (with its un-minimised case) or nil.  It records coverage in res.
	Run(env *Env, run int, res *Result) *Violation
	// Replay executes a stored case exactly; returns "" if nothing is violated.
	Replay(env *Env, c *Case) (signature, message string, trace []string)
	// Minimise shrinks the case while the same signature persists.
	Minimise(env *Env, c *Case) *Case
}

type KnownHit struct {
	Signature string `json:"signature"`
	Count     int64  `json:"count"`
	Message   string `json:"message"`
	Case      *Case  `json:"case"`
}

// memStats (VERIF_MEMSTATS=1, development aid): goroutine and heap figures every 2000 runs.
var memStats = os.Getenv("VERIF_MEMSTATS") == "1"

// WorkerMain is the body of every worker test binary.  Exit status: 0 batch
// finished (violations, if any, are in the result file); 10 replay reproduced
// a violation; 11 trouble.  Anything else is a process death.
func WorkerMain(env *Env, eng Engine) int {
	env.J = OpenJournal(env.Journal)
	startWatchdog(env)
	switch env.Mode {
	case "replay", "minimise":
		c, err := LoadCase(env.CasePath)
		if err != nil {
			fmt.Println("cannot load case:", err)
			return 11
		}
		if env.Mode == "minimise" {
			c = eng.Minimise(env, c)
			if env.Out != "" {
				SaveCase(env.Out, c)
			}
		}
		if c.PreludeStride > 0 && c.Run-c.PreludeStride >= 0 {
			e2 := *env
			e2.Seed, e2.Property, e2.J = c.Seed, c.Property, &Journal{}
			fmt.Printf("prelude: run %d of seed %d\n", c.Run-c.PreludeStride, c.Seed)
			eng.Run(&e2, c.Run-c.PreludeStride, NewResult(c.Property, 0))
		}
		sig, msg, trace := eng.Replay(env, c)
		for _, l := range trace {
			fmt.Println("  ", l)
		}
		if sig == "" {
			fmt.Println("REPLAY clean")
			return 0
		}
		fmt.Printf("REPLAY signature=%s\n  %s\n", sig, msg)
		return 10
	}
	res := NewResult(env.Property, env.Worker)
	known := map[string]*KnownHit{}
	seen := map[string]bool{}
	suspects := map[string]*Violation{}
	for run := env.Worker; ; run += env.Workers {
		if env.Runs > 0 && run >= env.Runs {
			break
		}
		if env.TimeUp() {
			res.Notes = append(res.Notes, fmt.Sprintf("wall budget reached at run %d", run))
			break
		}
		Tick()
		v := eng.Run(env, run, res)
		res.Runs++
		if memStats && res.Runs%2000 == 0 {
			var ms runtime.MemStats
			runtime.ReadMemStats(&ms)
			fmt.Fprintf(os.Stderr, "memstats runs=%d goroutines=%d heap_inuse=%dMB sys=%dMB\n", res.Runs, runtime.NumGoroutine(), ms.HeapInuse>>20, ms.Sys>>20)
			if res.Runs == 4000 {
				pprof.Lookup("goroutine").WriteTo(os.Stderr, 1)
			}
		}
		if v == nil {
			continue
		}
		if pat, ok := env.IsKnown(v.Signature); ok {
			k := known[pat]
			if k == nil {
				k = &KnownHit{Signature: pat, Message: v.Signature + ": " + v.Message, Case: v.Case}
				known[pat] = k
			}
			k.Count++
			continue
		}
		if seen[v.Signature] {
			res.Count("violations_repeated", 1)
			continue
		}
		if cf, ok := eng.(Confirmer); ok && v.Case != nil && v.Case.ReplayExact && !cf.Confirm(env, v.Case) {
			// the violation does not recur when the same case runs again with the
			// process's pools flushed: it depended on something an earlier run of
			// this worker left behind in the code under test (a sync.Pool, a
			// package-level variable).  Keep looking for a self-contained case of
			// the same signature; if none turns up the suspect is handed to the
			// driver as it is (whose fresh-process replay decides).
			res.Count("violations_not_confirmed_in_isolation", 1)
			if suspects[v.Signature] == nil {
				suspects[v.Signature] = v
			}
			continue
		}
		seen[v.Signature] = true
		if v.Case != nil && os.Getenv("VERIF_NOMIN") == "" {
			mc := eng.Minimise(env, v.Case)
			if mc != nil {
				v.Case = mc
				v.Message = mc.Message
			}
		}
		res.Violations = append(res.Violations, *v)
		if len(res.Violations) >= 4 {
			res.Notes = append(res.Notes, "stopped after 4 distinct violation signatures")
			break
		}
	}
	var ss []string
	for s := range suspects {
		if !seen[s] {
			ss = append(ss, s)
		}
	}
	sort.Strings(ss)
	for _, s := range ss {
		res.Violations = append(res.Violations, *suspects[s])
	}
	var ks []string
	for s := range known {
		ks = append(ks, s)
	}
	sort.Strings(ks)
	for _, s := range ks {
		k := known[s]
		res.Notes = append(res.Notes, fmt.Sprintf("known-finding hit %s x%d", s, k.Count))
		res.Counters["known:"+s] += k.Count
		res.Known = append(res.Known, *k)
	}
	if env.Out != "" {
		if err := res.Write(env.Out, env.Start); err != nil {
			fmt.Println("cannot write result:", err)
			return 11
		}
	}
	return 0
}

// DDMin is delta debugging over a slice: returns a (1-minimal-ish) subsequence
// for which test still reports true.  test(items) must be true on entry.
func DDMin[T any](items []T, test func([]T) bool) []T {
	n := 2
	for len(items) >= 1 {
		if n > len(items) {
			n = len(items)
		}
		if n < 1 {
			break
		}
		chunk := (len(items) + n - 1) / n
		reduced := false
		// try complements (remove one chunk)
		for i := 0; i < len(items); i += chunk {
			j := i + chunk
			if j > len(items) {
				j = len(items)
			}
			cand := append(append([]T(nil), items[:i]...), items[j:]...)
			if test(cand) {
				items = cand
				if n > 2 {
					n--
				}
				reduced = true
				break
			}
		}
		if !reduced {
			if chunk == 1 {
				break
			}
			n *= 2
		}
	}
	return items
}

// MinimiseTape shortens and zeroes a tape while test stays true.
func MinimiseTape(tape []uint32, test func([]uint32) bool) []uint32 {
	// 1. truncate (binary search on the shortest failing prefix is unsound in
	// general; do halving passes instead)
	for len(tape) > 0 {
		cut := len(tape) / 2
		if test(tape[:cut]) {
			tape = tape[:cut]
			continue
		}
		break
	}
	for step := len(tape) / 4; step >= 1; step /= 2 {
		for len(tape) > step {
			if test(tape[:len(tape)-step]) {
				tape = tape[:len(tape)-step]
			} else {
				break
			}
		}
	}
	// 2. zero blocks, then single cells
	tape = append([]uint32(nil), tape...)
	for blk := len(tape) / 2; blk >= 1; blk /= 2 {
		for i := 0; i+blk <= len(tape); i += blk {
			allZero := true
			for _, v := range tape[i : i+blk] {
				if v != 0 {
					allZero = false
				}
			}
			if allZero {
				continue
			}
			cand := append([]uint32(nil), tape...)
			for k := i; k < i+blk; k++ {
				cand[k] = 0
			}
			if test(cand) {
				tape = cand
			}
		}
		if blk == 1 {
			break
		}
	}
	// 3. drop trailing zeros (implicit)
	for len(tape) > 0 && tape[len(tape)-1] == 0 {
		tape = tape[:len(tape)-1]
	}
	return tape
}

// Confirmer is implemented by engines that can re-run a case in isolation
// from whatever earlier runs left in process-global state of the code under test.
type Confirmer interface {
	Confirm(env *Env, c *Case) bool
}

// ---- hang watchdog ----------------------------------------------------------
//
// The engines call Tick at every simulated step.  A step that takes more than
// hangLimit of real time means the code under test spins or blocks outside
// everything the simulator controls: the worker then exits with status 12 and
// the driver reports the hang (with the journal's last command) instead of
// waiting for its own watchdog.

// Watchdog is set by engines whose every simulated step calls Tick (E1).
var Watchdog bool

var ticks atomic.Int64

// Tick records progress.  (A counter, not a clock reading: inside a synctest
// bubble time.Now is the simulated clock.)
func Tick() { ticks.Add(1) }

const hangLimit = 45 * time.Second

func startWatchdog(env *Env) {
	if !Watchdog || os.Getenv("VERIF_WATCHDOG") == "0" {
		return
	}
	go func() {
		last, since := ticks.Load(), time.Now()
		for {
			time.Sleep(2 * time.Second)
			if cur := ticks.Load(); cur != last {
				last, since = cur, time.Now()
				continue
			}
			if time.Since(since) > hangLimit {
				fmt.Fprintf(os.Stderr, "WATCHDOG: no simulated step completed for %v: the code under test hangs\n", hangLimit)
				os.Exit(12)
			}
		}
	}()
}
