// Package core holds what every engine shares: the seeded PRNG, the choice
// tape, the case/replay envelope, the per-worker result record and helpers.
package core

import (
	"hash/fnv"
)

// Rand is splitmix64: tiny, stateless to copy, identical everywhere.
type Rand struct{ s uint64 }

func NewRand(seed uint64) *Rand { return &Rand{s: seed} }

func (r *Rand) Uint64() uint64 {
	r.s += 0x9e3779b97f4a7c15
	z := r.s
	z = (z ^ (z >> 30)) * 0xbf58476d1ce4e5b9
	z = (z ^ (z >> 27)) * 0x94d049bb133111eb
	return z ^ (z >> 31)
}

func (r *Rand) Intn(n int) int {
	if n <= 1 {
		return 0
	}
	return int(r.Uint64() % uint64(n))
}

func (r *Rand) Int63() int64 { return int64(r.Uint64() >> 1) }

func (r *Rand) Float() float64 { return float64(r.Uint64()>>11) / float64(1<<53) }

func (r *Rand) Bool(p float64) bool { return r.Float() < p }

// Range returns a value in [lo,hi].
func (r *Rand) Range(lo, hi int) int {
	if hi <= lo {
		return lo
	}
	return lo + r.Intn(hi-lo+1)
}

func (r *Rand) Pick(n int) int { return r.Intn(n) }

// Fork derives an independent stream.
func (r *Rand) Fork() *Rand { return NewRand(r.Uint64()) }

// Mix hashes integers into one seed (order-sensitive).
func Mix(parts ...uint64) uint64 {
	h := uint64(0x243f6a8885a308d3)
	for _, p := range parts {
		h ^= p + 0x9e3779b97f4a7c15 + (h << 6) + (h >> 2)
		r := Rand{s: h}
		h = r.Uint64()
	}
	return h
}

func HashString(s string) uint64 {
	h := fnv.New64a()
	h.Write([]byte(s))
	return h.Sum64()
}

// RunSeed is the one integer a run is a pure function of.
func RunSeed(verifSeed int64, property string, run int) uint64 {
	return Mix(uint64(verifSeed), HashString(property), uint64(run))
}
