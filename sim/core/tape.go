package core

// Tape is the schedule/fault tape: one small integer per run-time decision.
// Generating: values come from the PRNG and are recorded.  Replaying: values
// come from Vals; past the end every decision is 0 (= first enabled choice in
// the fixed order), so a shorter or zero-er tape is a simpler schedule.
type Tape struct {
	Vals   []uint32
	pos    int
	rng    *Rand
	replay bool
}

func NewGenTape(rng *Rand) *Tape { return &Tape{rng: rng} }

func NewReplayTape(vals []uint32) *Tape {
	return &Tape{Vals: append([]uint32(nil), vals...), replay: true}
}

// Draw returns a decision in [0,n).  n<=1 consumes nothing.
func (t *Tape) Draw(n int) int {
	if n <= 1 {
		return 0
	}
	var v uint32
	if t.replay {
		if t.pos < len(t.Vals) {
			v = t.Vals[t.pos]
		}
		t.pos++
		return int(v % uint32(n))
	}
	v = uint32(t.rng.Uint64() % uint64(n))
	t.Vals = append(t.Vals, v)
	t.pos++
	return int(v)
}

// Chance is a biased coin: true with probability num/den.  On an exhausted
// replay tape it is false (no fault).
func (t *Tape) Chance(num, den int) bool {
	if num <= 0 {
		return false
	}
	if num >= den {
		return true
	}
	// value 0 must mean "no", so that zeroing simplifies
	return t.Draw(den) >= den-num
}

func (t *Tape) Pos() int { return t.pos }

// Used returns the recorded/consumed prefix.
func (t *Tape) Used() []uint32 {
	if t.replay {
		n := t.pos
		if n > len(t.Vals) {
			n = len(t.Vals)
		}
		return append([]uint32(nil), t.Vals[:n]...)
	}
	return append([]uint32(nil), t.Vals...)
}
