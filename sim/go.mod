module verifsim

go 1.26

require (
	github.com/anishathalye/porcupine v1.3.0
	github.com/google/uuid v1.3.0
	github.com/innovationb1ue/RedisGO v0.0.0
	go.etcd.io/etcd/client/pkg/v3 v3.6.0-alpha.0
	go.etcd.io/etcd/pkg/v3 v3.6.0-alpha.0
	go.etcd.io/etcd/raft/v3 v3.6.0-alpha.0
	go.etcd.io/etcd/server/v3 v3.6.0-alpha.0
	go.uber.org/zap v1.21.0
)

require (
	github.com/beorn7/perks v1.0.1 // indirect
	github.com/cespare/xxhash/v2 v2.1.2 // indirect
	github.com/coreos/go-semver v0.3.0 // indirect
	github.com/dustin/go-humanize v1.0.0 // indirect
	github.com/gogo/protobuf v1.3.2 // indirect
	github.com/golang/protobuf v1.5.2 // indirect
	github.com/matttproud/golang_protobuf_extensions v1.0.1 // indirect
	github.com/prometheus/client_golang v1.12.2 // indirect
	github.com/prometheus/client_model v0.2.0 // indirect
	github.com/prometheus/common v0.32.1 // indirect
	github.com/prometheus/procfs v0.7.3 // indirect
	github.com/xiang90/probing v0.0.0-20190116061207-43a291ad63a2 // indirect
	go.etcd.io/etcd/api/v3 v3.6.0-alpha.0 // indirect
	go.uber.org/atomic v1.7.0 // indirect
	go.uber.org/multierr v1.8.0 // indirect
	golang.org/x/net v0.0.0-20220919171627-f8f703f97925 // indirect
	golang.org/x/sys v0.0.0-20220728004956-3c1f35247d10 // indirect
	golang.org/x/text v0.3.7 // indirect
	golang.org/x/time v0.0.0-20220609170525-579cf78fd858 // indirect
	google.golang.org/genproto v0.0.0-20220329172620-7be39ac1afc7 // indirect
	google.golang.org/grpc v1.47.0 // indirect
	google.golang.org/protobuf v1.28.0 // indirect
)

replace (
	github.com/innovationb1ue/RedisGO => /repo
	go.etcd.io/etcd/api/v3 => /repo/etcd/api
	go.etcd.io/etcd/client/pkg/v3 => /repo/etcd/client/pkg
	go.etcd.io/etcd/client/v2 => /repo/etcd/client/v2
	go.etcd.io/etcd/client/v3 => /repo/etcd/client/v3
	go.etcd.io/etcd/pkg/v3 => /repo/etcd/pkg
	go.etcd.io/etcd/raft/v3 => /repo/etcd/raft
	go.etcd.io/etcd/server/v3 => /repo/etcd/server
)
