package e4

import (
	"os"
	"path/filepath"

	"verifsim/core"
)

func (s *session) judgePending() {
	for len(s.pending) > 0 {
		img := s.pending[0]
		s.pending = s.pending[1:]
		if !s.r.failed() {
			s.judge(img)
		}
		os.RemoveAll(img.root)
	}
}

// judge recovers from one crash image and compares with the reference; from
// some level-1 images the storage then lives a second life and crashes again.
func (s *session) judge(img *image) {
	r := s.r
	cfg := &r.b.Cfg
	prev := cur
	defer func() { cur = prev }()
	wasArmed := s.armed
	s.armed = false
	defer func() { s.armed = wasArmed }()

	second := false
	if s.level == 1 && !r.noLevel2 && cfg.P2 > 0 && len(r.b.Ops2) > 0 {
		switch {
		case r.ch.replay || r.mode == modeSample:
			second = r.ch.chance(cfg.P2)
		case r.mode == modeEnum:
			second = r.ch.forceChance(r.imgSeq%17 == 0)
		default:
			second = r.ch.forceChance(false)
		}
	}
	walDir, snapDir := filepath.Join(img.root, "wal"), filepath.Join(img.root, "snap")
	var s2 *session
	cur = nil
	if second {
		s2 = &session{r: r, level: 2, walDir: walDir, snapDir: snapDir, dur: map[uint64][]byte{}, parent: img.hash}
		s2.registerDurable()
		s2.leftoverTmp = map[string][]byte{}
		for _, name := range sortedNames(walDir) {
			if isTmp(name) {
				if b, err := os.ReadFile(filepath.Join(walDir, name)); err == nil && !allZero(b) {
					s2.leftoverTmp[name] = b
				}
			}
		}
		cur = s2
	}
	r.lastOp[s.level-1] = img.opIdx
	r.logf("L%d crash image #%d: %s-sync point %d in op %d (%s) file %q; %s; written so far %d records, obliged durable %d",
		img.level, r.imgSeq, img.kind, img.point, img.opIdx, img.opKind, img.file, img.lostDesc, img.wlen, img.d)
	res := recoverDirs(walDir, snapDir, true, second)
	r.curLevel = s.level
	k, ok := s.evaluate(img, res)
	r.curLevel = 0
	if !ok {
		closeQuietly(res.w)
		return
	}
	// ---- coverage --------------------------------------------------------
	r.count("evaluations", 1)
	r.count("images_crash", 1)
	switch img.kind {
	case "before":
		r.fault("crash-before-sync", 1)
	case "after":
		r.fault("crash-after-sync", 1)
	case "write":
		r.fault("crash-after-write-in-mid-save", 1)
	default:
		r.fault("crash-between-ops", 1)
	}
	r.fault("sectors-lost", int64(img.nLost))
	r.fault("sectors-survived-unsynced", int64(img.nDirty-img.nLost))
	if img.torn {
		r.fault("torn-record", 1)
	}
	if img.level == 2 {
		r.fault("second-crash", 1)
	}
	if res.repaired {
		r.probe("needed-repair", 1)
	}
	if k > img.d {
		r.probe("unsynced-records-survived", 1)
	} else {
		r.probe("recovered-exactly-durable-prefix", 1)
	}
	if k < img.done {
		r.probe("commit-only-save-lost", 1)
	}
	if k < img.wlen {
		r.probe("records-in-flight-lost", 1)
	}
	if img.inCut {
		r.probe("crash-during-cut", 1)
	}
	if img.opKind == "snap" && img.kind != "between" {
		r.probe("crash-during-savesnapshot", 1)
	}
	if img.opKind == "close" && img.kind != "between" {
		r.probe("crash-during-close", 1)
	}
	if img.firstSync && s.lastOpCut && img.opIdx == s.opIdx && img.nDirty > 0 {
		r.probe("segment-cut-with-unsynced-tail", 1)
	}
	if res.fallback {
		r.probe("snapshot-fallback-used", 1)
	}
	if res.snapshot != nil {
		r.probe("recovered-from-snapshot", 1)
	}
	if r.res != nil {
		r.res.AddTrace(img.hash, img.nLost > 0)
		r.res.AddState(core.Mix(res.rw.hs.Term, res.rw.hs.Vote, res.rw.hs.Commit, uint64(len(res.rw.ents)), uint64(b2i(res.repaired)), core.HashString(errClass(res))))
		if img.nLost > 0 && (res.repaired || k > img.d) {
			r.res.AddSample(map[string]any{"kind": "crash", "ops": opStrings(s.opsSoFar()), "crash_point": img.kind + "-sync in op " + img.opKind,
				"file": img.file, "lost": img.lostDesc, "repair_used": res.repaired, "records_written": img.wlen,
				"records_obliged": img.d, "records_recovered": k, "recovered": describe(res.rw)})
		}
	}
	r.mix(img.hash, uint64(k), uint64(b2i(res.repaired)), res.walsnap.Index)
	r.logf("   recovered %s at snapshot %d = fold of %d records (repair=%v)", describe(res.rw), res.walsnap.Index, k, res.repaired)

	if !second {
		return
	}
	// ---- second life -----------------------------------------------------
	m2 := newModel(cfg)
	m2.epoch = 1
	for i := 0; i < k; i++ {
		m2.push(s.m.W[i])
	}
	m2.d, m2.done = k, k
	for _, c := range s.m.cuts {
		if c <= k {
			m2.cuts = append(m2.cuts, c)
		}
	}
	m2.snaps = append(m2.snaps, s.m.snaps...)
	m2.doneSnap = res.walsnap.Index
	s2.m = m2
	s2.w = res.w
	s2.lost = append(s2.lost, s.m.W[k:img.wlen]...)
	r.probe("second-life-started", 1)
	r.logf("   second life starts from this image")
	s2.runOps(r.b.Ops2)
	r.logf("   second life ended")
}

func (s *session) opsSoFar() []op {
	ops := s.r.b.Ops
	if s.level == 2 {
		ops = s.r.b.Ops2
	}
	n := s.opIdx + 1
	if n > len(ops) {
		n = len(ops)
	}
	return ops[:n]
}

func opStrings(ops []op) []string {
	out := make([]string, len(ops))
	for i, o := range ops {
		out[i] = o.String()
	}
	return out
}

// evaluate applies the oracle to one recovered crash image.  It returns the
// length of the record prefix that was recovered.
func (s *session) evaluate(img *image, res *recResult) (int, bool) {
	r := s.r
	m := s.m
	notPrefix := "C16/recovery/not-a-prefix"
	if s.level == 2 {
		notPrefix = "C16/recovery/stale-resurrected"
	}
	where := "crash at " + img.kind + "-sync point in op " + img.opKind + ", " + img.lostDesc
	if res.err != nil {
		sig := "C16/recovery/fatal-error"
		if ev := s.staleTmpEvidence(filepath.Join(img.root, "wal")); ev != "" {
			r.fail(sigStaleTmp, "%s: recovery failed in %s: %v; %s", where, res.stage, res.err, ev)
			return 0, false
		}
		if s.level == 2 && img.stale {
			// the torn write landed on sectors whose durable content is the
			// residue of the first life's torn tail (zeroed by ReadAll, but the
			// zeroing was never synced)
			sig = "C16/recovery/torn-tail-over-stale-bytes-fatal"
		}
		r.fail(sig, "%s: recovery failed in %s: %v", where, res.stage, res.err)
		return 0, false
	}
	if !s.checkSnapshot(res, img.doneSnap, "C16/durability/completed-snapshot-lost") {
		return 0, false
	}
	k := matchPrefix(m.W, img.wlen, res.walsnap.Index, m.meta, res.rw)
	if k < 0 {
		if b, kl := matchLiteral(m.W, img.wlen, m.cuts, res.walsnap.Index, res.rw); kl >= 0 {
			r.fail(sigOverwritten, "%s: recovered %s at snapshot %d is what ReadAll literally folds from records %d..%d, but the log those saves describe is %s: an entry past the snapshot index that a later save had overwritten (from an index at or below the snapshot) was returned",
				where, describe(res.rw), res.walsnap.Index, b, kl, describeFold(m.W, kl, res.walsnap.Index))
			return 0, false
		}
		r.fail(notPrefix, "%s: recovered %s (snapshot %d, repair=%v) is the fold of no prefix of the %d records written; full fold would be %s",
			where, describe(res.rw), res.walsnap.Index, res.repaired, img.wlen, describeFold(m.W, img.wlen, res.walsnap.Index))
		return 0, false
	}
	if k < img.d {
		r.fail("C16/durability/completed-save-lost", "%s: recovered %s = fold of %d records, but the first %d records belong to completed saves that were obliged durable (record %d: %s)",
			where, describe(res.rw), k, img.d, k, m.W[k].String())
		return 0, false
	}
	// the untouched image read through OpenForRead / Verify
	if res.roErr != nil {
		r.fail("C16/recovery/fatal-error", "%s: OpenForRead+ReadAll on the crash image failed: %v", where, res.roErr)
		return 0, false
	}
	kro := matchPrefix(m.W, img.wlen, res.walsnap.Index, m.meta, res.ro)
	if kro < 0 {
		r.fail(notPrefix, "%s: read-only ReadAll returned %s, the fold of no prefix of the %d records written", where, describe(res.ro), img.wlen)
		return 0, false
	}
	if kro < img.d {
		r.fail("C16/durability/completed-save-lost", "%s: read-only ReadAll returned %s = fold of %d records, %d were obliged durable", where, describe(res.ro), kro, img.d)
		return 0, false
	}
	if res.verErr != nil {
		r.fail("C16/recovery/fatal-error", "%s: wal.Verify on the crash image failed: %v", where, res.verErr)
		return 0, false
	}
	if res.verifyHS == nil || !hsEq(*res.verifyHS, res.ro.hs) {
		r.fail(notPrefix, "%s: wal.Verify returned a hard state different from ReadAll's %s", where, describe(res.ro))
		return 0, false
	}
	if kro != k {
		r.probe("readonly-and-repaired-prefix-differ", 1)
	}
	return k, true
}
