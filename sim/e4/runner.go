package e4

import (
	"encoding/json"
	"fmt"
	"os"
	"path/filepath"
	"strings"

	"verifsim/core"

	"go.etcd.io/etcd/server/v3/storage/wal"
)

// chooser wraps the tape.  Enumerating generators record the value they want
// ("force"); a replay reads whatever the tape holds at that position, so the
// read protocol is the same in every mode.
type chooser struct {
	t      *core.Tape
	replay bool
}

func (c *chooser) draw(n int) int { return c.t.Draw(n) }

func (c *chooser) force(n, v int) int {
	if n <= 1 {
		return 0
	}
	if c.replay {
		return c.t.Draw(n)
	}
	c.t.Vals = append(c.t.Vals, uint32(v))
	return v
}

// chance: true with probability permille/1000 (1..999); 0 on the tape = no.
func (c *chooser) chance(permille int) bool { return c.t.Chance(permille, 1000) }

func (c *chooser) forceChance(yes bool) bool {
	if c.replay {
		return c.t.Chance(500, 1000)
	}
	v := uint32(0)
	if yes {
		v = 999
	}
	c.t.Vals = append(c.t.Vals, v)
	return yes
}

const (
	modeSample = iota // image choices drawn from the tape
	modeEnum          // thorough tier: enumerate sector patterns at every point
	modeSearch        // minimiser: a light enumeration to re-find a signature
)

type runner struct {
	traceAll bool
	env                          *core.Env
	res                          *core.Result // nil when replaying / minimising
	b                            *body
	ch                           *chooser
	mode                         int
	root                         string
	imgSeq                       int
	opsHash                      uint64
	runHash                      uint64
	sig                          string
	knownSig                     string
	knownMsg                     string
	msg                          string
	trace                        []string
	verbose                      bool
	lastOp                       [2]int // last op index (per level) an image was judged in
	noLevel2, noCorrupt, noCrash bool
	curLevel, failLevel          int     // session level being judged / at the violation
	lastCor                      [2]byte // old and new value of the last corrupted byte
	searchCor                    *[2]byte
}

var scratchBase = fmt.Sprintf("/dev/shm/verif-e4-%d", os.Getpid())

func (r *runner) logf(format string, a ...any) {
	if r.verbose && (r.traceAll || len(r.trace) < 400) {
		r.trace = append(r.trace, fmt.Sprintf(format, a...))
	}
}

func (r *runner) fail(sig, format string, a ...any) {
	if r.sig != "" {
		return
	}
	if r.res != nil && r.env != nil {
		if _, ok := r.env.IsKnown(sig); ok {
			// a listed finding: note it, keep exploring the rest of the run
			// (the run's first known hit is handed to the worker loop at the end)
			if r.knownSig == "" {
				r.knownSig, r.knownMsg = sig, fmt.Sprintf(format, a...)
			}
			r.count("known-hits:"+sig, 1)
			return
		}
	}
	r.sig = sig
	r.failLevel = r.curLevel
	r.msg = fmt.Sprintf(format, a...)
	r.logf("VIOLATION %s: %s", sig, r.msg)
}

func (r *runner) failed() bool { return r.sig != "" }

func (r *runner) mix(parts ...uint64) {
	r.runHash = core.Mix(append([]uint64{r.runHash}, parts...)...)
	if r.traceAll {
		r.logf("   mix %x", parts)
	}
}

func (r *runner) fault(k string, n int64) {
	if r.res != nil && n != 0 {
		r.res.Fault(k, n)
	}
}
func (r *runner) probe(k string, n int64) {
	if r.res != nil && n != 0 {
		r.res.Probe(k, n)
	}
}
func (r *runner) count(k string, n int64) {
	if r.res != nil && n != 0 {
		r.res.Count(k, n)
	}
}

func (r *runner) newDir(prefix string) string {
	r.imgSeq++
	return filepath.Join(r.root, fmt.Sprintf("%s%d", prefix, r.imgSeq))
}

// execute performs the whole run: workload with crash images (and, from some
// images, a second life with a second crash), clean close, corrupted images.
func (r *runner) execute() {
	os.RemoveAll(r.root)
	if err := os.MkdirAll(r.root, 0o750); err != nil {
		r.fail("C16/harness/scratch", "cannot create scratch dir: %v", err)
		return
	}
	defer func() {
		cur = nil
		os.RemoveAll(r.root)
	}()
	ob, _ := json.Marshal(r.b.Ops)
	r.opsHash = core.Mix(core.HashString(string(ob)), uint64(r.b.Cfg.Seg), r.b.Cfg.Salt, core.HashString(r.b.Cfg.Meta))
	r.runHash = r.opsHash
	wal.SegmentSizeBytes = r.b.Cfg.Seg

	live := filepath.Join(r.root, "live")
	s := &session{r: r, level: 1, walDir: filepath.Join(live, "wal"), snapDir: filepath.Join(live, "snap"),
		dur: map[uint64][]byte{}, m: newModel(&r.b.Cfg)}
	if err := os.MkdirAll(s.snapDir, 0o750); err != nil {
		r.fail("C16/harness/scratch", "mkdir: %v", err)
		return
	}
	cur = s
	w, err := wal.Create(nop, s.walDir, s.m.meta)
	if err != nil {
		r.fail("C16/harness/workload-error", "wal.Create: %v", err)
		return
	}
	s.w = w
	s.runOps(r.b.Ops)
	cur = nil
	if r.failed() || r.noCorrupt {
		return
	}
	r.corruptPhase(s)
}

func isTmp(name string) bool  { return strings.HasSuffix(name, ".tmp") }
func isSnap(name string) bool { return strings.HasSuffix(name, ".snap") }
func isWal(name string) bool  { return strings.HasSuffix(name, ".wal") }
