package e4

import (
	"encoding/json"
	"fmt"
	"os"
	"path/filepath"
	"strconv"
	"strings"
	"syscall"
	"time"

	"verifsim/core"
)

type engine struct{}

var detlogStarted bool

func newRunner(env *core.Env, res *core.Result, b *body, tape *core.Tape, replay bool) *runner {
	r := &runner{env: env, res: res, b: b, ch: &chooser{t: tape, replay: replay},
		root: filepath.Join(scratchBase, "run")}
	if !replay && b.Cfg.Exhaustive {
		r.mode = modeEnum
	}
	return r
}

func (engine) Run(env *core.Env, run int, res *core.Result) *core.Violation {
	seed := core.RunSeed(env.Seed, "C16", run)
	b := genBody(seed, env.Tier)
	tape := core.NewGenTape(core.NewRand(core.Mix(seed, 0x7a9e)))
	bj, _ := json.Marshal(b)
	c := &core.Case{Property: "C16", Engine: "e4", Seed: env.Seed, Run: run, Body: bj, ReplayExact: true}
	if env.J != nil {
		env.J.Begin(c)
	}
	r := newRunner(env, res, b, tape, false)
	traceDir := os.Getenv("VERIF_E4_TRACE") // development aid: the full event log of every run
	if traceDir != "" {
		r.verbose, r.traceAll = true, true
	}
	r.execute()
	if traceDir != "" {
		os.WriteFile(fmt.Sprintf("%s/run%d.trace", traceDir, run), []byte(strings.Join(r.trace, "\n")+"\n"), 0o644)
	}
	if env.J != nil {
		env.J.Done()
	}
	if p := os.Getenv("VERIF_DETLOG"); p != "" {
		flags := os.O_CREATE | os.O_WRONLY | os.O_APPEND
		if !detlogStarted {
			flags |= os.O_TRUNC // one log per process
			detlogStarted = true
		}
		if f, err := os.OpenFile(p, flags, 0o644); err == nil {
			fmt.Fprintf(f, "run=%d hash=%016x sig=%s\n", run, r.runHash, r.sig)
			f.Close()
		}
	}
	if r.sig == "" && r.knownSig != "" {
		c.Tape = tape.Used()
		c.Signature, c.Message = r.knownSig, r.knownMsg
		return &core.Violation{Signature: r.knownSig, Message: r.knownMsg, Case: c}
	}
	if r.sig == "" {
		return nil
	}
	if k := "seen:" + r.sig; res.Counters[k] == 0 {
		res.Notes = append(res.Notes, fmt.Sprintf("first %s after %.2fs (run %d)", r.sig, time.Since(env.Start).Seconds(), run))
	}
	res.Counters["seen:"+r.sig]++
	c.Tape = tape.Used()
	c.Signature, c.Message = r.sig, r.msg
	return &core.Violation{Signature: r.sig, Message: r.msg, Case: c}
}

func replayBody(env *core.Env, b *body, tape []uint32, verbose bool) *runner {
	r := newRunner(env, nil, b, core.NewReplayTape(tape), true)
	r.verbose = verbose
	r.execute()
	return r
}

func (engine) Replay(env *core.Env, c *core.Case) (string, string, []string) {
	b := &body{}
	if err := json.Unmarshal(c.Body, b); err != nil {
		return "", "bad case body: " + err.Error(), nil
	}
	if env.J != nil {
		env.J.Begin(c)
	}
	r := replayBody(env, b, c.Tape, true)
	if env.J != nil {
		env.J.Done()
	}
	return r.sig, r.msg, r.trace
}

// Minimise: ddmin over both operation lists (any subsequence is valid, ops are
// interpreted against the running state), then the tape.  A candidate is first
// replayed with the tape it has; if the positional tape no longer hits, a light
// enumeration of crash points / sector patterns looks for the same signature.
func (engine) Minimise(env *core.Env, c *core.Case) *core.Case {
	b := &body{}
	if err := json.Unmarshal(c.Body, b); err != nil || c.Signature == "" {
		return c
	}
	sig := c.Signature
	budget := 12.0
	if v, err := strconv.ParseFloat(os.Getenv("VERIF_MIN_S"), 64); err == nil && v > 0 {
		budget = v
	}
	deadline := time.Now().Add(time.Duration(budget * float64(time.Second)))
	tape := append([]uint32(nil), c.Tape...)
	r0 := replayBody(env, b, tape, false)
	if r0.sig != sig {
		return c // does not reproduce: leave untouched
	}
	level2 := r0.failLevel == 2
	corrupt := strings.Contains(sig, "/corruption/")
	try := func(cand *body, t []uint32) ([]uint32, bool) {
		if time.Now().After(deadline) {
			return nil, false
		}
		if r := replayBody(env, cand, t, false); r.sig == sig {
			return t, true
		}
		if level2 {
			return nil, false
		}
		// search
		nb := *cand
		nb.Cfg.Exhaustive = false
		gt := core.NewGenTape(core.NewRand(1))
		r := newRunner(env, nil, &nb, gt, false)
		r.mode = modeSearch
		r.noLevel2 = true
		r.noCorrupt = !corrupt
		r.noCrash = corrupt
		if corrupt {
			cor := r0.lastCor
			r.searchCor = &cor
		}
		r.execute()
		if r.sig == sig {
			return gt.Used(), true
		}
		return nil, false
	}
	if _, ok := try(b, tape); !ok {
		return c // does not reproduce: leave untouched
	}
	cur := *b
	// operations after the one in which the violating image was taken never ran
	if !corrupt {
		cand := cur
		if n := r0.lastOp[0] + 1; n < len(cand.Ops) {
			cand.Ops = cand.Ops[:n]
		}
		if n := r0.lastOp[1] + 1; level2 && n < len(cand.Ops2) {
			cand.Ops2 = cand.Ops2[:n]
		}
		if _, ok := try(&cand, tape); ok {
			cur = cand
		}
	}
	cur.Ops = core.DDMin(cur.Ops, func(ops []op) bool {
		cand := cur
		cand.Ops = ops
		if t, ok := try(&cand, tape); ok {
			tape = t
			return true
		}
		return false
	})
	if level2 {
		cur.Ops2 = core.DDMin(cur.Ops2, func(ops []op) bool {
			cand := cur
			cand.Ops2 = ops
			if t, ok := try(&cand, tape); ok {
				tape = t
				return true
			}
			return false
		})
	} else {
		cur.Ops2 = nil
		if _, ok := try(&cur, tape); !ok {
			cur.Ops2 = b.Ops2
		}
	}
	tape = core.MinimiseTape(tape, func(t []uint32) bool {
		if time.Now().After(deadline.Add(8 * time.Second)) {
			return false
		}
		return replayBody(env, &cur, t, false).sig == sig
	})
	r := replayBody(env, &cur, tape, true)
	if r.sig != sig {
		return c
	}
	bj, _ := json.Marshal(&cur)
	out := *c
	out.Body, out.Tape = bj, tape
	out.Minimised, out.Message, out.Trace = true, r.msg, r.trace
	return &out
}

// cleanupStale removes scratch directories left by dead workers.
func cleanupStale() {
	ents, err := os.ReadDir("/dev/shm")
	if err != nil {
		return
	}
	for _, e := range ents {
		name := e.Name()
		if !strings.HasPrefix(name, "verif-e4-") {
			continue
		}
		pid, err := strconv.Atoi(strings.TrimPrefix(name, "verif-e4-"))
		if err != nil || pid == os.Getpid() {
			continue
		}
		if syscall.Kill(pid, 0) == syscall.ESRCH {
			os.RemoveAll(filepath.Join("/dev/shm", name))
		}
	}
}
