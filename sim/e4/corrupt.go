package e4

import (
	"bytes"
	"fmt"
	"os"
	"path/filepath"
	"sort"

	"verifsim/core"

	"go.etcd.io/etcd/server/v3/etcdserver/api/snap"
	"go.etcd.io/etcd/server/v3/storage/wal"
	"go.etcd.io/etcd/server/v3/storage/wal/walpb"
)

type corruptTarget struct {
	sub, name string
	data      []byte
	written   int // bytes that hold records (the rest is zero padding)
}

// inRecordData reports whether byte off of a WAL segment lies inside the Data
// field of a record (the only part the rolling CRC is computed over).
func inRecordData(b []byte, off int) bool {
	for _, sp := range recordSpans(b) {
		if off < sp[0] || off >= sp[1] {
			continue
		}
		// frame: 8-byte length word, then Record{1:type varint, 2:crc varint, 3:data bytes}
		var l uint64
		for i := 7; i >= 0; i-- {
			l = l<<8 | uint64(b[sp[0]+i])
		}
		end := sp[0] + 8 + int(l&^(uint64(0xff)<<56))
		p := sp[0] + 8
		for p < end {
			tag := b[p]
			p++
			v, n := uint64(0), 0
			for ; p < end; p++ {
				v |= uint64(b[p]&0x7f) << (7 * uint(n))
				n++
				if b[p] < 0x80 {
					p++
					break
				}
			}
			if tag == 0x1a {
				return off >= p && off < p+int(v)
			}
		}
		return false
	}
	return false
}

func copyDir(dst, src string) error {
	if err := os.MkdirAll(dst, 0o750); err != nil {
		return err
	}
	for _, name := range sortedNames(src) {
		b, err := os.ReadFile(filepath.Join(src, name))
		if err != nil {
			return err
		}
		if err := os.WriteFile(filepath.Join(dst, name), b, 0o600); err != nil {
			return err
		}
	}
	return nil
}

// corruptPhase: the cleanly closed directories of the first life, one stored
// byte changed at a time; whatever is then read back must be an unmodified
// prefix of what was written, or an error.
func (r *runner) corruptPhase(s *session) {
	var targets []corruptTarget
	total := 0
	for _, d := range []struct{ sub, dir string }{{"snap", s.snapDir}, {"wal", s.walDir}} {
		for _, name := range sortedNames(d.dir) {
			if !isWal(name) && !isSnap(name) {
				continue
			}
			b, err := os.ReadFile(filepath.Join(d.dir, name))
			if err != nil || len(b) == 0 {
				continue
			}
			t := corruptTarget{sub: d.sub, name: name, data: b, written: len(b)}
			if isWal(name) {
				sp := recordSpans(b)
				t.written = 0
				if len(sp) > 0 {
					t.written = sp[len(sp)-1][1]
				}
			}
			targets = append(targets, t)
			total += t.written
		}
	}
	if len(targets) == 0 {
		return
	}
	// snapshots in the order the snapshotter tries them (file name descending)
	type snapFile struct {
		name string
		si   *snapInfo
	}
	var snapFiles []snapFile
	for _, si := range s.m.snaps {
		md := si.snap.Metadata
		name := fmt.Sprintf("%016x-%016x.snap", md.Term, md.Index)
		if _, err := os.Stat(filepath.Join(s.snapDir, name)); err == nil {
			snapFiles = append(snapFiles, snapFile{name, si})
		}
	}
	sort.Slice(snapFiles, func(i, j int) bool { return snapFiles[i].name > snapFiles[j].name })

	one := func(ti, off, how, val int) {
		t := &targets[ti]
		old := t.data[off]
		nb := old ^ (1 << uint(val%8))
		if how == 1 {
			nb = old ^ byte(1+val%255)
		}
		r.lastCor = [2]byte{old, nb}
		root := r.newDir("cor")
		defer os.RemoveAll(root)
		walDir, snapDir := filepath.Join(root, "wal"), filepath.Join(root, "snap")
		if copyDir(walDir, s.walDir) != nil || copyDir(snapDir, s.snapDir) != nil {
			r.fail("C16/harness/scratch", "cannot copy directories for a corrupted image")
			return
		}
		p := filepath.Join(root, t.sub, t.name)
		mod := append([]byte(nil), t.data...)
		mod[off] = nb
		if err := os.WriteFile(p, mod, 0o600); err != nil {
			r.fail("C16/harness/scratch", "cannot write corrupted file: %v", err)
			return
		}
		where := fmt.Sprintf("byte %d of %s/%s changed %#02x -> %#02x", off, t.sub, t.name, old, nb)
		r.logf("corrupted image: %s (record bytes in file: %d of %d)", where, t.written, len(t.data))
		h := core.Mix(r.opsHash, 0xc0, core.HashString(t.name), uint64(off), uint64(nb))
		outcome := "error"
		snapOutcome := ""

		if t.sub == "snap" {
			// Snapshotter.Load on the damaged directory
			var got []byte
			var lerr error
			var tmp recResult
			guard("Load", &tmp, func() error {
				sn, err := snap.New(nop, snapDir).Load()
				lerr = err
				if err == nil {
					got, _ = sn.Marshal()
				}
				return nil
			})
			pos := -1
			for i, sf := range snapFiles {
				if sf.name == t.name {
					pos = i
				}
			}
			switch {
			case tmp.panicked:
				snapOutcome = "snap-panic"
				r.probe("corruption-panic@Load", 1)
			case lerr == nil:
				idx := -1
				for i, sf := range snapFiles {
					if bytes.Equal(sf.si.raw, got) {
						idx = i
						break
					}
				}
				switch {
				case idx < 0:
					r.fail("C16/corruption/snapshot-altered", "%s: Snapshotter.Load returned a snapshot (%d bytes) that is byte-identical to no saved snapshot", where, len(got))
					return
				case idx == 0 && pos == 0:
					snapOutcome = "snap-undetected-but-harmless"
				case idx == 0:
					snapOutcome = "snap-older-file-damaged-newest-returned"
				case idx == 1 && pos == 0:
					snapOutcome = "snap-detected-fallback"
					r.probe("snapshot-fallback-used", 1)
				default:
					r.fail("C16/corruption/no-fallback", "%s: Snapshotter.Load returned saved snapshot #%d (newest first) although #%d was intact", where, idx, b2i(pos == 0))
					return
				}
			case lerr == snap.ErrNoSnapshot:
				if !(pos == 0 && len(snapFiles) == 1) {
					r.fail("C16/corruption/no-fallback", "%s: Snapshotter.Load returned ErrNoSnapshot although %d intact snapshot files exist", where, len(snapFiles)-b2i(pos >= 0))
					return
				}
				snapOutcome = "snap-detected-none-left"
			default:
				r.fail("C16/corruption/no-fallback", "%s: Snapshotter.Load failed: %v", where, lerr)
				return
			}
		}

		m := s.m
		res := recoverDirs(walDir, snapDir, true, false)
		check := func(rec *recovered, start uint64, what string) bool {
			k := matchPrefix(m.W, len(m.W), start, m.meta, rec)
			if k < 0 {
				if _, kl := matchLiteral(m.W, len(m.W), m.cuts, start, rec); kl >= 0 {
					// not the corruption: ReadAll's own treatment of entries
					// overwritten from below the snapshot index
					r.probe("corruption-run-hit-overwritten-entry-finding", 1)
					return true
				}
				sig := "C16/corruption/modified-data-returned"
				if t.sub == "wal" && !inRecordData(t.data, off) {
					// the changed byte is part of a record's framing (length
					// word, field tags, record type, stored crc, padding), which
					// the WAL's rolling CRC does not cover
					sig = "C16/corruption/record-header-not-covered-by-crc"
					r.probe(fmt.Sprintf("header-flip-returned-as-valid:%#02x->%#02x", old, nb), 1)
				}
				r.fail(sig, "%s: %s returned without error %s (snapshot %d), which is the fold of no prefix of the %d records written; full fold is %s",
					where, what, describe(rec), start, len(m.W), describeFold(m.W, len(m.W), start))
				return false
			}
			if k == len(m.W) {
				outcome = "harmless"
			} else if outcome != "harmless" {
				outcome = "prefix"
			}
			return true
		}
		if res.panicked {
			r.probe("corruption-panic@"+res.stage, 1)
		}
		if res.ro != nil && !check(res.ro, res.walsnap.Index, "OpenForRead+ReadAll") {
			return
		}
		if res.err == nil {
			if res.snapshot != nil {
				raw, _ := res.snapshot.Marshal()
				found := false
				for _, si := range m.snaps {
					if bytes.Equal(si.raw, raw) {
						found = true
					}
				}
				if !found {
					r.fail("C16/corruption/snapshot-altered", "%s: LoadNewestAvailable returned a snapshot byte-identical to no saved snapshot", where)
					return
				}
			}
			if !check(res.rw, res.walsnap.Index, "Open+ReadAll") {
				return
			}
			if res.verErr == nil && res.ro != nil && res.verifyHS != nil && !hsEq(*res.verifyHS, res.ro.hs) {
				r.fail("C16/corruption/modified-data-returned", "%s: wal.Verify returned hard state t=%d v=%d c=%d, ReadAll %s", where,
					res.verifyHS.Term, res.verifyHS.Vote, res.verifyHS.Commit, describe(res.ro))
				return
			}
			if res.repaired {
				r.probe("corruption-treated-as-torn-tail", 1)
			}
		}
		// the whole log from the first segment, read-only
		if t.sub == "wal" {
			var tmp recResult
			var all *recovered
			guard("OpenForRead0", &tmp, func() error {
				w, err := wal.OpenForRead(nop, walDir, walpb.Snapshot{})
				if err != nil {
					return err
				}
				defer w.Close()
				meta, hs, ents, err := w.ReadAll()
				if err != nil {
					return err
				}
				all = &recovered{meta: meta, hs: hs, ents: ents}
				return nil
			})
			if tmp.panicked {
				r.probe("corruption-panic@OpenForRead", 1)
			}
			if all != nil && !check(all, 0, "OpenForRead(from the start)+ReadAll") {
				return
			}
		}
		r.count("evaluations", 1)
		r.count("images_corrupt", 1)
		if t.sub == "wal" {
			r.fault("byte-corrupted-wal", 1)
			if off >= t.written {
				r.probe("corruption-in-zero-padding", 1)
			}
		} else {
			r.fault("byte-corrupted-snap", 1)
		}
		switch {
		case t.sub == "snap":
			r.probe("corruption-"+snapOutcome, 1)
			outcome = snapOutcome + "/" + outcome
		case outcome == "harmless":
			r.probe("corruption-undetected-but-harmless", 1)
		case outcome == "prefix":
			r.probe("corruption-read-as-shorter-prefix", 1)
		default:
			r.probe("corruption-detected-error", 1)
		}
		if r.res != nil {
			r.res.AddTrace(h, true)
			r.res.AddState(core.Mix(0xc0, core.HashString(outcome), core.HashString(errClass(res))))
		}
		r.mix(h, core.HashString(outcome), core.HashString(errClass(res)))
		r.logf("   outcome: %s (%s)", outcome, errClass(res))
	}

	pickOffset := func(t *corruptTarget) int {
		span := t.written + 64
		if span > len(t.data) {
			span = len(t.data)
		}
		if isWal(t.name) && r.ch.draw(16) == 15 {
			span = len(t.data) // anywhere, zero tail included
		}
		return r.ch.draw(span)
	}

	exhaustive := !r.ch.replay && (r.mode == modeSearch || (r.mode == modeEnum && total <= 64*1024))
	if !exhaustive {
		n := r.b.Cfg.NCorrupt
		for i := 0; ; i++ {
			var more bool
			if r.ch.replay {
				more = r.ch.chance(500)
			} else {
				more = r.ch.forceChance(i < n)
			}
			if !more || r.failed() {
				return
			}
			// half of the samples go to snapshot files when there are any
			ti := r.ch.draw(len(targets))
			if targets[0].sub == "snap" && r.ch.draw(4) == 3 {
				ns := 0
				for _, t := range targets {
					if t.sub == "snap" {
						ns++
					}
				}
				ti = ti % ns
				if r.ch.draw(2) == 1 {
					ti = ns - 1 // the newest snapshot file: the one a fallback is about
				}
			}
			off := pickOffset(&targets[ti])
			one(ti, off, r.ch.draw(2), r.ch.draw(255))
		}
	}
	// exhaustive over every stored byte
	for ti := range targets {
		t := &targets[ti]
		end := t.written + 16
		if end > len(t.data) {
			end = len(t.data)
		}
		for off := 0; off < end; off++ {
			// one random change everywhere; in addition every single-bit flip
			// of the bytes no checksum covers (WAL framing: length words, field
			// tags, record type, padding) and of every snapshot-file byte
			variants := 1
			if r.mode == modeSearch {
				// the minimiser looks for the same kind of change only
				if r.searchCor == nil || t.data[off] != r.searchCor[0] {
					continue
				}
				r.ch.forceChance(true)
				r.ch.force(len(targets), ti)
				if targets[0].sub == "snap" {
					r.ch.force(4, 0)
				}
				if isWal(t.name) {
					r.ch.force(16, 0)
				}
				span := t.written + 64
				if span > len(t.data) {
					span = len(t.data)
				}
				r.ch.force(span, off)
				one(ti, off, r.ch.force(2, 1), r.ch.force(255, int(r.searchCor[0]^r.searchCor[1])-1))
				continue
			}
			if (t.sub == "snap" && off < 12) || (t.sub == "wal" && !inRecordData(t.data, off)) {
				variants = 9
			}
			for v := 0; v < variants; v++ {
				if r.failed() {
					return
				}
				r.ch.forceChance(true)
				r.ch.force(len(targets), ti)
				if targets[0].sub == "snap" {
					r.ch.force(4, 0)
				}
				if isWal(t.name) {
					r.ch.force(16, 0)
				}
				span := t.written + 64
				if span > len(t.data) {
					span = len(t.data)
				}
				r.ch.force(span, off)
				if v == 0 {
					one(ti, off, r.ch.draw(2), r.ch.draw(255))
				} else {
					one(ti, off, r.ch.force(2, 0), r.ch.force(255, v-1))
				}
			}
		}
	}
	r.ch.forceChance(false)
}
