package e4

import (
	"errors"
	"fmt"
	"io"
	"strings"

	"go.etcd.io/etcd/raft/v3/raftpb"
	"go.etcd.io/etcd/server/v3/etcdserver/api/snap"
	"go.etcd.io/etcd/server/v3/storage/wal"
	"go.etcd.io/etcd/server/v3/storage/wal/walpb"
	"go.uber.org/zap"
)

var nop = zap.NewNop()

// recResult is the outcome of the recovery procedure on one pair of dirs.
type recResult struct {
	stage    string // where an error / panic came from
	err      error
	panicked bool
	snapshot *raftpb.Snapshot
	walsnap  walpb.Snapshot
	fallback bool // at least one snapshot file was set aside as .broken
	repaired bool
	ro       *recovered // read-only pass (OpenForRead), nil if it failed
	roErr    error
	verifyHS *raftpb.HardState
	verErr   error
	rw       *recovered // write-mode pass (after repair if that was needed)
	w        *wal.WAL   // left open if asked for
}

func guard(stage string, res *recResult, f func() error) (ok bool) {
	defer func() {
		if p := recover(); p != nil {
			res.stage, res.panicked, res.err = stage, true, fmt.Errorf("panic: %v", p)
			ok = false
		}
	}()
	if err := f(); err != nil {
		res.stage, res.err = stage, err
		return false
	}
	return true
}

func countBroken(dir string) int {
	n := 0
	for _, name := range sortedNames(dir) {
		if strings.HasSuffix(name, ".broken") {
			n++
		}
	}
	return n
}

// recoverDirs mirrors raftexample's loadSnapshot/openWAL/replayWAL and adds
// what the property demands on top: Repair + reopen on a torn tail.  With
// readOnlyToo it first reads the untouched image through OpenForRead and
// Verify.
func recoverDirs(walDir, snapDir string, readOnlyToo, keepOpen bool) *recResult {
	res := &recResult{}
	if !wal.Exist(walDir) {
		res.stage, res.err = "exist", errors.New("no wal files in directory")
		return res
	}
	var walSnaps []walpb.Snapshot
	if !guard("ValidSnapshotEntries", res, func() (err error) {
		walSnaps, err = wal.ValidSnapshotEntries(nop, walDir)
		return err
	}) {
		return res
	}
	before := countBroken(snapDir)
	ss := snap.New(nop, snapDir)
	if !guard("LoadNewestAvailable", res, func() error {
		s, err := ss.LoadNewestAvailable(walSnaps)
		if err != nil && err != snap.ErrNoSnapshot {
			return err
		}
		res.snapshot = s
		return nil
	}) {
		return res
	}
	res.fallback = countBroken(snapDir) > before
	if res.snapshot != nil {
		res.walsnap.Index, res.walsnap.Term = res.snapshot.Metadata.Index, res.snapshot.Metadata.Term
	}
	if readOnlyToo {
		var tmp recResult
		guard("OpenForRead", &tmp, func() error {
			w, err := wal.OpenForRead(nop, walDir, res.walsnap)
			if err != nil {
				return err
			}
			defer w.Close()
			meta, hs, ents, err := w.ReadAll()
			if err != nil {
				return err
			}
			res.ro = &recovered{meta: meta, hs: hs, ents: ents}
			return nil
		})
		res.roErr = tmp.err
		var tmp2 recResult
		guard("Verify", &tmp2, func() error {
			hs, err := wal.Verify(nop, walDir, res.walsnap)
			res.verifyHS = hs
			return err
		})
		res.verErr = tmp2.err
	}
	for attempt := 0; attempt < 2; attempt++ {
		var w *wal.WAL
		if !guard("Open", res, func() (err error) {
			w, err = wal.Open(nop, walDir, res.walsnap)
			return err
		}) {
			return res
		}
		var rerr error
		ok := guard("ReadAll", res, func() error {
			meta, hs, ents, err := w.ReadAll()
			if err != nil {
				rerr = err
				return err
			}
			res.rw = &recovered{meta: meta, hs: hs, ents: ents}
			return nil
		})
		if ok {
			if keepOpen {
				res.w = w
			} else {
				w.Close()
			}
			return res
		}
		closeQuietly(w)
		if attempt == 0 && rerr == io.ErrUnexpectedEOF && !res.panicked {
			// a torn tail: the property demands it be repairable
			res.stage, res.err = "", nil
			repaired := false
			if !guard("Repair", res, func() error {
				repaired = wal.Repair(nop, walDir)
				return nil
			}) {
				return res
			}
			if !repaired {
				res.stage, res.err = "Repair", errors.New("wal.Repair returned false")
				return res
			}
			res.repaired = true
			continue
		}
		return res
	}
	return res
}

func closeQuietly(w *wal.WAL) {
	if w == nil {
		return
	}
	defer func() { recover() }()
	w.Close()
}

func errClass(res *recResult) string {
	switch {
	case res.err == nil:
		return "ok"
	case res.panicked:
		return "panic@" + res.stage
	case errors.Is(res.err, wal.ErrCRCMismatch):
		return "crc@" + res.stage
	case res.err == io.ErrUnexpectedEOF:
		return "eof@" + res.stage
	}
	s := res.err.Error()
	if len(s) > 24 {
		s = s[:24]
	}
	return s + "@" + res.stage
}
