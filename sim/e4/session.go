package e4

import (
	"bytes"
	"fmt"
	"os"
	"path/filepath"
	"sort"
	"strings"

	"verifsim/core"

	"go.etcd.io/etcd/raft/v3/raftpb"
	"go.etcd.io/etcd/server/v3/etcdserver/api/snap"
	"go.etcd.io/etcd/server/v3/storage/wal"
	"go.etcd.io/etcd/server/v3/storage/wal/walpb"
)

// session is one life of the storage: from Create (level 1) or from a crash
// image (level 2) until close.
type session struct {
	r           *runner
	level       int
	walDir      string
	snapDir     string
	dur         map[uint64][]byte // inode -> durable content
	m           *model
	w           *wal.WAL
	parent      uint64            // hash of the image a level-2 session grew from
	lost        []lrec            // records the first life wrote but the image does not hold
	leftoverTmp map[string][]byte // non-empty N.tmp files present when a second life starts

	armed     bool // crash points enabled
	opIdx     int
	opKind    string
	opHuge    bool // the running save exceeds the page-writer buffer
	opWrites  int  // write notifications of the running operation so far
	opSyncs   int
	point     int
	pending   []*image
	nWalSegs  int
	lastOpCut bool
	dead      bool // the session cannot go on (workload error or listed finding)
}

type image struct {
	root      string
	level     int
	point     int
	kind      string // before | after | between
	opIdx     int
	opKind    string
	file      string
	firstSync bool
	wlen      int
	d         int
	done      int
	doneSnap  uint64
	nDirty    int
	nLost     int
	lostDesc  string
	torn      bool
	inCut     bool
	stale     bool // a lost sector reverts to old bytes that are not all zero
	hash      uint64
}

func (s *session) walSegs() int {
	n := 0
	for _, name := range sortedNames(s.walDir) {
		if isWal(name) {
			n++
		}
	}
	return n
}

// ---- crash points -----------------------------------------------------------

func (s *session) onSync(f *os.File, after bool) {
	if !s.armed || s.r.failed() {
		return
	}
	name := filepath.Base(f.Name())
	p := s.r.b.Cfg.PTake
	if s.opSyncs > 0 || isTmp(name) || isSnap(name) || s.opKind == "snap" {
		p *= 3 // inside a segment cut or a snapshot save
	}
	kind := "before"
	if after {
		kind = "after"
	}
	s.takeImages(kind, p, name)
	if after {
		s.opSyncs++
	}
}

func patternsFor(n int, mode int) [][]bool {
	mk := func(f func(i int) bool) []bool {
		b := make([]bool, n)
		for i := range b {
			b[i] = f(i)
		}
		return b
	}
	if n == 0 {
		return [][]bool{nil}
	}
	var out [][]bool
	seen := map[string]bool{}
	add := func(b []bool) {
		k := fmt.Sprint(b)
		if !seen[k] {
			seen[k] = true
			out = append(out, b)
		}
	}
	if mode == modeEnum && n <= 12 {
		for m := 0; m < 1<<n; m++ {
			add(mk(func(i int) bool { return m>>i&1 == 1 }))
		}
		return out
	}
	add(mk(func(int) bool { return true }))
	add(mk(func(int) bool { return false }))
	limit := 600
	if mode == modeSearch {
		limit = 24
	}
	step := 1
	if 4*n > limit {
		step = (4*n + limit - 1) / limit
	}
	for c := 1; c < n; c += step {
		add(mk(func(i int) bool { return i >= c })) // a prefix survives
		add(mk(func(i int) bool { return i < c }))  // a suffix survives
	}
	for c := 0; c < n; c += step {
		add(mk(func(i int) bool { return i == c })) // one sector lost
		add(mk(func(i int) bool { return i != c })) // one sector survives
	}
	return out
}

func (s *session) takeImages(kind string, permille int, file string) {
	r := s.r
	s.point++
	if permille > 999 {
		permille = 999
	}
	if r.noCrash && !r.ch.replay {
		r.ch.forceChance(false)
		return
	}
	enum := r.mode != modeSample && s.level == 1 && !r.ch.replay
	var files []fileState
	var refs []dirtyRef
	scanned := false
	var pats [][]bool
	if enum {
		files, refs = s.scan()
		scanned = true
		pats = patternsFor(len(refs), r.mode)
	}
	// in enumeration every pattern is also tried with a short tail where a file grew
	npats := len(pats)
	if enum {
		for i := range files {
			if len(files[i].vol) > files[i].durLen && len(files[i].dirty) > 0 {
				npats = 2 * len(pats)
				break
			}
		}
	}
	for n := 0; ; n++ {
		var take bool
		switch {
		case enum:
			take = r.ch.forceChance(n < npats)
		case r.ch.replay:
			take = r.ch.chance(permille)
		case n >= r.b.Cfg.MaxPer || (n > 0 && len(refs) == 0):
			take = r.ch.forceChance(false)
		default:
			take = r.ch.chance(permille)
		}
		if !take {
			return
		}
		if !scanned {
			files, refs = s.scan()
			scanned = true
		}
		lost := make([]bool, len(refs))
		nr := len(refs)
		if nr > 0 {
			if enum {
				r.ch.force(8, 2)
				for i := range lost {
					lost[i] = r.ch.force(2, b2i(pats[n%len(pats)][i])) == 1
				}
			} else {
				mode := r.ch.draw(8)
				if kind == "write" && n == 0 && mode >= 4 {
					mode = 0 // a killed process: the file stays exactly as written so far
				}
				switch mode {
				case 0: // everything reached the disk
				case 1:
					for i := range lost {
						lost[i] = true
					}
				case 2:
					for i := range lost {
						lost[i] = r.ch.draw(2) == 1
					}
				case 3:
					lost[r.ch.draw(nr)] = true
				case 4:
					c := r.ch.draw(nr + 1)
					for i := range lost {
						lost[i] = i >= nr-c
					}
				case 5:
					c := r.ch.draw(nr + 1)
					for i := range lost {
						lost[i] = i < c
					}
				case 6:
					k := r.ch.draw(nr)
					for i := range lost {
						lost[i] = i != k
					}
				case 7:
					for i := range lost {
						lost[i] = r.ch.draw(4) == 3
					}
				}
			}
		}
		img := &image{root: r.newDir("img"), level: s.level, point: s.point, kind: kind, opIdx: s.opIdx,
			opKind: s.opKind, file: file, firstSync: s.opSyncs == 0 && kind == "before",
			wlen: len(s.m.W), d: s.m.d, done: s.m.done, doneSnap: s.m.doneSnap, nDirty: nr}
		h := core.Mix(r.opsHash, s.parent, uint64(s.level), uint64(s.point), uint64(len(kind)))
		lostBy := map[int]map[int]bool{}
		var desc []string
		for i, l := range lost {
			if l {
				img.nLost++
				if f := &files[refs[i].file]; !allZero(f.old[refs[i].sec*sector : min((refs[i].sec+1)*sector, len(f.old))]) {
					img.stale = true
				}
				// (the file's name, not its position in the scan: an idle pipeline file may or
				// may not have been created yet, which shifts positions but changes nothing else)
				h = core.Mix(h, core.HashString(files[refs[i].file].sub+"/"+files[refs[i].file].name), uint64(refs[i].sec))
				if lostBy[refs[i].file] == nil {
					lostBy[refs[i].file] = map[int]bool{}
				}
				lostBy[refs[i].file][refs[i].sec] = true
				if len(desc) < 40 {
					desc = append(desc, fmt.Sprintf("%s#%d", files[refs[i].file].name, refs[i].sec))
				}
			}
		}
		canShort := false
		for fi, set := range lostBy {
			if tornInsideRecord(&files[fi], set) {
				img.torn = true
			}
			if shortTailCut(&files[fi], set) >= 0 {
				canShort = true
			}
		}
		short := false
		if canShort {
			// the lost tail of a file that grew past its durable length: zero-filled
			// (size updated) or missing (size not updated), by tape choice
			if enum {
				short = r.ch.force(2, b2i(n >= len(pats))) == 1
			} else {
				short = r.ch.draw(2) == 1
			}
		} else if enum && n >= len(pats) {
			continue // nothing to cut short in this pattern
		}
		if short {
			h = core.Mix(h, 0x5407)
			r.fault("file-tail-missing", 1)
		}
		img.hash = h
		img.lostDesc = fmt.Sprintf("%d of %d unsynced sectors lost [%s]", img.nLost, nr, strings.Join(desc, " "))
		if short {
			img.lostDesc += " (lost tail behind the durable length missing from the file, not zero-filled)"
		}
		if err := materialise(img.root, files, refs, lost, short); err != nil {
			r.fail("C16/harness/scratch", "cannot write crash image: %v", err)
			return
		}
		img.inCut = isTmp(file) || (s.opSyncs > 0 && (s.opKind == "save" || s.opKind == "hs" || s.opKind == "vote" || s.opKind == "rewrite"))
		s.pending = append(s.pending, img)
	}
}

// onWrite: a crash point in the middle of a save (see writeHook).
func (s *session) onWrite(f *os.File) {
	if !s.armed || s.r.failed() {
		return
	}
	s.r.probe("write-notification", 1)
	p := s.r.b.Cfg.PTake/2 + 1
	if s.opHuge && s.opKind == "save" {
		// a flush in the middle of a batch larger than the page-writer buffer
		p = 500
		s.r.probe("write-notification-in-oversized-save", 1)
	}
	s.opWrites++
	s.takeImages("write", p, filepath.Base(f.Name()))
}

func b2i(b bool) int {
	if b {
		return 1
	}
	return 0
}

// ---- workload -----------------------------------------------------------------

const sigStaleTmp = "C16/recovery/stale-bytes-of-reused-tmp-segment"

// staleTmpEvidence: the last segment continues, right behind its last
// decodable record, with the very bytes that a leftover pipeline file (N.tmp of
// a cut the first life did not finish) held at that offset: the file pipeline
// reused the leftover without emptying it.
func (s *session) staleTmpEvidence(walDir string) string {
	if len(s.leftoverTmp) == 0 {
		return ""
	}
	var last string
	for _, name := range sortedNames(walDir) {
		if isWal(name) {
			last = name
		}
	}
	b, err := os.ReadFile(filepath.Join(walDir, last))
	if err != nil {
		return ""
	}
	end := 0
	if sp := recordSpans(b); len(sp) > 0 {
		end = sp[len(sp)-1][1]
	}
	var names []string
	for name := range s.leftoverTmp {
		names = append(names, name)
	}
	sort.Strings(names)
	for _, name := range names {
		c := s.leftoverTmp[name]
		if end+8 <= len(b) && end+8 <= len(c) && !allZero(b[end:end+8]) && bytes.Equal(b[end:end+8], c[end:end+8]) {
			return fmt.Sprintf("segment %s holds, behind its last record (offset %d), bytes % x that are the content the leftover %s had at that offset when this life started", last, end, b[end:end+8], name)
		}
	}
	return ""
}

const sigOverwritten = "C16/recovery/overwritten-entry-returned-after-snapshot"

func (s *session) harness(err error, what string) bool {
	if err != nil {
		s.dead = true
		s.r.fail("C16/harness/workload-error", "%s failed at op %d (%s): %v", what, s.opIdx, s.opKind, err)
		return true
	}
	return false
}

func (s *session) completed(obliged bool) {
	s.m.done = len(s.m.W)
	segs := s.walSegs()
	s.lastOpCut = segs != s.nWalSegs
	if s.lastOpCut {
		s.m.cuts = append(s.m.cuts, len(s.m.W))
	}
	if obliged || segs != s.nWalSegs {
		// obliged by the Raft contract, or a segment cut completed
		s.m.d = len(s.m.W)
	}
	s.nWalSegs = segs
}

func (s *session) runOps(ops []op) {
	r := s.r
	s.nWalSegs = s.walSegs()
	s.armed = true
	defer func() {
		s.armed = false
		if s.w != nil {
			prev := cur
			cur = nil
			closeQuietly(s.w)
			cur = prev
			s.w = nil
		}
		for _, img := range s.pending {
			os.RemoveAll(img.root)
		}
		s.pending = nil
	}()
	for i, o := range ops {
		if r.failed() || s.dead {
			return
		}
		s.opIdx, s.opKind, s.opSyncs = i, o.K, 0
		s.opHuge, s.opWrites = o.Huge, 0
		if r.env != nil && r.env.J != nil {
			r.env.J.Step("L%d op %d %s", s.level, i, o.String())
		}
		s.exec(o)
		if r.res != nil {
			r.res.Steps++
		}
		s.afterOp()
		if r.failed() {
			return
		}
	}
	if s.dead || s.w == nil {
		return
	}
	// clean shutdown
	s.opIdx, s.opKind, s.opSyncs = len(ops), "close", 0
	err := s.w.Close()
	s.w = nil
	if s.harness(err, "Close") {
		return
	}
	s.m.d, s.m.done = len(s.m.W), len(s.m.W)
	s.afterOp()
	if r.failed() {
		return
	}
	s.armed = false
	res := recoverDirs(s.walDir, s.snapDir, true, false)
	s.checkClean(res, "final")
}

func (s *session) afterOp() {
	s.judgePending()
	if s.r.failed() {
		return
	}
	s.opSyncs = 0
	s.takeImages("between", s.r.b.Cfg.PBetween, "")
	s.judgePending()
}

func (s *session) exec(o op) {
	r := s.r
	m := s.m
	switch o.K {
	case "save", "hs", "vote":
		st, ents, obliged := m.planSave(o)
		r.logf("L%d op %d: Save(state(t=%d v=%d c=%d), %d entries from %d) obliged=%v", s.level, s.opIdx, st.Term, st.Vote, st.Commit, len(ents), firstIdx(ents), obliged)
		if s.harness(s.w.Save(st, ents), "Save") {
			return
		}
		s.completed(obliged)
	case "rewrite":
		var ents []raftpb.Entry
		var st *raftpb.HardState
		for i := range s.lost {
			l := &s.lost[i]
			if l.kind == 'e' && st == nil && l.ent.Index == m.last+1+uint64(len(ents)) {
				ents = append(ents, l.ent)
			} else if l.kind == 's' && st == nil && len(ents) > 0 {
				h := l.hs
				st = &h
			}
		}
		if len(ents) == 0 {
			r.logf("L%d op %d: rewrite: nothing was lost, skipped", s.level, s.opIdx)
			return
		}
		if st == nil || st.Term < ents[len(ents)-1].Term {
			h := m.hs
			h.Term = ents[len(ents)-1].Term
			st = &h
		}
		if st.Commit < m.hs.Commit {
			st.Commit = m.hs.Commit
		}
		for i := range ents {
			m.push(lrec{kind: 'e', ent: ents[i]})
		}
		m.push(lrec{kind: 's', hs: *st})
		r.logf("L%d op %d: rewrite the %d lost entries from %d, state(t=%d v=%d c=%d)", s.level, s.opIdx, len(ents), ents[0].Index, st.Term, st.Vote, st.Commit)
		if s.harness(s.w.Save(*st, ents), "Save") {
			return
		}
		s.completed(true)
	case "snap":
		si, ok := m.planSnap(o)
		if !ok {
			r.logf("L%d op %d: snap skipped (nothing committed past the last snapshot)", s.level, s.opIdx)
			return
		}
		md := si.snap.Metadata
		r.logf("L%d op %d: SaveSnap(i=%d t=%d, %d bytes) + SaveSnapshot", s.level, s.opIdx, md.Index, md.Term, len(si.snap.Data))
		m.snaps = append(m.snaps, si)
		if s.harness(snap.New(nop, s.snapDir).SaveSnap(si.snap), "SaveSnap") {
			return
		}
		m.push(lrec{kind: 'n', idx: md.Index, term: md.Term})
		cs := md.ConfState
		if s.harness(s.w.SaveSnapshot(walpb.Snapshot{Index: md.Index, Term: md.Term, ConfState: &cs}), "SaveSnapshot") {
			return
		}
		si.completed = true
		m.doneSnap = md.Index
		s.completed(true)
		if s.harness(s.w.ReleaseLockTo(md.Index), "ReleaseLockTo") {
			return
		}
	case "sync":
		r.logf("L%d op %d: Sync", s.level, s.opIdx)
		if s.harness(s.w.Sync(), "Sync") {
			return
		}
		s.completed(true)
	case "reopen":
		r.logf("L%d op %d: Close + reopen", s.level, s.opIdx)
		err := s.w.Close()
		s.w = nil
		if s.harness(err, "Close") {
			return
		}
		s.completed(true)
		s.afterOp()
		if r.failed() {
			return
		}
		s.armed = false
		res := recoverDirs(s.walDir, s.snapDir, false, true)
		s.armed = true
		if !s.checkClean(res, "reopen") && (r.failed() || res.w == nil) {
			closeQuietly(res.w)
			s.dead = true
			return
		}
		s.w = res.w // (also after a listed finding: the run goes on)
		s.nWalSegs = s.walSegs()
	}
}

func firstIdx(ents []raftpb.Entry) uint64 {
	if len(ents) == 0 {
		return 0
	}
	return ents[0].Index
}

// checkClean: after a clean Close everything written must be read back.
func (s *session) checkClean(res *recResult, what string) bool {
	r := s.r
	m := s.m
	if res.err != nil {
		if ev := s.staleTmpEvidence(s.walDir); ev != "" {
			r.fail(sigStaleTmp, "%s after a clean close: %s: %v; %s", what, res.stage, res.err, ev)
			return false
		}
		r.fail("C16/recovery/clean-reopen-failed", "%s after a clean close: %s: %v", what, res.stage, res.err)
		return false
	}
	if res.repaired {
		r.fail("C16/recovery/clean-reopen-failed", "%s after a clean close needed wal.Repair", what)
		return false
	}
	if !s.checkSnapshot(res, m.doneSnap, "C16/recovery/clean-reopen-mismatch") {
		return false
	}
	for _, rec := range []*recovered{res.rw, res.ro} {
		if rec == nil {
			continue
		}
		k := matchPrefix(m.W, len(m.W), res.walsnap.Index, m.meta, rec)
		if k != len(m.W) {
			if b, kl := matchLiteral(m.W, len(m.W), m.cuts, res.walsnap.Index, rec); kl == len(m.W) {
				r.fail(sigOverwritten, "%s after a clean close: read back %s at snapshot %d, which is what ReadAll literally folds from records %d..%d, but the log the saves describe is %s: an overwritten entry past the snapshot index was returned",
					what, describe(rec), res.walsnap.Index, b, kl, describeFold(m.W, len(m.W), res.walsnap.Index))
				return false
			}
			r.fail("C16/recovery/clean-reopen-mismatch", "%s after a clean close: read back %s; written %s (matching prefix %d of %d records)",
				what, describe(rec), describeFold(m.W, len(m.W), res.walsnap.Index), k, len(m.W))
			return false
		}
	}
	if res.roErr != nil || res.verErr != nil {
		r.fail("C16/recovery/clean-reopen-failed", "%s after a clean close: OpenForRead: %v, Verify: %v", what, res.roErr, res.verErr)
		return false
	}
	r.mix(uint64(len(m.W)), res.walsnap.Index)
	return true
}

// checkSnapshot: a loaded snapshot is byte-identical to a saved one, and not
// older than the newest one whose save had completed.
func (s *session) checkSnapshot(res *recResult, doneSnap uint64, lostSig string) bool {
	r := s.r
	if res.snapshot != nil {
		raw, _ := res.snapshot.Marshal()
		found := false
		for _, si := range s.m.snaps {
			if bytes.Equal(si.raw, raw) {
				found = true
			}
		}
		if !found {
			r.fail("C16/recovery/snapshot-altered", "loaded snapshot i=%d t=%d (%d bytes) is not byte-identical to any saved snapshot",
				res.snapshot.Metadata.Index, res.snapshot.Metadata.Term, len(res.snapshot.Data))
			return false
		}
	}
	if res.walsnap.Index < doneSnap {
		r.fail(lostSig, "recovery chose snapshot index %d although the save of snapshot %d had completed", res.walsnap.Index, doneSnap)
		return false
	}
	return true
}
