package e4

import (
	"bytes"
	"fmt"

	"verifsim/core"

	"go.etcd.io/etcd/raft/v3/raftpb"
)

// ---- generated input --------------------------------------------------------

// op is an abstract operation, interpreted against the running model state so
// that any subsequence of a valid list is again valid.
type op struct {
	K   string `json:"k"`             // save | hs | vote | snap | sync | reopen
	N   int    `json:"n,omitempty"`   // entries carried by a save
	Sz  int    `json:"sz,omitempty"`  // base payload size
	Big bool   `json:"big,omitempty"` // payload about half a segment
	// Huge: payloads of 20-45 KiB each, several per save, so that one save exceeds
	// the 128 KiB page-writer buffer whatever the segment size: part of the batch
	// reaches the file (page-aligned flushes) before the save's sync
	Huge bool `json:"huge,omitempty"`
	Z   bool   `json:"z,omitempty"`   // all-zero payload
	Ow  int    `json:"ow,omitempty"`  // overwrite that many trailing entries (new term)
	Tb  bool   `json:"tb,omitempty"`  // bump the term
	Vo  bool   `json:"vo,omitempty"`  // change the vote within the current term
	C   int    `json:"c,omitempty"`   // commit advance / snapshot position selector
	V   int    `json:"v,omitempty"`   // vote
}

func (o op) String() string {
	s := o.K
	if o.N > 0 {
		s += fmt.Sprintf(" n=%d sz=%d", o.N, o.Sz)
	}
	if o.K == "snap" {
		s += fmt.Sprintf(" sz=%d sel=%d", o.Sz, o.C)
	} else if o.C > 0 {
		s += fmt.Sprintf(" commit+%d", o.C)
	}
	if o.Big {
		s += " big"
	}
	if o.Huge {
		s += " huge"
	}
	if o.Z {
		s += " zero"
	}
	if o.Ow > 0 {
		s += fmt.Sprintf(" overwrite=%d", o.Ow)
	}
	if o.Tb {
		s += fmt.Sprintf(" term+1 vote=%d", o.V)
	}
	return s
}

type config struct {
	Seg        int64  `json:"seg"`      // wal.SegmentSizeBytes
	Meta       string `json:"meta"`     // WAL metadata
	Salt       uint64 `json:"salt"`     // payload salt
	PTake      int    `json:"ptake"`    // per-mille: take a crash image at a sync notification
	PBetween   int    `json:"pbetween"` // per-mille: take a crash image between two operations
	MaxPer     int    `json:"maxper"`   // images per crash point
	P2         int    `json:"p2"`       // per-mille: keep running on a recovered image and crash again
	NCorrupt   int    `json:"ncorrupt"` // corrupted images sampled from the final clean state
	Exhaustive bool   `json:"exhaustive,omitempty"`
}

type body struct {
	Cfg  config `json:"cfg"`
	Ops  []op   `json:"ops"`
	Ops2 []op   `json:"ops2"`
}

func genOps(r *core.Rand, n int, seg int64) []op {
	ops := make([]op, 0, n)
	for i := 0; i < n; i++ {
		x := r.Intn(100)
		var o op
		switch {
		case x < 46:
			o = op{K: "save", N: 1 + r.Intn(4), Sz: r.Intn(3*sector + 1), C: r.Intn(4)}
			switch r.Intn(8) {
			case 0:
				o.Sz = 0
			case 1: // sizes that make records end near sector boundaries
				o.Sz = sector*(1+r.Intn(3)) - r.Intn(64)
			}
			if r.Intn(10) == 0 {
				o.Z = true
			}
			if r.Intn(6) == 0 {
				o.Ow = 1 + r.Intn(3)
				o.V = 1 + r.Intn(3)
			} else if r.Intn(8) == 0 {
				o.Tb = true
				o.V = r.Intn(4)
			}
		case x < 54:
			o = op{K: "save", N: 1 + r.Intn(2), Big: true, Sz: r.Intn(2 * sector), C: r.Intn(3)}
			if r.Intn(12) == 0 { // more than the 128 KiB page-writer buffer in one call
				o.N = 3 + int(300*1024/seg)
				if o.N > 12 {
					o.N = 12
				}
			}
			if r.Intn(6) == 0 {
				o.Huge, o.Big, o.N = true, false, 4+r.Intn(6)
				if r.Intn(2) == 0 {
					// ... or as many small records: wherever a partial flush cuts the
					// batch, the record it cuts ends within a few hundred bytes
					o.N = 450 + r.Intn(500)
				}
			}
		case x < 68:
			o = op{K: "hs", C: 1 + r.Intn(3)}
		case x < 76:
			o = op{K: "vote", Tb: true, V: r.Intn(4)}
			if r.Intn(3) == 0 {
				// the vote alone changes (a node that learnt the term earlier grants now)
				o = op{K: "vote", V: 1 + r.Intn(3), Vo: true}
			}
		case x < 88:
			o = op{K: "snap", Sz: r.Intn(4 * sector), C: r.Intn(1000)}
		case x < 93:
			o = op{K: "sync"}
		default:
			o = op{K: "reopen"}
		}
		ops = append(ops, o)
	}
	return ops
}

func genBody(seed uint64, tier string) *body {
	r := core.NewRand(seed)
	b := &body{}
	// (262144: larger than the 128 KiB page-writer buffer, so that the partial flush
	// of an oversized save lands inside the preallocated, zero-filled part)
	segs := []int64{4096, 4096, 8192, 8192, 16384, 32768, 65536, 262144}
	b.Cfg.Seg = segs[r.Intn(len(segs))]
	b.Cfg.Meta = fmt.Sprintf("meta-%x", r.Uint64()&0xffff)
	if r.Intn(8) == 0 {
		b.Cfg.Meta = ""
	} else {
		// the metadata record's framed size depends on the length of its crc
		// varint exactly when len(metadata) = 7 mod 8: then the header of a new
		// segment can be 8 bytes shorter than that of an earlier one
		ml := []int{3, 7, 7, 7, 8, 9, 15, 15, 20}[r.Intn(9)]
		for len(b.Cfg.Meta) < ml {
			b.Cfg.Meta += "-m"
		}
		b.Cfg.Meta = b.Cfg.Meta[:ml]
	}
	b.Cfg.Salt = r.Uint64()
	b.Cfg.PTake = []int{60, 120, 250, 500}[r.Intn(4)]
	b.Cfg.PBetween = []int{20, 50, 150}[r.Intn(3)]
	b.Cfg.MaxPer = 1 + r.Intn(4)
	b.Cfg.P2 = []int{0, 100, 300, 300}[r.Intn(4)]
	b.Cfg.NCorrupt = 20 + r.Intn(60)
	n := 6 + r.Intn(50)
	if tier == "thorough" {
		b.Cfg.Exhaustive = true
		n = 4 + r.Intn(14)
		if b.Cfg.Seg == 262144 {
			b.Cfg.Exhaustive = false // sampled, as in the quick tier
		} else if b.Cfg.Seg > 16384 {
			b.Cfg.Seg = 16384
		}
	}
	b.Ops = genOps(r, n, b.Cfg.Seg)
	b.Ops2 = genOps(r, 2+r.Intn(10), b.Cfg.Seg)
	if r.Intn(3) == 0 { // the restarted node is sent the very same entries again
		b.Ops2 = append([]op{{K: "rewrite"}}, b.Ops2...)
	}
	return b
}

// ---- the reference: logical record stream ---------------------------------

// lrec is one logical record handed to the WAL ('e' entry, 's' hard state,
// 'n' snapshot marker).  Segment headers (crc, metadata, repeated state) do
// not change what a reader folds and are not part of the stream.
type lrec struct {
	kind byte
	ent  raftpb.Entry
	hs   raftpb.HardState
	idx  uint64 // snapshot index
	term uint64 // snapshot term
}

func (r *lrec) String() string {
	switch r.kind {
	case 'e':
		return fmt.Sprintf("entry(i=%d t=%d len=%d)", r.ent.Index, r.ent.Term, len(r.ent.Data))
	case 's':
		return fmt.Sprintf("state(t=%d v=%d c=%d)", r.hs.Term, r.hs.Vote, r.hs.Commit)
	}
	return fmt.Sprintf("snapshot(i=%d t=%d)", r.idx, r.term)
}

type snapInfo struct {
	snap      raftpb.Snapshot
	raw       []byte // marshalled, for byte identity
	completed bool
}

type model struct {
	cfg      *config
	meta     []byte
	W        []lrec
	d        int // records up to the last completed obliged-durable operation
	done     int // records up to the last completed operation
	last     uint64
	termAt   map[uint64]uint64
	hs       raftpb.HardState
	snapIdx  uint64
	snaps    []*snapInfo
	cuts     []int  // record counts at which a completed segment cut put a boundary
	doneSnap uint64 // index of the newest snapshot whose save (file + record) completed
	epoch    uint64 // distinguishes payloads written by different incarnations
}

func newModel(cfg *config) *model {
	return &model{cfg: cfg, meta: []byte(cfg.Meta), termAt: map[uint64]uint64{}}
}

func (m *model) apply(r *lrec) {
	switch r.kind {
	case 'e':
		m.termAt[r.ent.Index] = r.ent.Term
		m.last = r.ent.Index
	case 's':
		m.hs = r.hs
	case 'n':
		if r.idx > m.snapIdx {
			m.snapIdx = r.idx
		}
	}
}

func (m *model) push(r lrec) {
	m.W = append(m.W, r)
	m.apply(&m.W[len(m.W)-1])
}

func payload(salt, epoch, index, term uint64, n int, zero bool) []byte {
	if n == 0 {
		return nil
	}
	b := make([]byte, n)
	if zero {
		return b
	}
	r := core.NewRand(core.Mix(salt, epoch, index, term, uint64(n)))
	for i := 0; i < n; i += 8 {
		v := r.Uint64()
		for j := 0; j < 8 && i+j < n; j++ {
			b[i+j] = byte(v>>(8*j)) | 1 // never a zero byte: a zero sector then always means "lost"
		}
	}
	return b
}

// planSave turns a save/hs/vote op into the arguments of WAL.Save and appends
// the records it will write to W.  obliged: the Raft persistence contract
// demands this save be durable when the call returns.
func (m *model) planSave(o op) (st raftpb.HardState, ents []raftpb.Entry, obliged bool) {
	prev := m.hs
	st = m.hs
	if o.Tb || o.Ow > 0 {
		st.Term++
		st.Vote = uint64(o.V)
	}
	if o.Vo {
		st.Vote = uint64(o.V)
		if st.Vote == prev.Vote {
			st.Vote = prev.Vote%3 + 1
		}
	}
	if lt := m.termAt[m.last]; st.Term < lt {
		st.Term = lt
	}
	if st.Term == 0 {
		st.Term = 1
	}
	n := o.N
	if o.K != "save" {
		n = 0
	}
	start := m.last + 1
	if o.Ow > 0 && n > 0 {
		lo := st.Commit
		if m.snapIdx > lo {
			lo = m.snapIdx
		}
		lo++
		if uint64(o.Ow) < start && start-uint64(o.Ow) >= lo {
			start -= uint64(o.Ow)
		} else if lo < start {
			start = lo
		}
	}
	for j := 0; j < n; j++ {
		sz := o.Sz
		if j > 0 {
			sz = (o.Sz + j*61) % (3*sector + 1)
		}
		if o.Huge {
			sz = 20000 + (o.Sz*37+j*7919)%26000
			if n >= 100 {
				sz = 150 + (o.Sz+j*61)%250
			}
		}
		if o.Big {
			sz = int(m.cfg.Seg/2) + o.Sz - j*97
			if sz < 0 {
				sz = 0
			}
		}
		idx := start + uint64(j)
		ents = append(ents, raftpb.Entry{Term: st.Term, Index: idx, Type: raftpb.EntryNormal,
			Data: payload(m.cfg.Salt, m.epoch, idx, st.Term, sz, o.Z)})
	}
	newLast := m.last
	if n > 0 {
		newLast = start + uint64(n) - 1
	}
	st.Commit += uint64(o.C)
	if st.Commit > newLast {
		st.Commit = newLast
	}
	if st.Commit < prev.Commit {
		st.Commit = prev.Commit
	}
	for i := range ents {
		m.push(lrec{kind: 'e', ent: ents[i]})
	}
	m.push(lrec{kind: 's', hs: st})
	obliged = n > 0 || st.Term != prev.Term || st.Vote != prev.Vote
	return st, ents, obliged
}

// planSnap picks a snapshot position in (last snapshot, commit]; ok=false if
// there is none.
func (m *model) planSnap(o op) (*snapInfo, bool) {
	if m.hs.Commit <= m.snapIdx {
		return nil, false
	}
	span := m.hs.Commit - m.snapIdx
	idx := m.snapIdx + 1 + uint64(o.C)%span
	term, ok := m.termAt[idx]
	if !ok {
		return nil, false
	}
	sn := raftpb.Snapshot{
		Data: payload(m.cfg.Salt^0x5a5a, m.epoch, idx, term, o.Sz+1, false),
		Metadata: raftpb.SnapshotMetadata{Index: idx, Term: term,
			ConfState: raftpb.ConfState{Voters: []uint64{1, 2, 3}}},
	}
	raw, _ := sn.Marshal()
	return &snapInfo{snap: sn, raw: raw}, true
}

// ---- fold: what ReadAll is documented to return for a record prefix -------

type recovered struct {
	meta []byte
	hs   raftpb.HardState
	ents []raftpb.Entry
}

func hsEq(a, b raftpb.HardState) bool {
	return a.Term == b.Term && a.Vote == b.Vote && a.Commit == b.Commit
}

// matchPrefix returns the largest k <= wlen such that folding W[:k] for a
// reader positioned at snapshot index start yields exactly rec; -1 if none.
//
// The fold is the Raft log the saves describe: an entry with index i replaces
// everything at and after i (whether or not i is past the snapshot), the last
// state record wins; the reader gets the entries past the snapshot index.
func matchPrefix(W []lrec, wlen int, start uint64, meta []byte, rec *recovered) int {
	if !bytes.Equal(meta, rec.meta) {
		// a reader that stopped before the metadata record (second record of
		// the first segment) has seen nothing at all: the empty prefix
		if len(rec.meta) == 0 && hsEq(rec.hs, raftpb.HardState{}) && len(rec.ents) == 0 {
			return 0
		}
		return -1
	}
	best := -1
	var hs raftpb.HardState
	var log []int // log[i-1] = position in W of the entry with index i
	check := func(k int) {
		var ents []int
		if start < uint64(len(log)) {
			ents = log[start:]
		}
		if !hsEq(hs, rec.hs) || len(ents) != len(rec.ents) {
			return
		}
		for i, p := range ents {
			a, b := &W[p].ent, &rec.ents[i]
			if a.Index != b.Index || a.Term != b.Term || a.Type != b.Type || !bytes.Equal(a.Data, b.Data) {
				return
			}
		}
		best = k
	}
	check(0)
	for k := 1; k <= wlen; k++ {
		r := &W[k-1]
		switch r.kind {
		case 'e':
			i := r.ent.Index
			if i == 0 || i > uint64(len(log))+1 {
				return best // a gap: not produced by the workload
			}
			log = append(log[:i-1], k-1)
		case 's':
			hs = r.hs
		}
		check(k)
	}
	return best
}

// matchLiteral is ReadAll's literal behaviour: records are read from a
// segment boundary b (a reader positioned at a snapshot skips older segments),
// entries at or below the snapshot index are skipped without truncating what
// was collected, so an entry past the snapshot that a later save overwrote from
// an index at or below the snapshot stays in the result.  Returns (b,k) or -1.
func matchLiteral(W []lrec, wlen int, cuts []int, start uint64, rec *recovered) (int, int) {
	for ci := len(cuts) - 1; ci >= -1; ci-- {
		b := 0
		if ci >= 0 {
			b = cuts[ci]
		}
		if b > wlen {
			continue
		}
		var hs raftpb.HardState
		var ents []int
		ok := true
		bestK := -1
		for k := b; k <= wlen && ok; k++ {
			if k > b {
				r := &W[k-1]
				switch r.kind {
				case 'e':
					if r.ent.Index > start {
						up := r.ent.Index - start - 1
						if up > uint64(len(ents)) {
							ok = false
							continue
						}
						ents = append(ents[:up], k-1)
					}
				case 's':
					hs = r.hs
				}
			}
			// the head of a segment repeats the hard state, so a reader that
			// starts at b knows the state as of b
			if k == b {
				for j := b - 1; j >= 0; j-- {
					if W[j].kind == 's' {
						hs = W[j].hs
						break
					}
				}
			}
			if !hsEq(hs, rec.hs) || len(ents) != len(rec.ents) {
				continue
			}
			same := true
			for i, p := range ents {
				x, y := &W[p].ent, &rec.ents[i]
				if x.Index != y.Index || x.Term != y.Term || !bytes.Equal(x.Data, y.Data) {
					same = false
					break
				}
			}
			if same {
				bestK = k
			}
		}
		if bestK >= 0 {
			return b, bestK
		}
	}
	return -1, -1
}

func describe(rec *recovered) string {
	s := fmt.Sprintf("state(t=%d v=%d c=%d) entries=%d", rec.hs.Term, rec.hs.Vote, rec.hs.Commit, len(rec.ents))
	if n := len(rec.ents); n > 0 {
		s += fmt.Sprintf(" [i=%d t=%d .. i=%d t=%d]", rec.ents[0].Index, rec.ents[0].Term, rec.ents[n-1].Index, rec.ents[n-1].Term)
	}
	return s
}

func describeFold(W []lrec, k int, start uint64) string {
	var rec recovered
	var log []raftpb.Entry
	for i := 0; i < k; i++ {
		r := &W[i]
		switch r.kind {
		case 'e':
			if r.ent.Index >= 1 && r.ent.Index <= uint64(len(log))+1 {
				log = append(log[:r.ent.Index-1], r.ent)
			}
		case 's':
			rec.hs = r.hs
		}
	}
	if start < uint64(len(log)) {
		rec.ents = log[start:]
	}
	return describe(&rec)
}
