// Package e4 is the "waldisk" engine: the real etcd WAL / snapshotter /
// fileutil code writes real files on tmpfs while a shadow keeps, per inode, the
// bytes that are durable (content at the last completed fsync/fdatasync).  A
// crash image is: durable bytes, plus a chosen subset of the unsynced 512-byte
// sectors taken from the file as it currently is.
package e4

import (
	"bytes"
	"fmt"
	"io"
	"os"
	"path/filepath"
	"sort"
	"strings"
	"syscall"

	"go.etcd.io/etcd/client/pkg/v3/fileutil"
	"go.etcd.io/etcd/pkg/v3/ioutil"
)

const sector = 512

// cur is the session the fsync hook reports to (nil: ignore notifications).
var cur *session

func init() {
	fileutil.VerifSyncHook = syncHook
	ioutil.VerifWriteHook = writeHook
}

// writeHook: the WAL's page writer has just handed bytes to the segment file (a
// page-aligned flush in the middle of a large batch, or the flush that precedes
// a sync).  A process killed here leaves the file exactly as it is now; a power
// loss leaves any subset of its unsynced sectors: one more crash point.
func writeHook(w io.Writer) {
	s := cur
	if s == nil {
		return
	}
	f, ok := w.(*os.File)
	if !ok {
		return
	}
	s.onWrite(f)
}

func syncHook(f *os.File, after bool) {
	s := cur
	if s == nil {
		return
	}
	fi, err := f.Stat()
	if err != nil || fi.IsDir() {
		return
	}
	st, ok := fi.Sys().(*syscall.Stat_t)
	if !ok {
		return
	}
	if after {
		// what the file holds now is durable
		b, err := os.ReadFile(fmt.Sprintf("/proc/self/fd/%d", f.Fd()))
		if err == nil {
			s.dur[st.Ino] = b
		}
		s.onSync(f, true)
		return
	}
	s.onSync(f, false)
}

func inoOf(path string) (uint64, bool) {
	var st syscall.Stat_t
	if err := syscall.Stat(path, &st); err != nil {
		return 0, false
	}
	return st.Ino, true
}

// fileState is one file of the simulated disk at a crash point.
type fileState struct {
	sub   string // "wal" or "snap"
	name  string
	vol   []byte // content as the process sees it
	old   []byte // durable content, zero-extended / cut to len(vol)
	dirty []int  // sector numbers in which vol differs from old
	// durLen: length of the durable content (0 for a file never synced); when the
	// file has grown since (vol longer), the sectors behind durLen do not exist on
	// the disk unless they were written: see shortTailCut
	durLen int
}

// dirtyRef names one unsynced sector of the whole disk.
type dirtyRef struct{ file, sec int }

func sortedNames(dir string) []string {
	ents, err := os.ReadDir(dir)
	if err != nil {
		return nil
	}
	var names []string
	for _, e := range ents {
		if !e.IsDir() {
			names = append(names, e.Name())
		}
	}
	sort.Strings(names)
	return names
}

func allZero(b []byte) bool {
	for _, v := range b {
		if v != 0 {
			return false
		}
	}
	return true
}

// scan reads the volatile state of both directories and computes, per file,
// which sectors are not yet durable.
func (s *session) scan() ([]fileState, []dirtyRef) {
	var files []fileState
	for _, d := range []struct{ sub, dir string }{{"snap", s.snapDir}, {"wal", s.walDir}} {
		for _, name := range sortedNames(d.dir) {
			p := filepath.Join(d.dir, name)
			vol, err := os.ReadFile(p)
			if err != nil {
				continue
			}
			// a pipeline file that was preallocated but never handed out is
			// all zero; whether it exists yet depends on goroutine timing, and
			// its presence is equivalent to its absence: leave it out.
			if strings.HasSuffix(name, ".tmp") && allZero(vol) {
				continue
			}
			fs := fileState{sub: d.sub, name: name, vol: vol, old: make([]byte, len(vol))}
			if ino, ok := inoOf(p); ok {
				if dur, ok := s.dur[ino]; ok {
					copy(fs.old, dur)
					fs.durLen = min(len(dur), len(vol))
				}
			}
			for sec := 0; sec*sector < len(vol); sec++ {
				lo, hi := sec*sector, (sec+1)*sector
				if hi > len(vol) {
					hi = len(vol)
				}
				if !bytes.Equal(vol[lo:hi], fs.old[lo:hi]) {
					fs.dirty = append(fs.dirty, sec)
				}
			}
			files = append(files, fs)
		}
	}
	var refs []dirtyRef
	for i := range files {
		for _, sec := range files[i].dirty {
			refs = append(refs, dirtyRef{i, sec})
		}
	}
	return files, refs
}

// materialise writes the crash image in which the dirty sectors flagged in
// lost keep their old (durable) content and all others their volatile one.
// shortTailCut: a file that grew past its durable length and whose last sectors
// were lost may come back *shorter* (the sectors were never allocated, the size
// never updated) instead of zero-filled: the length at which such an image ends,
// or -1 when the lost sectors of f do not form a tail behind its durable length.
func shortTailCut(f *fileState, lostSecs map[int]bool) int {
	n := (len(f.vol) + sector - 1) / sector
	cut := -1
	for sec := n - 1; sec >= 0 && lostSecs[sec] && sec*sector >= f.durLen; sec-- {
		cut = sec * sector
	}
	return cut
}

func materialise(root string, files []fileState, refs []dirtyRef, lost []bool, short bool) error {
	for _, sub := range []string{"wal", "snap"} {
		if err := os.MkdirAll(filepath.Join(root, sub), 0o750); err != nil {
			return err
		}
	}
	lostBy := map[int][]int{}
	for i, l := range lost {
		if l {
			lostBy[refs[i].file] = append(lostBy[refs[i].file], refs[i].sec)
		}
	}
	for i := range files {
		f := &files[i]
		b := f.vol
		if ls := lostBy[i]; len(ls) > 0 {
			b = append([]byte(nil), f.vol...)
			for _, sec := range ls {
				lo, hi := sec*sector, (sec+1)*sector
				if hi > len(b) {
					hi = len(b)
				}
				copy(b[lo:hi], f.old[lo:hi])
			}
			if short {
				set := map[int]bool{}
				for _, sec := range ls {
					set[sec] = true
				}
				if cut := shortTailCut(f, set); cut >= 0 {
					b = b[:cut]
				}
			}
		}
		if err := os.WriteFile(filepath.Join(root, f.sub, f.name), b, 0o600); err != nil {
			return err
		}
	}
	return nil
}

// registerDurable declares everything currently in the session directories
// durable as it is (a crash image *is* the disk).
func (s *session) registerDurable() {
	for _, dir := range []string{s.snapDir, s.walDir} {
		for _, name := range sortedNames(dir) {
			p := filepath.Join(dir, name)
			if ino, ok := inoOf(p); ok {
				if b, err := os.ReadFile(p); err == nil {
					s.dur[ino] = b
				}
			}
		}
	}
}

// recordSpans parses the frame structure of a WAL segment image and returns
// the [start,end) byte ranges of its records (frame header included).
func recordSpans(b []byte) [][2]int {
	var out [][2]int
	off := 0
	for off+8 <= len(b) {
		var l uint64
		for i := 7; i >= 0; i-- {
			l = l<<8 | uint64(b[off+i])
		}
		if l == 0 {
			break
		}
		rec := int(l & ^(uint64(0xff) << 56))
		pad := 0
		if int64(l) < 0 {
			pad = int((l >> 56) & 0x7)
		}
		end := off + 8 + rec + pad
		if rec < 0 || end > len(b) || end <= off {
			break
		}
		out = append(out, [2]int{off, end})
		off = end
	}
	return out
}

// tornInsideRecord reports whether, in a WAL file, some record contains a
// lost sector and also bytes that are not lost.
func tornInsideRecord(f *fileState, lostSecs map[int]bool) bool {
	if len(lostSecs) == 0 || !strings.HasSuffix(f.name, ".wal") && !strings.HasSuffix(f.name, ".tmp") {
		return false
	}
	for _, sp := range recordSpans(f.vol) {
		hasLost, hasKept := false, false
		for sec := sp[0] / sector; sec*sector < sp[1]; sec++ {
			if lostSecs[sec] {
				hasLost = true
			} else {
				hasKept = true
			}
		}
		if hasLost && hasKept {
			return true
		}
	}
	return false
}
