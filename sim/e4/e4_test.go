package e4

import (
	"os"
	"runtime/debug"
	"runtime/pprof"
	"testing"

	"verifsim/core"
)

func TestWorker(t *testing.T) {
	env := core.ReadEnv()
	// every write-mode open allocates the WAL encoder's 1 MiB buffer; the live
	// heap is tiny, so let the collector run less often
	debug.SetGCPercent(1000)
	cleanupStale()
	if p := os.Getenv("VERIF_E4_PROF"); p != "" {
		if f, err := os.Create(p); err == nil {
			pprof.StartCPUProfile(f)
			defer f.Close()
		}
	}
	code := core.WorkerMain(env, engine{})
	pprof.StopCPUProfile()
	os.RemoveAll(scratchBase)
	os.Exit(code)
}
