package e4

import (
	"os"
	"testing"

	"verifsim/core"
)

func TestWorker(t *testing.T) {
	env := core.ReadEnv()
	cleanupStale()
	code := core.WorkerMain(env, engine{})
	os.RemoveAll(scratchBase)
	os.Exit(code)
}
