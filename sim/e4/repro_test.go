package e4

import (
	"fmt"
	"os"
	"path/filepath"
	"strings"
	"testing"

	"go.etcd.io/etcd/client/pkg/v3/fileutil"
	"go.etcd.io/etcd/raft/v3/raftpb"
	"go.etcd.io/etcd/server/v3/storage/wal"
	"go.etcd.io/etcd/server/v3/storage/wal/walpb"
)

// TestReproStaleTmp is a harness-free reproduction of
// C16/recovery/stale-bytes-of-reused-tmp-segment (VERIF_E4_REPRO=1 to run):
// first life: two Saves, the second ends with a segment cut; the process dies after cut() has
// synced the header of 0.tmp but before the rename; second life: Open, one
// Save (cuts at once, the file pipeline hands out the leftover 0.tmp), clean
// Close; third life: Open+ReadAll.  Nothing is ever lost or torn.
func TestReproStaleTmp(t *testing.T) {
	if os.Getenv("VERIF_E4_REPRO") == "" {
		t.Skip("set VERIF_E4_REPRO=1")
	}
	saved := fileutil.VerifSyncHook
	defer func() { fileutil.VerifSyncHook = saved }()
	wal.SegmentSizeBytes = 4096
	base := fmt.Sprintf("/dev/shm/verif-e4-repro-%d", os.Getpid())
	defer os.RemoveAll(base)
	bad := 0
	const tries = 300
	for salt := uint64(0); salt < tries; salt++ {
		os.RemoveAll(base)
		dir, img := filepath.Join(base, "wal"), filepath.Join(base, "img")
		os.MkdirAll(base, 0o750)
		taken := false
		fileutil.VerifSyncHook = func(f *os.File, after bool) {
			if after && !taken && strings.HasSuffix(f.Name(), ".tmp") {
				taken = true
				copyDir(img, dir) // what is on disk if the process dies here
			}
		}
		w, err := wal.Create(nop, dir, []byte("meta-a2"))
		if err != nil {
			t.Fatal(err)
		}
		e1 := raftpb.Entry{Term: 1, Index: 1, Data: payload(salt, 0, 1, 1, 4200, false)}
		if err := w.Save(raftpb.HardState{Term: 1, Commit: 1}, []raftpb.Entry{e1}); err != nil {
			t.Fatal(err)
		}
		// the segment is now past its size: the next Save ends with a cut
		e2 := raftpb.Entry{Term: 1, Index: 2, Data: payload(salt, 0, 2, 1, 100, false)}
		if err := w.Save(raftpb.HardState{Term: 1, Commit: 2}, []raftpb.Entry{e2}); err != nil {
			t.Fatal(err)
		}
		w.Close()
		fileutil.VerifSyncHook = nil
		if !taken {
			t.Fatal("no cut happened")
		}
		// second life on the image
		w2, err := wal.Open(nop, img, walpb.Snapshot{})
		if err != nil {
			t.Fatal(err)
		}
		if _, _, _, err := w2.ReadAll(); err != nil {
			t.Fatal("second life ReadAll: ", err)
		}
		e3 := raftpb.Entry{Term: 1, Index: 3, Data: payload(salt, 1, 3, 1, 100, false)}
		if err := w2.Save(raftpb.HardState{Term: 1, Commit: 3}, []raftpb.Entry{e3}); err != nil {
			t.Fatal(err)
		}
		if err := w2.Close(); err != nil {
			t.Fatal(err)
		}
		// third life
		w3, err := wal.Open(nop, img, walpb.Snapshot{})
		if err != nil {
			t.Fatal(err)
		}
		_, _, ents, err := w3.ReadAll()
		w3.Close()
		if err != nil {
			bad++
			if bad <= 3 {
				t.Logf("salt %d: ReadAll after a clean close of the second life: %v (wal.Repair -> %v)", salt, err, wal.Repair(nop, img))
			}
		} else if len(ents) != 3 {
			t.Fatalf("salt %d: %d entries", salt, len(ents))
		}
	}
	t.Logf("%d of %d payload variants leave the log unreadable", bad, tries)
	if bad > 0 {
		t.Fail()
	}
}
