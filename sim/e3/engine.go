//go:build verif

package e3

import (
	"encoding/json"
	"fmt"
	"os"
	"time"

	"verifsim/core"
)

type engine struct {
	detlog      *os.File
	sawViol     bool
	statesAdded int
}

// derive: run seed -> (config, tape PRNG).  Nothing else is random.
func derive(seed int64, run int, tier string) (*Config, *core.Rand) {
	r := core.NewRand(core.RunSeed(seed, prop, run))
	cfg := genConfig(r.Fork(), tier)
	return cfg, r.Fork()
}

func (e *engine) Run(env *core.Env, run int, res *core.Result) *core.Violation {
	cfg, tr := derive(env.Seed, run, env.Tier)
	if v := env.ParamInt("events", 0); v > 0 {
		cfg.Events = v
	}
	cfg.LenientSync = env.ParamInt("lenient_sync", 0) != 0
	tape := core.NewGenTape(tr)
	body, _ := json.Marshal(cfg)
	c := &core.Case{Property: prop, Engine: "e3", Seed: env.Seed, Run: run, Profile: "gen", Body: body, ReplayExact: true}
	env.J.Begin(c) // if the process dies, Replay regenerates the tape from (seed, run)

	s := newSim(cfg, tape)
	sample := len(res.Samples) < 3
	if sample {
		s.sample = true // trace the first 30 lines after the bootstrap
	}
	s.run()
	env.J.Done()

	res.Steps += int64(s.step)
	res.SimNs += float64(s.maxTicks()) * 100e6 // one tick = 100 ms notional
	// map order is irrelevant here: addition commutes
	for k, v := range s.faults {
		res.Fault(k, v)
	}
	for k, v := range s.probes {
		res.Probe(k, v)
	}
	res.Count("strategy-"+cfg.Strategy, 1)
	res.Count(fmt.Sprintf("nodes-%d", cfg.N), 1)
	res.Count("leaders-elected", int64(s.leaders))
	res.Count("entries-applied", int64(s.commits))
	if s.livenessChecked {
		res.Count("liveness-checked", 1)
	} else if cfg.Liveness {
		res.Count("liveness-skipped", 1)
	}
	res.AddTrace(s.th, s.leaders > 0 && s.commits > 0 && s.nfault > 0)
	for _, h := range s.states {
		if e.statesAdded < 400_000 { // keeps the worker's result file small in long tiers
			res.AddState(h)
			e.statesAdded++
		}
	}
	if sample {
		res.AddSample(map[string]any{"run": run, "config": cfg, "weights_order": kindNames, "first_events": s.trace})
	}
	if p := os.Getenv("VERIF_DETLOG"); p != "" {
		if e.detlog == nil {
			e.detlog, _ = os.OpenFile(p, os.O_CREATE|os.O_WRONLY|os.O_TRUNC, 0o644)
		}
		if e.detlog != nil {
			fmt.Fprintf(e.detlog, "run=%d hash=%016x\n", run, s.th)
		}
	}
	if s.viol == nil {
		return nil
	}
	if !e.sawViol { // wall-clock time to the first detection: reporting only
		e.sawViol = true
		res.Count("first-violation-ms", time.Since(env.Start).Milliseconds())
		res.Count("first-violation-run", int64(run))
	}
	c.Profile = ""
	c.Tape = tape.Used()
	c.Signature, c.Message = s.viol.sig, s.viol.msg
	return &core.Violation{Signature: s.viol.sig, Message: s.viol.msg, Case: c}
}

// exec runs a stored case; verbose collects the event trace.
func exec(c *core.Case, tapeVals []uint32, verbose bool) *sim {
	cfg := &Config{}
	if err := json.Unmarshal(c.Body, cfg); err != nil {
		panic(fmt.Sprintf("bad case body: %v", err))
	}
	var tape *core.Tape
	if c.Profile == "gen" { // a journal left by a dead worker: the tape was never stored
		_, tr := derive(c.Seed, c.Run, "")
		tape = core.NewGenTape(tr)
	} else {
		tape = core.NewReplayTape(tapeVals)
	}
	s := newSim(cfg, tape)
	s.verbose = verbose
	s.run()
	return s
}

func lastLines(t []string, n int) []string {
	if len(t) > n {
		t = t[len(t)-n:]
	}
	return append([]string(nil), t...)
}

func (e *engine) Replay(env *core.Env, c *core.Case) (string, string, []string) {
	s := exec(c, c.Tape, true)
	tr := append([]string{fmt.Sprintf("config %s", string(c.Body))}, lastLines(s.trace, env.ParamInt("trace", 60))...)
	if s.viol == nil {
		return "", "", tr
	}
	return s.viol.sig, s.viol.msg, tr
}

func (e *engine) Minimise(env *core.Env, c *core.Case) *core.Case {
	budget := 4000 // re-executions; a count, not a clock, so that the result is reproducible
	test := func(t []uint32) bool {
		if budget <= 0 {
			return false
		}
		budget--
		s := exec(c, t, false)
		return s.viol != nil && s.viol.sig == c.Signature
	}
	out := *c
	if c.Profile != "gen" && test(c.Tape) {
		out.Tape = core.MinimiseTape(c.Tape, test)
	}
	s := exec(&out, out.Tape, true)
	if s.viol == nil || s.viol.sig != c.Signature {
		// cannot happen for a deterministic run; keep the original rather than lie
		return c
	}
	out.Minimised = true
	out.Message = s.viol.msg
	out.Trace = lastLines(s.trace, 60)
	return &out
}
