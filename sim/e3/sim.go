//go:build verif

package e3

import (
	"encoding/binary"
	"fmt"
	"math"
	"runtime/debug"
	"strings"

	"go.etcd.io/etcd/raft/v3"
	pb "go.etcd.io/etcd/raft/v3/raftpb"
	"verifsim/core"
)

// crash points inside the handling of one Ready
const (
	crashNow = iota // no Ready in progress
	crashBeforePersist
	crashAfterPersist // persisted, nothing sent
	crashAfterSend    // sent, nothing applied
	crashAfterApply   // applied, not advanced
	nCrashSteps
)

var crashNames = [nCrashSteps]string{"crash-idle", "crash-before-persist", "crash-after-persist", "crash-after-send", "crash-after-apply"}

type node struct {
	id      uint64
	rn      *raft.RawNode // nil while crashed
	ms      *raft.MemoryStorage
	started bool // the process has been started at least once
	boot    bool // initial member: bootstraps; otherwise joins with empty storage

	// durable (with ms)
	persisted bool         // something durable exists (a sync point was reached)
	hs        pb.HardState // last written hard state (= what ms holds)

	// Write-behind model of the disk, honouring Ready.MustSync the way a WAL
	// does: what a Ready with MustSync=false hands over is written but volatile;
	// persisting a later Ready with MustSync=true (or a snapshot — saving one
	// fsyncs) makes everything written before it durable too.  ms holds what is
	// written (the library reads it back); the fields below remember what of it
	// is durable, so that a crash can take the volatile suffix away.
	volatile    bool         // something was written since the last sync
	durHS       pb.HardState // hard state as of the last sync
	volEnts     bool         // entries were written since the last sync (never, in the unchanged library)
	durEnts     []pb.Entry   // if volEnts: the log as of the last sync
	volCritical bool         // the volatile suffix holds a term or vote change, or entries
	volExternal bool         // ... and messages were sent after that was written
	ansTerm     uint64       // term and vote the node last sent messages under: survives
	ansVote     uint64       // every crash, for the vote-once check

	// volatile application state
	cs        pb.ConfState // configuration as of appCursor
	appCursor uint64       // last index handed to the application
	armed     int          // crash step armed for the next Ready
	ticks     int

	// checker's memo of what it already verified of this node's log
	view       []vent
	dirty      bool   // the log may differ from view: re-read it
	viewFirst  uint64 // index of view[0]
	baseChain  uint64 // chain hash of the entry before view[0]
	lastCommit uint64
}

type violation struct{ sig, msg string }

type sim struct {
	cfg   *Config
	tape  *core.Tape
	nodes [maxID + 1]*node
	peers []raft.Peer
	soup  []*pb.Message // in-flight messages, oldest first
	side  [maxID + 1]int
	split bool

	step       int
	nextPhase  int
	armLeader  int // crash the next node that becomes leader at this step of that Ready
	propSeq    uint64
	ccProposed int

	o    oracle
	viol *violation

	// coverage
	faults  map[string]int64
	probes  map[string]int64
	th      uint64 // running trace hash
	states  []uint64
	leaders int
	commits int
	nfault  int

	verbose  bool
	sample   bool
	traceCap int
	trace    []string

	// liveness phase
	inLiveness                       bool
	markerIdx                        uint64
	livenessChecked, livenessSkipped bool
}

func newSim(cfg *Config, tape *core.Tape) *sim {
	s := &sim{cfg: cfg, tape: tape, faults: map[string]int64{}, probes: map[string]int64{}, th: 0xcbf29ce484222325}
	s.o.init()
	for id := 1; id <= maxID; id++ {
		s.nodes[id] = &node{id: uint64(id), boot: id <= cfg.N}
	}
	for id := 1; id <= cfg.N; id++ {
		s.peers = append(s.peers, raft.Peer{ID: uint64(id)})
	}
	return s
}

// ---- trace -----------------------------------------------------------------

func (s *sim) hash(vs ...uint64) {
	for _, v := range vs {
		s.th = (s.th ^ v) * 0x100000001b3
		s.th ^= s.th >> 29
	}
}

func (s *sim) logf(format string, a ...any) {
	if !s.verbose {
		return
	}
	if s.traceCap > 0 && len(s.trace) >= s.traceCap {
		s.verbose = false
		return
	}
	s.trace = append(s.trace, fmt.Sprintf("%5d ", s.step)+fmt.Sprintf(format, a...))
}

func (s *sim) fault(kind string) { s.faults[kind]++; s.nfault++ }
func (s *sim) probe(name string) { s.probes[name]++ }

func (s *sim) fail(sig, format string, a ...any) {
	if s.viol != nil {
		return
	}
	s.viol = &violation{sig: prop + "/" + sig, msg: fmt.Sprintf("event %d: ", s.step) + fmt.Sprintf(format, a...)}
	s.logf("VIOLATION %s: %s", s.viol.sig, s.viol.msg)
}

// ---- library call guard ------------------------------------------------------

type libPanic string // raised by the logger's Panic/Fatal, i.e. a library assertion

// guard runs f and turns a panic raised inside the raft library into a
// violation.  A panic that originates in harness code is re-raised: it is a
// bug of the checker and must kill the worker, not be reported as a finding.
func (s *sim) guard(what string, f func()) {
	defer func() {
		r := recover()
		if r == nil {
			return
		}
		stack := string(debug.Stack())
		txt := fmt.Sprint(r)
		if _, ok := r.(libPanic); !ok && !panicFromLibrary(stack) {
			panic(fmt.Sprintf("harness panic during %s: %v\n%s", what, r, stack))
		}
		s.fail("library-panic/"+shortSig(txt), "library panicked during %s: %s", what, txt)
	}()
	f()
}

// panicFromLibrary: is the first non-runtime frame below panic() in the raft module?
func panicFromLibrary(stack string) bool {
	lines := strings.Split(stack, "\n")
	seen := false
	for _, l := range lines {
		if strings.HasPrefix(l, "\t") || l == "" {
			continue
		}
		if strings.HasPrefix(l, "panic(") {
			seen = true
			continue
		}
		if !seen || strings.HasPrefix(l, "runtime.") {
			continue
		}
		return strings.Contains(l, "go.etcd.io/etcd/raft")
	}
	return false
}

func shortSig(msg string) string {
	var b strings.Builder
	dash := false
	for _, c := range msg {
		switch {
		case c >= 'a' && c <= 'z' || c >= 'A' && c <= 'Z':
			b.WriteRune(c)
			dash = false
		case c >= '0' && c <= '9':
			// numbers vary from run to run
		default:
			if !dash && b.Len() > 0 {
				b.WriteByte('-')
				dash = true
			}
		}
		if b.Len() >= 40 {
			break
		}
	}
	return strings.Trim(b.String(), "-")
}

type quietLogger struct{}

func (quietLogger) Debug(v ...interface{})                   {}
func (quietLogger) Debugf(format string, v ...interface{})   {}
func (quietLogger) Error(v ...interface{})                   {}
func (quietLogger) Errorf(format string, v ...interface{})   {}
func (quietLogger) Info(v ...interface{})                    {}
func (quietLogger) Infof(format string, v ...interface{})    {}
func (quietLogger) Warning(v ...interface{})                 {}
func (quietLogger) Warningf(format string, v ...interface{}) {}
func (quietLogger) Fatal(v ...interface{})                   { panic(libPanic(fmt.Sprint(v...))) }
func (quietLogger) Fatalf(format string, v ...interface{}) {
	panic(libPanic(fmt.Sprintf(format, v...)))
}
func (quietLogger) Panic(v ...interface{}) { panic(libPanic(fmt.Sprint(v...))) }
func (quietLogger) Panicf(format string, v ...interface{}) {
	panic(libPanic(fmt.Sprintf(format, v...)))
}

// ---- node life cycle ---------------------------------------------------------

func (s *sim) raftConfig(n *node, applied uint64) *raft.Config {
	return &raft.Config{ID: n.id, ElectionTick: s.cfg.ElectionTick, HeartbeatTick: s.cfg.HeartbeatTick, Storage: n.ms,
		Applied: applied, MaxSizePerMsg: s.cfg.MaxSizePerMsg, MaxInflightMsgs: s.cfg.MaxInflight,
		CheckQuorum: s.cfg.CheckQuorum, PreVote: s.cfg.PreVote, Logger: quietLogger{}}
}

// start (re)creates the RawNode of n from what is durable.
func (s *sim) start(n *node) {
	if n.volatile { // unsynced writes that survived the crash are on disk: durable from here on
		n.synced()
	}
	s.guard("start", func() {
		if !n.persisted {
			// Nothing durable: this is the fresh node it always was.  (Restarting a
			// bootstrapped node config-less would be an application decision; such a
			// node learns "add node 1" alone and elects itself.)
			if n.started {
				s.probe("node-restarted-fresh")
			}
			n.ms = raft.NewMemoryStorage()
			n.hs = pb.HardState{}
			n.cs = pb.ConfState{}
			n.appCursor = 0
			rn, err := raft.NewRawNode(s.raftConfig(n, 0))
			if err != nil {
				panic(libPanic(err.Error()))
			}
			if n.boot {
				if err := rn.Bootstrap(s.peers); err != nil {
					panic(libPanic(err.Error()))
				}
			}
			n.rn = rn
		} else {
			// The application state is rebuilt from the snapshot; entries above it
			// are handed out and applied again (the checker tolerates that).
			snap, _ := n.ms.Snapshot()
			si := snap.Metadata.Index
			if fi, _ := n.ms.FirstIndex(); fi <= si {
				n.ms.Compact(si) // a rebuilt log holds nothing below the snapshot
			}
			n.cs = snap.Metadata.ConfState
			n.appCursor = si
			rn, err := raft.NewRawNode(s.raftConfig(n, si))
			if err != nil {
				panic(libPanic(err.Error()))
			}
			n.rn = rn
		}
		n.started = true
		n.armed = 0
		n.view, n.viewFirst, n.baseChain, n.lastCommit, n.dirty = nil, 0, 0, 0, true
	})
	s.pump(n)
}

func (s *sim) crash(n *node, stepName string) {
	n.rn = nil
	n.dirty = true
	n.armed = 0
	s.logf("  node %d crashed (%s)", n.id, stepName)
	s.hash(0xC0, n.id)
}

// pump handles every pending Ready of n: persist, send, apply, advance — with
// the armed crash point, if any, honoured in the first one.
func (s *sim) pump(n *node) {
	for iter := 0; n.rn != nil && s.viol == nil; iter++ {
		var has bool
		s.guard("HasReady", func() { has = n.rn.HasReady() })
		if !has || s.viol != nil {
			return
		}
		if iter > 5000 {
			s.fail("harness/ready-loop", "node %d: Ready loop does not quiesce", n.id)
			return
		}
		var rd raft.Ready
		s.guard("Ready", func() { rd = n.rn.Ready() })
		if s.viol != nil {
			return
		}
		at := n.armed
		n.armed = 0
		if len(rd.Entries) > 0 || !raft.IsEmptySnap(rd.Snapshot) {
			n.dirty = true
		}
		if s.armLeader != 0 && rd.SoftState != nil && rd.SoftState.RaftState == raft.StateLeader {
			at, s.armLeader = s.armLeader, 0
			s.probe("crash-on-becoming-leader")
		}
		s.hash(0xD0, n.id, rd.HardState.Term, rd.HardState.Vote, rd.HardState.Commit, uint64(len(rd.Entries)),
			uint64(len(rd.CommittedEntries)), uint64(len(rd.Messages)), rd.Snapshot.Metadata.Index)
		if s.verbose {
			s.logf("  ready %d: hs=%d/%d/%d ents=%d commit=%d msgs=%d snap=%d", n.id, rd.HardState.Term, rd.HardState.Vote,
				rd.HardState.Commit, len(rd.Entries), len(rd.CommittedEntries), len(rd.Messages), rd.Snapshot.Metadata.Index)
		}
		if at == crashBeforePersist {
			s.fault(crashNames[at])
			s.powerFail(n, crashNames[at])
			return
		}
		s.persist(n, &rd)
		if at == crashAfterPersist || s.viol != nil {
			if s.viol == nil {
				s.fault(crashNames[at])
				s.powerFail(n, crashNames[at])
			}
			return
		}
		s.send(n, rd.Messages)
		if at == crashAfterSend {
			s.fault(crashNames[at])
			s.powerFail(n, crashNames[at])
			return
		}
		s.apply(n, &rd)
		if at == crashAfterApply || s.viol != nil {
			if s.viol == nil {
				s.fault(crashNames[at])
				s.powerFail(n, crashNames[at])
			}
			return
		}
		s.guard("Advance", func() { n.rn.Advance(rd) })
		if s.cfg.LazyPump && !s.inLiveness && s.tape.Draw(3) == 0 {
			// a slow application: what is still pending waits for the node's next stimulus
			var more bool
			s.guard("HasReady", func() { more = n.rn.HasReady() })
			if more {
				s.probe("ready-left-pending-by-slow-application")
			}
			return
		}
	}
}

func (s *sim) persist(n *node, rd *raft.Ready) {
	s.guard("persist", func() {
		// saving a snapshot fsyncs (snapshot file, then a synced WAL record)
		sync := rd.MustSync || !raft.IsEmptySnap(rd.Snapshot)
		wrote := false
		if !raft.IsEmptySnap(rd.Snapshot) {
			if err := n.ms.ApplySnapshot(rd.Snapshot); err != nil {
				s.fail("storage/snapshot-out-of-date", "node %d: Ready carries snapshot %d but storage refuses it: %v",
					n.id, rd.Snapshot.Metadata.Index, err)
				return
			}
			wrote = true
		}
		if len(rd.Entries) > 0 {
			if !sync {
				if !n.volEnts {
					n.durEnts, n.volEnts = storedEntries(n.ms), true
				}
				n.volCritical = true
			}
			n.ms.Append(rd.Entries)
			wrote = true
		}
		if !raft.IsEmptyHardState(rd.HardState) {
			s.o.checkHardState(s, n, rd.HardState)
			if !sync && (rd.HardState.Term != n.hs.Term || rd.HardState.Vote != n.hs.Vote) {
				n.volCritical = true
			}
			n.ms.SetHardState(rd.HardState)
			n.hs = rd.HardState
			wrote = true
		}
		if sync {
			n.synced()
		} else if wrote {
			n.volatile = true
			s.probe("ready-without-mustsync")
		}
	})
}

// synced: everything written so far is durable.
func (n *node) synced() {
	n.persisted = true
	n.durHS = n.hs
	n.volatile, n.volEnts, n.durEnts, n.volCritical, n.volExternal = false, false, nil, false, false
}

func storedEntries(ms *raft.MemoryStorage) []pb.Entry {
	fi, _ := ms.FirstIndex()
	li, _ := ms.LastIndex()
	if li < fi {
		return nil
	}
	ents, _ := ms.Entries(fi, li+1, math.MaxUint64)
	return append([]pb.Entry(nil), ents...)
}

// powerFail is a crash of the machine: by a tape choice (0 = no) the disk
// loses the whole volatile suffix, i.e. the node will restart from the state
// of its last sync.  What the library's contract guarantees to survive is
// term, vote and entries — "updated on stable storage before responding to
// RPCs" — not the commit index: losing an unsynced commit index is legal and
// is not a regression of the persisted commit.  Losing a term, vote or entries
// that the node already answered messages on is the violation.
func (s *sim) powerFail(n *node, stepName string) {
	s.crash(n, stepName)
	if !n.volatile || s.tape.Draw(2) == 0 {
		return
	}
	s.fault("crash-lost-unsynced-ready")
	s.hash(0xC1, n.id, n.durHS.Term, n.durHS.Vote, n.durHS.Commit)
	s.logf("  node %d loses its unsynced writes: hard state %d/%d/%d -> %d/%d/%d", n.id, n.hs.Term, n.hs.Vote, n.hs.Commit,
		n.durHS.Term, n.durHS.Vote, n.durHS.Commit)
	if n.volExternal && !s.cfg.LenientSync {
		switch {
		case n.durHS.Term != n.hs.Term:
			s.fail("hardstate/term-regressed", "node %d answered messages in term %d, but that term came in a Ready with MustSync=false and a crash lost it: the node is back in term %d",
				n.id, n.hs.Term, n.durHS.Term)
		case n.durHS.Vote != n.hs.Vote:
			s.fail("hardstate/vote-regressed", "node %d sent its vote for %d in term %d, but the vote came in a Ready with MustSync=false and a crash lost it: persisted vote is %d again, the node can vote a second time in this term",
				n.id, n.hs.Vote, n.hs.Term, n.durHS.Vote)
		default:
			s.fail("hardstate/entries-lost", "node %d answered messages after appending entries that came in a Ready with MustSync=false; a crash lost them", n.id)
		}
		return
	}
	if n.persisted {
		ms := raft.NewMemoryStorage()
		if snap, _ := n.ms.Snapshot(); !raft.IsEmptySnap(snap) {
			ms.ApplySnapshot(snap) // snapshots and compactions are sync points: never part of the suffix
		}
		ents := n.durEnts
		if !n.volEnts {
			ents = storedEntries(n.ms)
		}
		ms.Append(ents)
		ms.SetHardState(n.durHS)
		n.ms = ms
	} // else: nothing durable at all, start() makes it the fresh node it still is
	n.hs = n.durHS
	n.volatile, n.volEnts, n.durEnts, n.volCritical, n.volExternal = false, false, nil, false, false
	n.view, n.dirty = nil, true
}

func (s *sim) send(n *node, msgs []pb.Message) {
	if len(msgs) > 0 {
		if n.volCritical {
			n.volExternal = true
		}
		n.ansTerm, n.ansVote = n.hs.Term, n.hs.Vote
	}
	for i := range msgs {
		m := msgs[i]
		// a transport serialises at send time: do not alias the sender's log
		m.Entries = append([]pb.Entry(nil), m.Entries...)
		if m.Type == pb.MsgSnap {
			s.fault("snapshot-sent")
		}
		s.soup = append(s.soup, &m)
	}
}

// trim keeps the soup bounded: the network loses the oldest messages.  Called
// between events only (losing a MsgSnap reports back into a node, which must
// not happen while that node is in the middle of a Ready).
func (s *sim) trim() {
	for len(s.soup) > 300 && s.viol == nil {
		s.fault("drop")
		s.lose(0, "overflow")
	}
}

func (s *sim) apply(n *node, rd *raft.Ready) {
	s.guard("apply", func() {
		if !raft.IsEmptySnap(rd.Snapshot) {
			md := rd.Snapshot.Metadata
			s.o.appliedSnapshot(s, n, md.Index, md.Term)
			n.appCursor = md.Index
			n.cs = md.ConfState
			s.probe("snapshot-applied")
		}
		for i := range rd.CommittedEntries {
			e := &rd.CommittedEntries[i]
			s.o.applied(s, n, e)
			if s.viol != nil {
				return
			}
			n.appCursor = e.Index
			switch e.Type {
			case pb.EntryConfChange:
				var cc pb.ConfChange
				if err := cc.Unmarshal(e.Data); err != nil {
					panic(fmt.Sprintf("harness: bad conf change: %v", err))
				}
				n.cs = *n.rn.ApplyConfChange(cc)
				if s.verbose {
					s.logf("  node %d applied conf change at %d -> %v", n.id, e.Index, confString(&n.cs))
				}
			case pb.EntryConfChangeV2:
				var cc pb.ConfChangeV2
				if err := cc.Unmarshal(e.Data); err != nil {
					panic(fmt.Sprintf("harness: bad conf change: %v", err))
				}
				n.cs = *n.rn.ApplyConfChange(cc)
				if len(n.cs.VotersOutgoing) > 0 {
					s.probe("joint-config-entered")
				}
				if s.verbose {
					s.logf("  node %d applied conf change v2 at %d -> %v", n.id, e.Index, confString(&n.cs))
				}
			default:
				if s.inLiveness && s.markerIdx == 0 && len(e.Data) > 0 && e.Data[0] == 'L' {
					s.markerIdx = e.Index
				}
			}
		}
	})
}

func confString(cs *pb.ConfState) string {
	return fmt.Sprintf("voters=%v outgoing=%v learners=%v next=%v auto=%v", cs.Voters, cs.VotersOutgoing, cs.Learners, cs.LearnersNext, cs.AutoLeave)
}

// after an external stimulus on n: handle its Readys, then check it.
func (s *sim) settle(n *node) {
	s.pump(n)
	if s.viol == nil {
		s.o.checkNode(s, n)
	}
}

// ---- helpers -----------------------------------------------------------------

func (s *sim) live() []*node {
	var out []*node
	for id := 1; id <= maxID; id++ {
		if s.nodes[id].rn != nil {
			out = append(out, s.nodes[id])
		}
	}
	return out
}

func (s *sim) crashed() []*node {
	var out []*node
	for id := 1; id <= maxID; id++ {
		if n := s.nodes[id]; n.started && n.rn == nil {
			out = append(out, n)
		}
	}
	return out
}

// maxTicks: simulated time = the clock of the node that ticked most.
func (s *sim) maxTicks() int {
	m := 0
	for id := 1; id <= maxID; id++ {
		if t := s.nodes[id].ticks; t > m {
			m = t
		}
	}
	return m
}

func (s *sim) startedCount() int {
	c := 0
	for id := 1; id <= maxID; id++ {
		if s.nodes[id].started {
			c++
		}
	}
	return c
}

// leader returns the live leader with the highest term, if any.
func (s *sim) leader() *node {
	var best *node
	var bt uint64
	for _, n := range s.live() {
		bs := n.rn.BasicStatus()
		if bs.RaftState == raft.StateLeader && bs.Term >= bt {
			best, bt = n, bs.Term
		}
	}
	return best
}

func contains(xs []uint64, x uint64) bool {
	for _, v := range xs {
		if v == x {
			return true
		}
	}
	return false
}

// ---- network -----------------------------------------------------------------

func (s *sim) take(i int) *pb.Message {
	m := s.soup[i]
	copy(s.soup[i:], s.soup[i+1:])
	s.soup[len(s.soup)-1] = nil
	s.soup = s.soup[:len(s.soup)-1]
	return m
}

// lose removes message i; a transport notices a failed snapshot transfer, and
// a failed connection (why = "unreachable"), but not a silently lost packet.
func (s *sim) lose(i int, why string) {
	m := s.take(i)
	s.hash(0xB0, uint64(m.Type), m.From, m.To)
	if s.verbose {
		s.logf("  lost (%s) %s", why, msgString(m))
	}
	from := s.nodes[m.From]
	if from.rn == nil {
		return
	}
	if m.Type == pb.MsgSnap {
		s.guard("ReportSnapshot", func() { from.rn.ReportSnapshot(m.To, raft.SnapshotFailure) })
		s.probe("msgsnap-failed")
		s.settle(from)
	} else if why == "unreachable" {
		s.guard("ReportUnreachable", func() { from.rn.ReportUnreachable(m.To) })
		s.settle(from)
	}
}

func (s *sim) deliver(i int, keep bool) {
	m := *s.soup[i]
	if keep { // the copy that stays in flight must not share what Step may modify
		m.Entries = append([]pb.Entry(nil), m.Entries...)
	}
	to, from := s.nodes[m.To], s.nodes[m.From]
	if to.rn == nil || s.side[m.From] != s.side[m.To] {
		if !keep {
			s.lose(i, "unreachable")
		}
		return
	}
	if !keep {
		s.take(i)
	}
	s.hash(0xA0, uint64(m.Type), m.From, m.To, m.Term, m.Index, m.LogTerm, m.Commit, uint64(len(m.Entries)))
	if s.verbose {
		s.logf("deliver %s", msgString(&m))
	}
	s.guard("Step", func() { _ = to.rn.Step(m) })
	if m.Type == pb.MsgSnap {
		s.probe("msgsnap-delivered")
	}
	s.settle(to)
	if m.Type == pb.MsgSnap && from.rn != nil && s.viol == nil {
		s.guard("ReportSnapshot", func() { from.rn.ReportSnapshot(m.To, raft.SnapshotFinish) })
		s.settle(from)
	}
}

func msgString(m *pb.Message) string {
	return fmt.Sprintf("%s %d->%d term=%d idx=%d logterm=%d commit=%d ents=%d rej=%v", m.Type, m.From, m.To, m.Term, m.Index,
		m.LogTerm, m.Commit, len(m.Entries), m.Reject)
}

// ---- events ------------------------------------------------------------------

func (s *sim) boot() {
	raft.SetLogger(quietLogger{})
	raft.VerifSeedRand(s.cfg.RaftSeed)
	for id := 1; id <= s.cfg.N; id++ {
		s.start(s.nodes[id])
	}
	s.checkAll()
}

func (s *sim) checkAll() {
	for id := 1; id <= maxID && s.viol == nil; id++ {
		if s.nodes[id].started {
			s.o.checkNode(s, s.nodes[id])
		}
	}
}

// pickKind draws the kind of the next event.  Value 0 of the draw is always a
// delivery of the oldest message (or a tick of every node if nothing is in
// flight), so an exhausted or zeroed tape is a fault-free FIFO schedule.
func (s *sim) pickKind() int {
	w := s.cfg.W
	w[evDeliver] += 3 * len(s.soup)
	if len(s.soup) == 0 {
		w[evDeliver], w[evDrop], w[evDup] = 0, 0, 0
		w[evTick] += s.cfg.W[evDeliver]
	}
	t := 0
	for _, x := range w {
		t += x
	}
	x := s.tape.Draw(t)
	for k, wk := range w {
		if x < wk {
			return k
		}
		x -= wk
	}
	return evTick
}

func (s *sim) pickMsg() int {
	k := len(s.soup)
	if s.cfg.Reorder > 0 && k > s.cfg.Reorder {
		k = s.cfg.Reorder
	}
	return s.tape.Draw(k)
}

func (s *sim) event() {
	s.trim()
	kind := s.pickKind()
	s.hash(uint64(kind))
	lv := s.live()
	pick := func() *node { // a live node; nil if none
		if len(lv) == 0 {
			return nil
		}
		return lv[s.tape.Draw(len(lv))]
	}
	switch kind {
	case evDeliver:
		i := s.pickMsg()
		if i > 0 {
			s.fault("reorder")
		}
		s.deliver(i, false)
	case evTick:
		// 0 = every live node (uniform passage of time), k = node k alone (clock skew)
		k := s.tape.Draw(len(lv) + 1)
		for j, n := range lv {
			if (k == 0 || k-1 == j) && n.rn != nil && s.viol == nil {
				s.hash(0xA1, n.id)
				s.logf("tick %d", n.id)
				n.ticks++
				s.guard("Tick", func() { n.rn.Tick() })
				s.settle(n)
			}
		}
	case evPropose:
		n := pick()
		if n == nil {
			return
		}
		// half of the proposals go to the leader, if there is one
		if l := s.leader(); l != nil && s.tape.Draw(2) == 0 {
			n = l
		}
		s.propose(n, 'p', 12*s.tape.Draw(3))
	case evDrop:
		s.fault("drop")
		s.lose(s.tape.Draw(len(s.soup)), "dropped")
	case evDup:
		s.fault("dup")
		s.deliver(s.tape.Draw(len(s.soup)), true)
	case evCampaign:
		if n := pick(); n != nil {
			s.fault("campaign")
			s.hash(0xA2, n.id)
			s.logf("campaign %d", n.id)
			s.guard("Campaign", func() { _ = n.rn.Campaign() })
			s.settle(n)
		}
	case evCrash:
		if n := pick(); n != nil {
			s.crashAt(n, s.tape.Draw(nCrashSteps))
		}
	case evRestart:
		if cr := s.crashed(); len(cr) > 0 {
			s.restart(cr[s.tape.Draw(len(cr))])
		}
	case evCompact:
		if n := pick(); n != nil {
			s.compact(n, []uint64{0, 2, 8}[s.tape.Draw(3)])
		}
	case evConfChange:
		s.confChange()
	case evTransfer:
		if l := s.leader(); l != nil && len(l.cs.Voters) > 1 {
			to := l.cs.Voters[s.tape.Draw(len(l.cs.Voters))]
			if to != l.id {
				s.fault("transfer")
				s.hash(0xA3, l.id, to)
				s.logf("transfer leadership %d -> %d", l.id, to)
				s.guard("TransferLeader", func() { l.rn.TransferLeader(to) })
				s.settle(l)
			}
		}
	case evPartition:
		s.partitionRandom()
	case evHeal:
		s.heal()
	}
}

func (s *sim) propose(n *node, tag byte, pad int) {
	s.propSeq++
	data := make([]byte, 9+pad)
	data[0] = tag
	binary.LittleEndian.PutUint64(data[1:], s.propSeq)
	s.hash(0xA4, n.id, s.propSeq)
	var err error
	s.guard("Propose", func() { err = n.rn.Propose(data) })
	s.logf("propose #%d at %d: %v", s.propSeq, n.id, err)
	if err != nil {
		s.probe("proposal-dropped")
	}
	s.settle(n)
}

func (s *sim) crashAt(n *node, at int) {
	s.hash(0xA5, n.id, uint64(at))
	if at == crashNow {
		s.fault(crashNames[at])
		s.logf("crash %d now", n.id)
		s.powerFail(n, crashNames[at])
		s.o.checkNode(s, n)
		return
	}
	s.logf("arm crash of %d at %s", n.id, crashNames[at])
	n.armed = at
}

func (s *sim) restart(n *node) {
	s.fault("restart")
	s.hash(0xA6, n.id)
	s.logf("restart %d (persisted=%v)", n.id, n.persisted)
	s.start(n)
	if s.viol == nil {
		s.o.checkNode(s, n)
	}
}

// compact: the application snapshots its state at its applied index and drops
// the log up to `keep` entries below it; lagging followers then need MsgSnap.
func (s *sim) compact(n *node, keep uint64) {
	snap, _ := n.ms.Snapshot()
	if n.appCursor <= snap.Metadata.Index {
		return
	}
	s.fault("compact")
	s.hash(0xA7, n.id, n.appCursor, keep)
	s.logf("compact %d at %d keep %d", n.id, n.appCursor, keep)
	s.guard("compact", func() {
		cs := n.cs
		if _, err := n.ms.CreateSnapshot(n.appCursor, &cs, nil); err != nil {
			panic(fmt.Sprintf("harness: CreateSnapshot: %v", err))
		}
		to := n.appCursor
		if fi, _ := n.ms.FirstIndex(); to > keep && to-keep >= fi {
			to -= keep
		}
		n.ms.Compact(to)
		n.synced() // saving a snapshot fsyncs the log written before it
	})
	n.dirty = true
	s.settle(n)
}

func (s *sim) partitionRandom() {
	lvl := s.startedCount()
	if lvl < 2 {
		return
	}
	s.fault("partition")
	for id := 1; id <= maxID; id++ {
		s.side[id] = s.tape.Draw(2)
	}
	s.split = true
	s.notePartition()
}

func (s *sim) notePartition() {
	s.hash(0xA8, uint64(s.side[1]), uint64(s.side[2]), uint64(s.side[3]), uint64(s.side[4]), uint64(s.side[5]))
	s.logf("partition sides=%v", s.side[1:])
	if l := s.leader(); l != nil {
		same := 0
		for _, v := range l.cs.Voters {
			if s.side[v] == s.side[l.id] && s.nodes[v].rn != nil {
				same++
			}
		}
		if same <= len(l.cs.Voters)/2 {
			s.probe("leader-isolated")
		}
	}
}

func (s *sim) heal() {
	if !s.split {
		return
	}
	s.fault("heal")
	s.hash(0xA9)
	s.logf("heal")
	s.side = [maxID + 1]int{}
	s.split = false
}

// confChange proposes a membership change at the current leader, validated
// against the leader's applied configuration.  The library accepts a change
// only when the proposer has applied every earlier change of its log, so the
// configuration the change will be applied to is the one validated here; a
// change forwarded by a follower could be checked against a stale
// configuration and remove the last voter, which the library treats as an
// application error (panic), not as its own fault.
func (s *sim) confChange() {
	l := s.leader()
	if l == nil {
		return
	}
	cs := &l.cs
	if len(cs.VotersOutgoing) > 0 {
		if cs.AutoLeave {
			return
		}
		s.proposeCC(l, pb.ConfChangeV2{}, "confchange-leave-joint")
		return
	}
	voters := append([]uint64(nil), cs.Voters...)
	learners := append([]uint64(nil), cs.Learners...)
	nch := 1
	mode := s.tape.Draw(4) // 0 v1, 1 v2 simple, 2 v2 joint implicit, 3 v2 joint explicit
	if mode >= 2 {
		nch = 1 + s.tape.Draw(3)
	}
	batch := s.cfg.BatchProps && mode <= 1 && s.tape.Draw(3) == 0
	if batch {
		nch = 2
	}
	var changes []pb.ConfChangeSingle
	kindTag := ""
	for c := 0; c < nch; c++ {
		id := uint64(1 + s.tape.Draw(maxID))
		var ch pb.ConfChangeSingle
		isV, isL := contains(voters, id), contains(learners, id)
		op := s.tape.Draw(3)
		switch {
		case isV:
			if len(voters) < 2 {
				continue
			}
			if op == 2 && mode >= 2 {
				// demotion voter -> learner needs the joint protocol
				ch = pb.ConfChangeSingle{Type: pb.ConfChangeAddLearnerNode, NodeID: id}
				learners = append(learners, id)
				kindTag = "confchange-learner"
			} else {
				ch = pb.ConfChangeSingle{Type: pb.ConfChangeRemoveNode, NodeID: id}
				kindTag = "confchange-remove"
			}
			voters = remove(voters, id)
		case isL:
			if op == 0 {
				ch = pb.ConfChangeSingle{Type: pb.ConfChangeRemoveNode, NodeID: id}
				kindTag = "confchange-remove"
			} else {
				ch = pb.ConfChangeSingle{Type: pb.ConfChangeAddNode, NodeID: id}
				voters = append(voters, id)
				kindTag = "confchange-promote"
			}
			learners = remove(learners, id)
		default:
			if op == 0 {
				ch = pb.ConfChangeSingle{Type: pb.ConfChangeAddLearnerNode, NodeID: id}
				learners = append(learners, id)
				kindTag = "confchange-learner"
			} else {
				ch = pb.ConfChangeSingle{Type: pb.ConfChangeAddNode, NodeID: id}
				voters = append(voters, id)
				kindTag = "confchange-add"
			}
			// the operator starts the new member: empty storage, not bootstrapped
			if nn := s.nodes[id]; !nn.started {
				s.logf("start joiner %d", id)
				s.start(nn)
			}
		}
		changes = append(changes, ch)
	}
	if len(changes) == 0 || s.viol != nil {
		return
	}
	if batch && len(changes) == 2 {
		s.proposeBatch(l, changes, mode)
		return
	}
	switch mode {
	case 0:
		s.proposeCC(l, pb.ConfChange{Type: changes[0].Type, NodeID: changes[0].NodeID}, kindTag)
	case 1:
		s.proposeCC(l, pb.ConfChangeV2{Changes: changes[:1]}, kindTag)
	case 2:
		s.proposeCC(l, pb.ConfChangeV2{Transition: pb.ConfChangeTransitionJointImplicit, Changes: changes}, "confchange-joint")
	default:
		s.proposeCC(l, pb.ConfChangeV2{Transition: pb.ConfChangeTransitionJointExplicit, Changes: changes}, "confchange-joint")
	}
}

func remove(xs []uint64, x uint64) []uint64 {
	out := xs[:0]
	for _, v := range xs {
		if v != x {
			out = append(out, v)
		}
	}
	return out
}

// proposeBatch steps ONE proposal message carrying two membership changes (the
// library must let at most one of them through: only one change may be pending).
func (s *sim) proposeBatch(l *node, changes []pb.ConfChangeSingle, mode int) {
	s.fault("confchange-two-in-one-proposal")
	s.ccProposed++
	var ents []pb.Entry
	if s.tape.Draw(2) == 0 {
		s.propSeq++
		data := make([]byte, 9)
		data[0] = 'p'
		binary.LittleEndian.PutUint64(data[1:], s.propSeq)
		ents = append(ents, pb.Entry{Type: pb.EntryNormal, Data: data})
	}
	for _, ch := range changes {
		if mode == 0 {
			cc := pb.ConfChange{Type: ch.Type, NodeID: ch.NodeID}
			d, err := cc.Marshal()
			if err != nil {
				panic("harness: " + err.Error())
			}
			ents = append(ents, pb.Entry{Type: pb.EntryConfChange, Data: d})
		} else {
			cc := pb.ConfChangeV2{Changes: []pb.ConfChangeSingle{ch}}
			d, err := cc.Marshal()
			if err != nil {
				panic("harness: " + err.Error())
			}
			ents = append(ents, pb.Entry{Type: pb.EntryConfChangeV2, Data: d})
		}
	}
	s.hash(0xAB, l.id, uint64(len(ents)), uint64(changes[0].NodeID), uint64(changes[1].NodeID))
	var err error
	s.guard("Step(MsgProp)", func() { err = l.rn.Step(pb.Message{Type: pb.MsgProp, From: l.id, Entries: ents}) })
	s.logf("two conf changes in one proposal at %d: %v -> %v", l.id, changes, err)
	s.settle(l)
}

func (s *sim) proposeCC(l *node, cc pb.ConfChangeI, tag string) {
	s.fault(tag)
	s.ccProposed++
	s.hash(0xAA, l.id, core.HashString(fmt.Sprint(cc)))
	var err error
	s.guard("ProposeConfChange", func() { err = l.rn.ProposeConfChange(cc) })
	s.logf("%s at %d: %v -> %v", tag, l.id, cc, err)
	s.settle(l)
}

// ---- phase-based, leader-targeting adversary -----------------------------------
//
// The network layout and the set of crashed nodes are held for a whole phase;
// at a boundary the adversary acts on the current leader.  (With a broken
// commit rule — old-term entries committed by counting replicas — uniform event
// choice does not produce the required leader/crash/re-election sequence.)

func (s *sim) phaseBoundary() {
	s.nextPhase = s.step + s.cfg.PhaseMin + s.tape.Draw(s.cfg.PhaseMax-s.cfg.PhaseMin+1)
	act := s.tape.Draw(10)
	s.recordState()
	started := s.startedCount()
	if len(s.live()) <= started/2 && act != 0 {
		act = 4 // too few nodes left to elect anyone: bring them back
	}
	s.hash(0xE0, uint64(act))
	target := s.leader()
	if target == nil {
		if lv := s.live(); len(lv) > 0 {
			target = lv[s.tape.Draw(len(lv))]
		}
	}
	s.logf("phase boundary action %d", act)
	switch act {
	case 0: // heal and restart everybody
		s.heal()
		for _, n := range s.crashed() {
			s.restart(n)
		}
	case 1: // crash the leader at some step of its next Ready
		if target != nil {
			s.crashAt(target, s.tape.Draw(nCrashSteps))
		}
	case 2: // isolate the leader with a minority
		if target != nil && started >= 2 {
			s.fault("partition")
			for id := 1; id <= maxID; id++ {
				s.side[id] = 0
			}
			s.side[target.id] = 1
			for m := s.tape.Draw(started / 2); m > 0; m-- { // leader's side stays a minority
				s.side[1+s.tape.Draw(maxID)] = 1
			}
			s.split = true
			s.notePartition()
		}
	case 3:
		s.partitionRandom()
	case 4: // restart crashed nodes, keep the layout
		for _, n := range s.crashed() {
			s.restart(n)
		}
	case 5: // the next node to become leader crashes with its first entry persisted but unsent
		s.armLeader = crashAfterPersist + s.tape.Draw(2)
		if target != nil {
			s.crashAt(target, crashNow)
		}
		s.heal()
	case 6:
		s.heal()
	case 7: // crash the leader now, restart one other node
		if target != nil {
			s.crashAt(target, crashNow)
		}
		if cr := s.crashed(); len(cr) > 0 {
			n := cr[s.tape.Draw(len(cr))]
			if n != target {
				s.restart(n)
			}
		}
	case 8: // crash the leader right after it persisted, heal, restart the others
		if target != nil {
			s.crashAt(target, crashAfterPersist)
		}
		s.heal()
		for _, n := range s.crashed() {
			s.restart(n)
		}
	case 9: // crash a random node
		if lv := s.live(); len(lv) > 0 {
			s.crashAt(lv[s.tape.Draw(len(lv))], s.tape.Draw(nCrashSteps))
		}
	}
}

func (s *sim) recordState() {
	h := uint64(0xcbf29ce484222325)
	for id := 1; id <= maxID; id++ {
		n := s.nodes[id]
		var term, role, commit, last uint64
		if n.rn != nil {
			bs := n.rn.BasicStatus()
			term, role, commit = bs.Term, uint64(bs.RaftState)+1, bs.Commit
			last = n.viewFirst + uint64(len(n.view)) - 1
		} else if n.started {
			term, commit = n.hs.Term, n.hs.Commit
			last, _ = n.ms.LastIndex()
		}
		for _, v := range [4]uint64{term, role, commit, last} {
			h = (h ^ v) * 0x100000001b3
		}
	}
	s.states = append(s.states, h)
}

// ---- run -----------------------------------------------------------------------

func (s *sim) run() {
	s.boot()
	if s.sample {
		s.verbose, s.traceCap = true, 30
	}
	phased := s.cfg.Strategy != "uniform"
	if phased {
		s.nextPhase = s.cfg.PhaseMin + s.tape.Draw(s.cfg.PhaseMax-s.cfg.PhaseMin+1)
	}
	for s.step = 0; s.step < s.cfg.Events && s.viol == nil; s.step++ {
		if phased && s.step >= s.nextPhase {
			s.phaseBoundary()
			if s.viol != nil {
				break
			}
		}
		s.event()
		if s.step&255 == 255 {
			s.recordState()
		}
		if s.step&255 == 255 && s.viol == nil {
			s.o.deepCheck(s)
		}
	}
	if s.viol == nil {
		s.o.deepCheck(s)
	}
	if s.viol == nil && s.cfg.Liveness {
		s.liveness()
	}
}

// ---- bounded liveness ------------------------------------------------------------
//
// Heal, restart, then only ticks and FIFO deliveries: within 50 election
// timeouts a leader must exist and a fresh proposal must be applied by every
// voter of the current configuration.  The "operator" keeps exactly the
// members of the most recently applied configuration running: a removed node
// that never learns of its removal may disturb elections for ever, and a
// removed leader keeps heartbeating a group it can no longer serve — both are
// application duties, not library faults.
func (s *sim) liveness() {
	s.inLiveness = true
	s.heal()
	s.armLeader = 0
	for _, n := range s.crashed() {
		s.logf("liveness: restart %d", n.id)
		s.start(n)
	}
	s.checkAll()
	rounds := 50 * s.cfg.ElectionTick
	for r := 0; r < rounds && s.viol == nil; r++ {
		s.step++
		// current configuration = the one of the node that applied most
		var top *node
		for id := 1; id <= maxID; id++ {
			if n := s.nodes[id]; n.rn != nil && (top == nil || n.appCursor > top.appCursor) {
				top = n
			}
		}
		if top == nil || len(top.cs.Voters) == 0 {
			s.livenessSkipped = true
			return
		}
		cs := top.cs
		// Members to keep running: those of the newest configuration, and —
		// transitively — those of the configuration of every node kept: a voter
		// that has not yet applied the change still needs the votes of the old
		// members (decommissioning them first would deadlock it).
		var keep [maxID + 1]bool
		addCS := func(c *pb.ConfState) (grew bool) {
			for _, set := range [][]uint64{c.Voters, c.VotersOutgoing, c.Learners, c.LearnersNext} {
				for _, id := range set {
					if !keep[id] {
						keep[id], grew = true, true
					}
				}
			}
			return
		}
		addCS(&cs)
		for grew := true; grew; {
			grew = false
			for id := 1; id <= maxID; id++ {
				if n := s.nodes[id]; keep[id] && n.rn != nil && addCS(&n.cs) {
					grew = true
				}
			}
		}
		for id := uint64(1); id <= maxID; id++ {
			n := s.nodes[id]
			if !keep[id] && n.rn != nil {
				s.logf("liveness: stop non-member %d", id)
				s.crash(n, "decommissioned")
			} else if keep[id] && n.rn == nil {
				s.logf("liveness: start member %d", id)
				s.start(n)
				s.o.checkNode(s, n)
			}
		}
		// success?
		l := s.leader()
		if l != nil && s.markerIdx != 0 {
			ok := true
			for _, v := range cs.Voters {
				if s.nodes[v].rn == nil || s.nodes[v].appCursor < s.markerIdx {
					ok = false
				}
			}
			if ok {
				s.livenessChecked = true
				s.probe("liveness-rounds-" + bucket(r))
				return
			}
		}
		if l != nil && s.markerIdx == 0 && r%s.cfg.ElectionTick == 0 {
			s.propose(l, 'L', 0)
		}
		// The application snapshots periodically, as real ones do.  Without this a
		// member added after the leader's last snapshot, whose entries are already
		// compacted, is offered that old snapshot for ever and refuses it (it is
		// not in its ConfState).
		if l != nil && l.rn != nil && r%s.cfg.ElectionTick == s.cfg.ElectionTick/2 {
			s.compact(l, 0)
		}
		for _, n := range s.live() {
			if n.rn != nil && s.viol == nil {
				n.ticks++
				s.guard("Tick", func() { n.rn.Tick() })
				s.settle(n)
			}
		}
		for k := 0; len(s.soup) > 0 && k < 20000 && s.viol == nil; k++ {
			s.deliver(0, false)
		}
	}
	if s.viol != nil {
		return
	}
	if s.ccProposed > 0 {
		// Membership changes open liveness holes that are the application's to
		// avoid (e.g. the sole remaining voter has not yet applied the change that
		// removed the others, needs their votes, and they — removed by their own
		// applied configuration — never campaign and refuse its shorter log).
		// Conservative: no verdict; the stall is only counted.
		s.livenessSkipped = true
		s.probe("liveness-stalled-after-confchange")
		return
	}
	s.livenessChecked = true
	var st []string
	for _, n := range s.live() {
		bs := n.rn.BasicStatus()
		st = append(st, fmt.Sprintf("%d:%s/t%d/c%d/a%d", n.id, bs.RaftState, bs.Term, bs.Commit, n.appCursor))
	}
	s.fail("liveness/no-progress-after-heal", "after heal and restart, %d tick rounds (50 election timeouts) without a fresh proposal applied on every voter; marker index %d; nodes %v",
		rounds, s.markerIdx, st)
}

func bucket(r int) string {
	switch {
	case r < 32:
		return "lt32"
	case r < 128:
		return "lt128"
	}
	return "ge128"
}
