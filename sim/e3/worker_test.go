//go:build verif

package e3

import (
	"os"
	"runtime/pprof"
	"testing"

	"verifsim/core"
)

func TestWorker(t *testing.T) {
	env := core.ReadEnv()
	if p := os.Getenv("VERIF_CPUPROFILE"); p != "" { // os.Exit would lose -test.cpuprofile
		if f, err := os.Create(p); err == nil {
			pprof.StartCPUProfile(f)
			rc := core.WorkerMain(env, &engine{})
			pprof.StopCPUProfile()
			f.Close()
			os.Exit(rc)
		}
	}
	os.Exit(core.WorkerMain(env, &engine{}))
}
