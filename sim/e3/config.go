//go:build verif

// Package e3 is the raft-core engine: 1-5 raft.RawNodes over MemoryStorage in
// one goroutine, every event decided by a choice tape, the C15 invariants
// checked after every event.
package e3

import (
	"verifsim/core"
)

const prop = "C15"
const maxID = 5

// event kinds, in tape order: kind 0 must be the most benign one.
const (
	evDeliver = iota
	evTick
	evPropose
	evDrop
	evDup
	evCampaign
	evCrash
	evRestart
	evCompact
	evConfChange
	evTransfer
	evPartition
	evHeal
	nKinds
)

var kindNames = [nKinds]string{"deliver", "tick", "propose", "drop", "dup", "campaign", "crash", "restart",
	"compact", "confchange", "transfer", "partition", "heal"}

// Config is the swarm configuration of one run: a pure function of the run
// seed.  {Config, tape} replays a run exactly.
type Config struct {
	RaftSeed      int64       `json:"raft_seed"` // seeds the library's election jitter
	N             int         `json:"n"`         // bootstrapped voters 1..N
	ElectionTick  int         `json:"election_tick"`
	HeartbeatTick int         `json:"heartbeat_tick"`
	PreVote       bool        `json:"pre_vote"`
	CheckQuorum   bool        `json:"check_quorum"`
	MaxSizePerMsg uint64      `json:"max_size_per_msg"`
	MaxInflight   int         `json:"max_inflight"`
	Strategy      string      `json:"strategy"` // uniform | phased | mixed
	Events        int         `json:"events"`
	Reorder       int         `json:"reorder_window"` // deliveries pick among the oldest k messages (0 = all)
	W             [nKinds]int `json:"weights"`        // event weights, order = kindNames
	PhaseMin      int         `json:"phase_min"`
	PhaseMax      int         `json:"phase_max"`
	Liveness      bool        `json:"liveness"`
	// LenientSync (param lenient_sync=1, diagnosis only): losing an answered-on
	// term/vote/entries that came with MustSync=false is not itself reported;
	// the run goes on from the rolled-back disk to show the downstream symptom.
	LenientSync bool `json:"lenient_sync,omitempty"`
	// BatchProps: a share of the membership changes is proposed as ONE MsgProp
	// carrying two conf-change entries (and sometimes a normal entry), stepped into
	// the leader as a forwarded batch would be.
	BatchProps bool `json:"batch_props,omitempty"`
	// LazyPump: the application is slow - after an external stimulus a node may
	// handle only some of its pending Readys; the rest (for example further pages
	// of committed entries) is handled at later stimuli, so that ticks, messages and
	// campaigns meet a node whose applied index lags its commit index.
	LazyPump bool `json:"lazy_pump,omitempty"`
}

func pickW(r *core.Rand, vals []int, weights []int) int {
	t := 0
	for _, w := range weights {
		t += w
	}
	x := r.Intn(t)
	for i, w := range weights {
		if x < w {
			return vals[i]
		}
		x -= w
	}
	return vals[0]
}

func genConfig(r *core.Rand, tier string) *Config {
	c := &Config{}
	c.RaftSeed = r.Int63()
	c.N = pickW(r, []int{1, 2, 3, 4, 5}, []int{4, 4, 46, 8, 38})
	c.ElectionTick = r.Range(5, 20)
	c.HeartbeatTick = r.Range(1, 3)
	c.PreVote = r.Bool(0.5)
	c.CheckQuorum = r.Bool(0.5)
	c.MaxSizePerMsg = uint64(pickW(r, []int{1, 64, 1 << 20}, []int{2, 1, 1}))
	c.MaxInflight = pickW(r, []int{1, 2, 4, 16, 64}, []int{2, 2, 2, 2, 1})
	if r.Bool(0.3) {
		c.MaxInflight = r.Range(1, 64)
	}
	c.Strategy = []string{"uniform", "phased", "mixed"}[pickW(r, []int{0, 1, 2}, []int{20, 45, 35})]
	c.Events = r.Range(1500, 4000)
	if tier == "thorough" && r.Bool(0.3) {
		c.Events = r.Range(4000, 12000)
	}
	c.Reorder = pickW(r, []int{1, 3, 8, 0}, []int{2, 3, 2, 3})
	c.PhaseMin = 30
	c.PhaseMax = r.Range(60, 300)
	c.Liveness = r.Bool(0.5)
	c.BatchProps = r.Bool(0.4)
	c.LazyPump = r.Bool(0.4)

	w := &c.W
	w[evDeliver] = r.Range(20, 40) // plus 3 per in-flight message, see pickKind
	w[evTick] = r.Range(15, 40)
	w[evPropose] = r.Range(3, 12)
	on := func(p float64, lo, hi int) int {
		if r.Bool(p) {
			return r.Range(lo, hi)
		}
		return 0
	}
	switch c.Strategy {
	case "uniform":
		w[evDrop] = on(0.7, 1, 8)
		w[evDup] = on(0.6, 1, 5)
		w[evCampaign] = on(0.5, 1, 2)
		w[evCrash] = on(0.7, 1, 3)
		w[evRestart] = 2*w[evCrash] + 1
		w[evCompact] = on(0.6, 1, 3)
		w[evConfChange] = on(0.5, 1, 3)
		w[evTransfer] = on(0.4, 1, 2)
		w[evPartition] = on(0.5, 1, 2)
		w[evHeal] = 2 * w[evPartition]
	case "phased":
		// crashes, partitions, heals and restarts happen at phase boundaries only
		w[evDrop] = on(0.3, 1, 3)
		w[evDup] = on(0.3, 1, 2)
		w[evCompact] = on(0.5, 1, 2)
		w[evConfChange] = on(0.3, 1, 2)
		w[evTransfer] = on(0.2, 1, 1)
	default: // mixed
		w[evDrop] = on(0.6, 1, 5)
		w[evDup] = on(0.5, 1, 3)
		w[evCampaign] = on(0.3, 1, 1)
		w[evCrash] = on(0.4, 1, 1)
		w[evRestart] = on(0.5, 1, 2)
		w[evCompact] = on(0.6, 1, 3)
		w[evConfChange] = on(0.4, 1, 2)
		w[evTransfer] = on(0.3, 1, 1)
		w[evPartition] = on(0.2, 1, 1)
		w[evHeal] = on(0.3, 1, 1)
	}
	return c
}
