//go:build verif

package e3

import (
	"math"

	"go.etcd.io/etcd/raft/v3"
	pb "go.etcd.io/etcd/raft/v3/raftpb"
)

// vent is one verified log position of a node: term, entry hash, and the
// chain hash of the whole log prefix ending here.
type vent struct{ term, eh, chain uint64 }

// gent is the entry first seen committed at an index.  cterm is an upper bound
// of the term in which it was committed: the smallest current term of any node
// at the moment that node knew the index to be committed (a node learns a
// commit index only from a leader of a term <= its own).
type gent struct{ term, eh, cterm uint64 }

type oracle struct {
	// (index, term) -> chain hash.  Log matching says: the same (index, term) in
	// two logs implies identical entries there and at every earlier position,
	// i.e. an identical prefix chain hash.  A compacted log starts its chain from
	// the value recorded for its snapshot position (index, term).
	m map[uint64]uint64
	g []gent // by index

	leaderOf   map[uint64]uint64 // term -> id ever observed as leader
	candOf     map[uint64]uint64 // term -> id first seen as candidate
	twoCand    map[uint64]bool
	lastLeader uint64
}

func (o *oracle) init() {
	o.m = map[uint64]uint64{}
	o.leaderOf = map[uint64]uint64{}
	o.candOf = map[uint64]uint64{}
	o.twoCand = map[uint64]bool{}
	o.g = make([]gent, 1, 256)
}

func key(index, term uint64) uint64 { return index<<28 ^ term }

func mix(h uint64, vs ...uint64) uint64 {
	for _, v := range vs {
		h = (h ^ v) * 0x9e3779b97f4a7c15
		h ^= h >> 32
	}
	return h
}

func entHash(e *pb.Entry) uint64 {
	h := uint64(0xcbf29ce484222325) ^ uint64(e.Type)
	for _, b := range e.Data {
		h = (h ^ uint64(b)) * 0x100000001b3
	}
	return h*0x9e3779b97f4a7c15 + uint64(len(e.Data)) + 1
}

// checkHardState: invariant 5, evaluated at every persist (n.hs survives
// restarts, so this spans incarnations).
func (o *oracle) checkHardState(s *sim, n *node, hs pb.HardState) {
	p := n.hs
	switch {
	case hs.Term < p.Term:
		s.fail("hardstate/term-regressed", "node %d persists term %d after term %d", n.id, hs.Term, p.Term)
	case hs.Commit < p.Commit:
		s.fail("hardstate/commit-regressed", "node %d persists commit %d after commit %d", n.id, hs.Commit, p.Commit)
	case hs.Term == p.Term && p.Vote != 0 && hs.Vote != p.Vote:
		s.fail("hardstate/vote-changed", "node %d persists vote %d after vote %d in term %d", n.id, hs.Vote, p.Vote, hs.Term)
	case hs.Term == n.ansTerm && n.ansVote != 0 && hs.Vote != 0 && hs.Vote != n.ansVote:
		// the earlier vote was lost with an unsynced Ready, after it had been sent
		s.fail("hardstate/vote-changed", "node %d votes for %d in term %d in which it already sent its vote for %d (that vote did not survive a crash)",
			n.id, hs.Vote, hs.Term, n.ansVote)
	}
}

// committedAt compares an entry that a node holds/applies at a committed index
// with the first entry ever committed there (invariant 3).
func (o *oracle) committedAt(s *sim, n *node, idx, term, eh, nodeTerm uint64, verb string) {
	for uint64(len(o.g)) <= idx {
		o.g = append(o.g, gent{})
	}
	g := &o.g[idx]
	if g.term == 0 {
		*g = gent{term, eh, nodeTerm}
		return
	}
	if g.term != term || g.eh != eh {
		s.fail("commit-immutability/rewritten", "node %d %s at committed index %d an entry (term %d, hash %x) different from the one first committed there (term %d, hash %x)",
			n.id, verb, idx, term, eh, g.term, g.eh)
		return
	}
	if nodeTerm < g.cterm {
		g.cterm = nodeTerm
	}
}

func (o *oracle) applied(s *sim, n *node, e *pb.Entry) {
	// A restarted application starts again at its snapshot (appCursor is reset
	// there), so re-application shows up as the same sequence again, never as a
	// gap or a step back.
	if e.Index != n.appCursor+1 {
		s.fail("apply/gap", "node %d is handed index %d after index %d", n.id, e.Index, n.appCursor)
		return
	}
	s.commits++
	o.committedAt(s, n, e.Index, e.Term, entHash(e), n.rn.BasicStatus().Term, "applies")
}

func (o *oracle) appliedSnapshot(s *sim, n *node, idx, term uint64) {
	if idx < n.appCursor {
		s.fail("apply/snapshot-regress", "node %d is handed snapshot %d after applying %d", n.id, idx, n.appCursor)
		return
	}
	if idx < uint64(len(o.g)) && o.g[idx].term != 0 && o.g[idx].term != term {
		s.fail("commit-immutability/snapshot-mismatch", "node %d restores a snapshot at index %d term %d but the entry committed there has term %d",
			n.id, idx, term, o.g[idx].term)
	}
}

// checkNode evaluates the per-node invariants on n's full log (stable and
// unstable; the persisted log if n is crashed).  Only the part of the log that
// changed since the last call is re-hashed; deepCheck forgets the memo.
func (o *oracle) checkNode(s *sim, n *node) {
	if !n.started || s.viol != nil {
		return
	}
	var committed, term uint64
	var role raft.StateType
	live := n.rn != nil
	if live {
		bs := n.rn.BasicStatus()
		committed, term, role = bs.Commit, bs.Term, bs.RaftState
	} else {
		committed, term = n.hs.Commit, n.hs.Term
	}
	// The log itself is re-read only if a Ready carried entries or a snapshot,
	// or storage was compacted / reloaded, since the last look (n.dirty); every
	// deepCheck re-reads it regardless.
	p := len(n.view)
	if n.dirty {
		if p = o.checkLog(s, n, live, term); s.viol != nil {
			return
		}
		n.dirty = false
	}
	fi := n.viewFirst
	last := fi + uint64(len(n.view)) - 1

	// invariant 6
	if committed > last {
		s.fail("commit-range/beyond-last-index", "node %d: commit %d > last index %d", n.id, committed, last)
		return
	}
	if live && committed < n.lastCommit {
		s.fail("commit-range/regressed", "node %d: commit index went from %d to %d without a restart", n.id, n.lastCommit, committed)
		return
	}

	// invariant 3: what this node holds below its commit index — positions
	// re-hashed above and positions newly covered by the commit index
	lo := n.lastCommit + 1
	if c := fi + uint64(p); c < lo {
		lo = c
	}
	if lo < fi {
		lo = fi
	}
	for idx := lo; idx <= committed; idx++ {
		v := n.view[idx-fi]
		o.committedAt(s, n, idx, v.term, v.eh, term, "holds")
		if s.viol != nil {
			return
		}
	}
	n.lastCommit = committed

	if !live {
		return
	}
	switch role {
	case raft.StateLeader:
		// invariant 1
		if prev, ok := o.leaderOf[term]; ok {
			if prev != n.id {
				s.fail("election-safety/two-leaders", "nodes %d and %d are both leader of term %d", prev, n.id, term)
			}
			return
		}
		o.leaderOf[term] = n.id
		s.leaders++
		if o.lastLeader != n.id {
			s.probe("leader-change")
			o.lastLeader = n.id
		}
		s.logf("  node %d observed as leader of term %d", n.id, term)
		// invariant 4: leader completeness, with its term condition — the leader
		// of term T must hold what was committed in terms < T; a stale leader of
		// an older term legitimately lacks later commits.  A position covered by
		// the leader's snapshot is held (the snapshot was checked when applied).
		for idx := uint64(1); idx < uint64(len(o.g)); idx++ {
			g := o.g[idx]
			if g.term == 0 || g.cterm >= term || idx < fi {
				continue
			}
			if idx > last || n.view[idx-fi].term != g.term {
				have := uint64(0)
				if idx <= last {
					have = n.view[idx-fi].term
				}
				s.fail("leader-completeness/missing-committed", "node %d became leader of term %d without the entry (index %d, term %d) committed by term %d; it has term %d there, last index %d",
					n.id, term, idx, g.term, g.cterm, have, last)
				return
			}
		}
	case raft.StateCandidate:
		if prev, ok := o.candOf[term]; !ok {
			o.candOf[term] = n.id
		} else if prev != n.id && !o.twoCand[term] {
			o.twoCand[term] = true
			s.probe("two-candidates-same-term")
		}
	}
}

// checkLog reads n's whole log (stable and unstable; the persisted one if n is
// crashed), brings the memo n.view up to date and checks log matching on the
// part that changed.  It returns the number of leading positions unchanged.
func (o *oracle) checkLog(s *sim, n *node, live bool, term uint64) int {
	var ents []pb.Entry
	fi, _ := n.ms.FirstIndex()
	if live {
		s.guard("VerifLog", func() { ents, _, _ = n.rn.VerifLog() })
		if s.viol != nil {
			return 0
		}
		if rf := n.rn.VerifFirstIndex(); rf != fi {
			s.fail("log-matching/first-index", "node %d: log starts at %d, storage at %d, with no Ready pending", n.id, rf, fi)
			return 0
		}
	} else if li, _ := n.ms.LastIndex(); li >= fi {
		ents, _ = n.ms.Entries(fi, li+1, math.MaxUint64)
	}
	base := fi - 1
	baseTerm, _ := n.ms.Term(base)
	if len(ents) > 0 && ents[len(ents)-1].Term > term {
		s.fail("log-matching/term-above-current", "node %d: last entry has term %d, node is at term %d", n.id, ents[len(ents)-1].Term, term)
		return 0
	}

	// re-anchor the memo if the log's first index moved
	if n.view == nil || fi != n.viewFirst {
		if k := fi - n.viewFirst; n.view != nil && fi > n.viewFirst && k <= uint64(len(n.view)) && n.view[k-1].term == baseTerm {
			n.baseChain = n.view[k-1].chain // compaction
			n.view = n.view[k:]
		} else {
			n.view = n.view[:0]
			n.baseChain = 0
			if base > 0 {
				ch, ok := o.m[key(base, baseTerm)]
				if !ok {
					s.fail("log-matching/unknown-snapshot-base", "node %d: log starts after (index %d, term %d), which no log ever contained", n.id, base, baseTerm)
					return 0
				}
				n.baseChain = ch
			}
		}
		n.viewFirst = fi
	}
	if n.view == nil {
		n.view = make([]vent, 0, 64)
	}

	// invariant 2: log matching, via the prefix chain hash
	p := 0
	for p < len(n.view) && p < len(ents) && n.view[p].term == ents[p].Term {
		p++
	}
	n.view = n.view[:p]
	chain, prevTerm := n.baseChain, baseTerm
	if p > 0 {
		chain, prevTerm = n.view[p-1].chain, n.view[p-1].term
	}
	for k := p; k < len(ents); k++ {
		e := &ents[k]
		idx := fi + uint64(k)
		if e.Index != idx || e.Term < prevTerm {
			s.fail("log-matching/malformed-log", "node %d: position %d holds index %d term %d after term %d", n.id, idx, e.Index, e.Term, prevTerm)
			return 0
		}
		eh := entHash(e)
		chain = mix(chain, e.Term, eh)
		kk := key(idx, e.Term)
		if old, ok := o.m[kk]; !ok {
			o.m[kk] = chain
		} else if old != chain {
			s.fail("log-matching/diverged", "node %d: its log up to (index %d, term %d) differs from another log that holds the same (index, term)", n.id, idx, e.Term)
			return 0
		}
		n.view = append(n.view, vent{e.Term, eh, chain})
		prevTerm = e.Term
	}
	return p
}

// deepCheck re-verifies every log from scratch (catches in-place changes of
// positions the incremental memo considers unchanged).
func (o *oracle) deepCheck(s *sim) {
	for id := 1; id <= maxID && s.viol == nil; id++ {
		if n := s.nodes[id]; n.started {
			n.view, n.dirty = nil, true
			o.checkNode(s, n)
		}
	}
}
