package e2

import (
	"os"
	"testing"

	"verifsim/core"
)

func TestWorker(t *testing.T) {
	env := core.ReadEnv()
	rc := core.WorkerMain(env, &Engine{T: t})
	Cleanup()
	os.Exit(rc)
}
