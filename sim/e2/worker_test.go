package e2

import (
	"os"
	"testing"

	"verifsim/core"
)

func TestWorker(t *testing.T) {
	env := core.ReadEnv()
	rc := core.WorkerMain(env, &Engine{T: t})
	Cleanup()
	os.Exit(rc)
}

// TestRaceSweep is the worker of the race-sweep phase (binary built with
// -race, GOMAXPROCS 4): several clients of one node send in the same window so
// that connection handlers and the apply loop of a node truly run in parallel.
func TestRaceSweep(t *testing.T) {
	env := core.ReadEnv()
	rc := core.WorkerMain(env, &Engine{T: t, Race: true, TestName: "TestRaceSweep"})
	Cleanup()
	os.Exit(rc)
}
