package e2

import (
	"encoding/json"
	"fmt"
	"io"
	"log"
	"os"
	"os/exec"
	"regexp"
	"sort"
	"strings"
	"testing"

	"github.com/innovationb1ue/RedisGO/config"
	"github.com/innovationb1ue/RedisGO/logger"
	"go.etcd.io/etcd/raft/v3"

	"verifsim/core"
)

type Engine struct {
	T *testing.T
	// Race: this is the race-sweep worker (binary built with -race).
	Race     bool
	TestName string
}

var gens = map[string]func(rng *core.Rand, env *core.Env, run int) *Scenario{
	"C07": genC07,
	"C08": genC08,
	"C14": genC14,
}

var setupDone bool

func setupProcess() {
	if setupDone {
		return
	}
	setupDone = true
	dir, err := os.MkdirTemp("", "verif-e2-log")
	if err == nil {
		cfg := &config.Config{LogDir: dir, LogLevel: "panic"}
		if logger.SetUp(cfg) == nil {
			logger.Disable()
		}
		os.RemoveAll(dir)
	}
	log.SetOutput(fatalFilter{})
	raft.SetLogger(&raft.DefaultLogger{Logger: log.New(io.Discard, "", 0)})
	os.RemoveAll(pidDir())
	os.MkdirAll(pidDir(), 0o750)
	sweepStale()
}

// sweepStale removes scratch directories of worker processes that died (a
// killed node takes its worker down before Cleanup can run).
func sweepStale() {
	ents, err := os.ReadDir("/dev/shm")
	if err != nil {
		return
	}
	for _, e := range ents {
		var pid int
		if n, _ := fmt.Sscanf(e.Name(), "verif-e2-%d", &pid); n != 1 || pid == os.Getpid() {
			continue
		}
		if _, err := os.Stat(fmt.Sprintf("/proc/%d", pid)); os.IsNotExist(err) {
			os.RemoveAll("/dev/shm/" + e.Name())
		}
	}
}

// Cleanup removes the per-process scratch directory.
func Cleanup() { os.RemoveAll(pidDir()) }

func tapeSeed(seed int64, prop string, run int) uint64 {
	return core.Mix(core.RunSeed(seed, prop, run), 0xe2e2)
}

func (e *Engine) Run(env *core.Env, run int, res *core.Result) *core.Violation {
	setupProcess()
	gen := gens[env.Property]
	if gen == nil {
		panic("e2: unknown property " + env.Property)
	}
	rng := core.NewRand(core.RunSeed(env.Seed, env.Property, run))
	var sc *Scenario
	profile := ""
	if e.Race {
		sc = genRace(rng, env, run)
		profile = "race"
	} else {
		sc = gen(rng, env, run)
	}
	if v := env.ParamInt("max_steps", 0); v > 0 {
		sc.Knobs.MaxSteps = v
	}
	body, _ := json.Marshal(sc)
	// (runs with random-choice commands depend on Go's map iteration order inside the server)
	c := &core.Case{Property: env.Property, Engine: "e2", Seed: env.Seed, Run: run, Body: body, GenTape: true, ReplayExact: !e.Race && !sc.Knobs.Nondet, Profile: profile}
	if sc.Aim && knownDeathListed(env) && os.Getenv("VERIF_NOSANDBOX") == "" {
		// this run aims at listed findings, some of which kill the process
		sig, msg, died, err := runInChild(env, c, e.TestName)
		res.Count("runs-sandboxed", 1)
		if died {
			res.Count("sandboxed-process-deaths", 1)
		}
		detlog("run=%d hash=sandboxed sig=%s\n", run, sig)
		if err != nil {
			res.Notes = append(res.Notes, fmt.Sprintf("sandboxed run %d: %v", run, err))
			return nil
		}
		if sig == "" {
			return nil
		}
		c.Signature, c.Message = sig, msg
		if died {
			// replaying this case kills the process: Replay does it in a child
			c.Trace = []string{sandboxMark}
		}
		return &core.Violation{Signature: sig, Message: msg, Case: c}
	}
	env.J.Begin(c)
	tape := core.NewGenTape(core.NewRand(tapeSeed(env.Seed, env.Property, run)))
	traceDir := os.Getenv("VERIF_TRACEDIR")
	rr := RunScenario(e.T, sc, tape, env.J, traceDir != "")
	env.J.Done()
	if traceDir != "" {
		os.WriteFile(fmt.Sprintf("%s/run%d.trace", traceDir, run), []byte(strings.Join(rr.Trace, "\n")+"\n"), 0o644)
	}
	sig, msg := judge(sc, rr, env)
	account(sc, rr, res, run)
	detlog("run=%d hash=%016x sig=%s\n", run, rr.TraceHash, sig)
	if sig == "" {
		return nil
	}
	c.Tape = tape.Used()
	c.GenTape = false
	c.Signature = sig
	c.Message = msg
	c.Trace = tail(rr.Trace, 80)
	return &core.Violation{Signature: sig, Message: msg, Case: c}
}

func nontrivial(sc *Scenario, rr *RunResult) bool {
	switch sc.Kind {
	case "C14":
		return len(rr.RefReplies) >= 3 && rr.Acked >= 3
	case "C08":
		if sc.Variant == "fault-free" {
			return rr.Acked >= 5
		}
		return rr.Acked >= 5 && rr.Faults["restart"] > 0
	}
	// C07: at least two clients were answered and, unless the run is the
	// fault-free configuration, at least one fault fired
	active := 0
	for _, c := range rr.Clients {
		for _, op := range c.ops {
			if op.Done && !op.Final && !op.Probe {
				active++
				break
			}
		}
	}
	if sc.Variant == "fault-free" || sc.Variant == "race" {
		return active >= 2
	}
	return active >= 2 && (rr.FaultsAny || rr.NetFaults || rr.Faults["msg-drop"] > 0 || rr.Faults["snapshot-taken"] > 0)
}

func account(sc *Scenario, rr *RunResult, res *core.Result, run int) {
	if sc.Knobs.LargeValues {
		res.Count("runs-with-values-of-several-hundred-KB", 1)
	}
	res.Steps += int64(rr.Steps)
	res.SimNs += float64(rr.SimElapsed)
	for k, v := range rr.Faults {
		res.Fault(k, v)
	}
	for k, v := range rr.Probes {
		res.Probe(k, v)
	}
	res.Count("variant:"+sc.Kind+":"+sc.Variant, 1)
	res.Count(fmt.Sprintf("nodes-%d", sc.Knobs.Nodes), 1)
	res.Count("commands-acknowledged", int64(rr.Acked))
	res.Count("commands-abandoned", int64(rr.Abandoned))
	if sc.Knobs.Databases > 1 {
		res.Count("runs-with-several-databases", 1)
		for _, c := range sc.Clients {
			for _, cmd := range c.Cmds {
				if len(cmd.Args) > 0 && strings.EqualFold(string(cmd.Args[0]), "select") {
					res.Count("select-commands", 1)
				}
			}
		}
	}
	if rr.RefSkipped > 0 {
		res.Count("c14-commands-cut-standalone-has-no-answer", int64(rr.RefSkipped))
	}
	if rr.StepLimit {
		res.Count("step-limit-reached", 1)
	}
	if sc.Aim {
		res.Count("runs-aiming-at-listed-classes", 1)
	}
	// leader changes while a command was pending
	res.AddTrace(rr.TraceHash, nontrivial(sc, rr))
	for _, h := range rr.States {
		res.AddState(h)
	}
	for _, d := range rr.FinalDumps {
		res.AddState(core.HashString(strings.Join(d, "\n")))
	}
	if len(res.Samples) < 2 {
		var progs []string
		for _, c := range sc.Clients {
			var steps []string
			for i, s := range c.Cmds {
				if i >= 10 {
					steps = append(steps, "...")
					break
				}
				steps = append(steps, truncate(cmdString(s.Args), 60))
			}
			progs = append(progs, c.Name+": "+strings.Join(steps, " ; "))
		}
		res.AddSample(map[string]any{"run": run, "kind": sc.Kind, "variant": sc.Variant, "knobs": sc.Knobs, "faults": sc.Faults,
			"programs": progs, "schedule_head": head(rr.Trace, 40)})
	}
}

func (e *Engine) Replay(env *core.Env, c *core.Case) (string, string, []string) {
	setupProcess()
	sc := &Scenario{}
	if err := json.Unmarshal(c.Body, sc); err != nil {
		return c.Property + "/harness-bad-case", err.Error(), nil
	}
	if len(c.Trace) > 0 && c.Trace[0] == sandboxMark && os.Getenv("VERIF_QUIET_REPLAY") == "" {
		// a process death found in a sandboxed run: reproduce it in a child and
		// report the child's fate
		cc := *c
		cc.Trace = nil
		testName := e.TestName
		sig, msg, _, err := runInChild(env, &cc, testName)
		if err != nil {
			return c.Property + "/harness-trouble", err.Error(), nil
		}
		return sig, msg, nil
	}
	var tape *core.Tape
	if c.GenTape {
		tape = core.NewGenTape(core.NewRand(tapeSeed(c.Seed, c.Property, c.Run)))
	} else {
		tape = core.NewReplayTape(c.Tape)
	}
	env.J.Begin(c)
	rr := RunScenario(e.T, sc, tape, env.J, true)
	sig, msg := judge(sc, rr, env)
	if d := os.Getenv("VERIF_TRACEDIR"); d != "" {
		os.WriteFile(d+"/replay.trace", []byte(strings.Join(rr.Trace, "\n")+"\n"), 0o644)
	}
	return sig, msg, tail(rr.Trace, 150)
}

// Minimise: fewer clients, shorter programs (ddmin), fewer fault kinds, then a
// shorter and zero-er tape, while the same signature persists.  Every
// candidate is a fresh deterministic run.
func (e *Engine) Minimise(env *core.Env, c *core.Case) *core.Case {
	setupProcess()
	sc := &Scenario{}
	if json.Unmarshal(c.Body, sc) != nil {
		return c
	}
	if c.GenTape {
		return c // found in a sandboxed child (process death): shrunk by the driver, not in-process
	}
	if env.Mode == "batch" && os.Getenv("VERIF_NOSANDBOX") == "" {
		// candidates may hit a defect that kills the process: shrink in a child
		return minimiseInChild(env, c, e.TestName)
	}
	budget := 250
	try := func(s *Scenario, tape []uint32) bool {
		if budget <= 0 {
			return false
		}
		budget--
		cp := cloneScenario(s)
		rr := RunScenario(e.T, cp, core.NewReplayTape(tape), nil, false)
		sig, _ := judge(cp, rr, env)
		return sig == c.Signature
	}
	tape := c.Tape
	if !try(sc, tape) {
		return c
	}
	// drop whole clients
	for i := len(sc.Clients) - 1; i >= 0 && len(sc.Clients) > 1; i-- {
		cand := cloneScenario(sc)
		cand.Clients = append(cand.Clients[:i], cand.Clients[i+1:]...)
		if try(cand, tape) {
			sc = cand
		}
	}
	// ddmin each client's program
	for i := range sc.Clients {
		cmds := core.DDMin(sc.Clients[i].Cmds, func(ss []Cmd) bool {
			cand := cloneScenario(sc)
			cand.Clients[i].Cmds = ss
			return try(cand, tape)
		})
		sc.Clients[i].Cmds = cmds
	}
	// fewer fault kinds, no message faults
	if len(sc.Faults.Kinds) > 0 {
		sc.Faults.Kinds = core.DDMin(sc.Faults.Kinds, func(ks []string) bool {
			cand := cloneScenario(sc)
			cand.Faults.Kinds = ks
			return try(cand, tape)
		})
	}
	for _, f := range []func(s *Scenario){
		func(s *Scenario) { s.Knobs.DropPM, s.Knobs.ReorderPM, s.Knobs.UnreachPM = 0, 0, 0 },
		func(s *Scenario) { s.Knobs.ReorderPM = 0 },
		func(s *Scenario) { s.Knobs.Nodes = 1 },
		func(s *Scenario) {
			if s.Knobs.Nodes > 3 {
				s.Knobs.Nodes = 3
			}
		},
		func(s *Scenario) {
			for i := range s.Clients {
				s.Clients[i].Sticky = true
			}
		},
	} {
		cand := cloneScenario(sc)
		f(cand)
		if try(cand, tape) {
			sc = cand
		}
	}
	budget += 150
	tape = core.MinimiseTape(tape, func(t []uint32) bool { return try(sc, t) })
	// a simpler schedule often lets more of the programs go
	budget += 100
	for i := len(sc.Clients) - 1; i >= 0 && len(sc.Clients) > 1; i-- {
		cand := cloneScenario(sc)
		cand.Clients = append(cand.Clients[:i], cand.Clients[i+1:]...)
		if try(cand, tape) {
			sc = cand
		}
	}
	for i := range sc.Clients {
		cmds := core.DDMin(sc.Clients[i].Cmds, func(ss []Cmd) bool {
			cand := cloneScenario(sc)
			cand.Clients[i].Cmds = ss
			return try(cand, tape)
		})
		sc.Clients[i].Cmds = cmds
	}
	body, _ := json.Marshal(sc)
	out := *c
	out.Body = body
	out.Tape = tape
	out.Minimised = true
	fin := cloneScenario(sc)
	rr := RunScenario(e.T, fin, core.NewReplayTape(tape), nil, true)
	sig, msg := judge(fin, rr, env)
	if sig != c.Signature {
		return c
	}
	out.Message = msg
	out.Trace = tail(rr.Trace, 80)
	return &out
}

// ---- sandboxed runs --------------------------------------------------------------
//
// A Go panic in a goroutine the node started itself (raftexample, raft) or a
// log.Fatal cannot be recovered: it takes the worker process down, and the
// driver attributes the death through the journal.  Runs that deliberately aim
// at listed findings of that kind are executed in a child process so that the
// worker survives them.

func knownDeathListed(env *core.Env) bool {
	for pat := range env.Known {
		if strings.Contains(pat, "/node-death/") || strings.Contains(pat, "/restart-failed/") || strings.Contains(pat, "/process-died/") || strings.Contains(pat, "/data-race/") ||
			strings.Contains(pat, "/*/") {
			return true
		}
	}
	return false
}

const sandboxMark = "sandboxed: replaying this case kills the process; Replay runs it in a child process"

var reSig = regexp.MustCompile(`REPLAY signature=(\S+)\n\s*([^\n]*)`)
var rePanic = regexp.MustCompile(`(?m)^(panic: .*|fatal error: .*|WARNING: DATA RACE|node log: .*)$`)

// runInChild replays a case in a fresh process.  died reports a process death
// (sig is then the journal's attribution).
func runInChild(env *core.Env, c *core.Case, testName string) (sig, msg string, died bool, err error) {
	if testName == "" {
		testName = "TestWorker"
	}
	dir, e := os.MkdirTemp("", "verif-e2-child")
	if e != nil {
		return "", "", false, e
	}
	defer os.RemoveAll(dir)
	casePath := dir + "/case.json"
	jpath := dir + "/journal"
	if e := core.SaveCase(casePath, c); e != nil {
		return "", "", false, e
	}
	cmd := exec.Command(os.Args[0], "-test.run", "^"+testName+"$", "-test.timeout", "0")
	var known []string
	for k := range env.Known {
		known = append(known, k)
	}
	sort.Strings(known)
	cmd.Env = append(os.Environ(), "VERIF_MODE=replay", "VERIF_CASE="+casePath, "VERIF_JOURNAL="+jpath, "VERIF_OUT=", "VERIF_DETLOG=", "VERIF_TRACEDIR=",
		"VERIF_QUIET_REPLAY=1", "VERIF_KNOWN="+strings.Join(known, "\n"))
	if g := os.Getenv("GORACE"); g != "" {
		// the race runtime sleeps a second at exit by default
		cmd.Env = append(cmd.Env, "GORACE="+g+" atexit_sleep_ms=0")
	}
	out, _ := cmd.CombinedOutput()
	if cmd.Process != nil {
		os.RemoveAll(fmt.Sprintf("/dev/shm/verif-e2-%d", cmd.Process.Pid)) // a dead child cannot clean up
	}
	if cmd.ProcessState == nil {
		return "", "", false, fmt.Errorf("cannot start the child process")
	}
	rc := cmd.ProcessState.ExitCode()
	switch rc {
	case 0:
		return "", "", false, nil
	case 10:
		if m := reSig.FindSubmatch(out); m != nil {
			return string(m[1]), string(m[2]), false, nil
		}
		return "", "", false, fmt.Errorf("child reported a violation without a signature")
	case 11:
		return "", "", false, fmt.Errorf("child reported trouble: %s", truncate(string(out), 300))
	}
	// death: attribute through the journal
	sig = c.Property + "/node-death/unattributed"
	if b, e := os.ReadFile(jpath); e == nil {
		for _, l := range strings.Split(string(b), "\n") {
			if strings.HasPrefix(l, "sig=") {
				sig = strings.TrimSpace(l[4:])
			}
		}
	}
	msg = fmt.Sprintf("server process died (exit status %d)", rc)
	if m := rePanic.Find(out); m != nil {
		msg = "server process died: " + string(m)
	}
	return sig, msg, true, nil
}

// fatalFilter is where the standard logger writes: the chatter of raftexample
// and the apply loop is dropped, anything else (the text of a log.Fatal, which
// exits the process right after) goes to stderr so that the driver can show
// why a node died.
type fatalFilter struct{}

var logNoise = []string{"replaying WAL of member", "loading WAL at term", "publishing snapshot", "finished publishing snapshot",
	"start snapshot", "compacted log at", "cluster commitC", "TLL fires", "TTL canceled", "I've been removed"}

func (fatalFilter) Write(p []byte) (int, error) {
	str := string(p)
	for _, n := range logNoise {
		if strings.Contains(str, n) {
			return len(p), nil
		}
	}
	os.Stderr.WriteString("node log: " + str)
	return len(p), nil
}

var detlogFile *os.File

// detlog appends one line per run to VERIF_DETLOG (truncated when the process
// first writes to it).
func detlog(format string, a ...any) {
	f := os.Getenv("VERIF_DETLOG")
	if f == "" {
		return
	}
	if detlogFile == nil {
		fh, err := os.OpenFile(f, os.O_TRUNC|os.O_CREATE|os.O_WRONLY, 0o644)
		if err != nil {
			return
		}
		detlogFile = fh
	}
	fmt.Fprintf(detlogFile, format, a...)
}

// minimiseInChild runs Minimise (mode "minimise" of the worker binary) in a
// fresh process; if a candidate kills that process the original case is kept.
func minimiseInChild(env *core.Env, c *core.Case, testName string) *core.Case {
	if testName == "" {
		testName = "TestWorker"
	}
	dir, e := os.MkdirTemp("", "verif-e2-min")
	if e != nil {
		return c
	}
	defer os.RemoveAll(dir)
	casePath, outPath := dir+"/case.json", dir+"/min.json"
	if core.SaveCase(casePath, c) != nil {
		return c
	}
	cmd := exec.Command(os.Args[0], "-test.run", "^"+testName+"$", "-test.timeout", "0")
	var known []string
	for k := range env.Known {
		known = append(known, k)
	}
	sort.Strings(known)
	cmd.Env = append(os.Environ(), "VERIF_MODE=minimise", "VERIF_CASE="+casePath, "VERIF_OUT="+outPath, "VERIF_JOURNAL=", "VERIF_DETLOG=", "VERIF_TRACEDIR=",
		"VERIF_KNOWN="+strings.Join(known, "\n"))
	cmd.CombinedOutput()
	if cmd.Process != nil {
		os.RemoveAll(fmt.Sprintf("/dev/shm/verif-e2-%d", cmd.Process.Pid))
	}
	if cmd.ProcessState == nil || cmd.ProcessState.ExitCode() != 10 {
		return c
	}
	mc, err := core.LoadCase(outPath)
	if err != nil || mc.Signature != c.Signature {
		return c
	}
	return mc
}
