package e2

import (
	"fmt"
	"sort"
	"strconv"
	"strings"

	"verifsim/core"
)

// Management commands (rconf, member) in the shapes a careless operator
// produces.  `rconf`, in any letter case, is executed locally by the connection
// handler of the node that receives it; `member` goes through the replicated
// log and is executed by every replica's apply loop.  Their replies are not judged; the oracles are: nodes stay alive,
// replies arrive, replicas agree, the data history stays linearizable, and a
// refused command changes no membership.

type mgmtInfo struct {
	is      bool
	class   string // trigger class, computed from the command alone
	changes string // "add" / "delete" when the command is a well-formed membership change
	id      uint64
	viaLog  bool
}

func mgmtShape(a []B, members int) mgmtInfo {
	if len(a) == 0 {
		// the empty command (`*0`): well-formed RESP, no command name
		return mgmtInfo{is: true, class: "empty-command"}
	}
	name := strings.ToLower(string(a[0]))
	switch name {
	case "member":
		mi := mgmtInfo{is: true, viaLog: true}
		switch {
		case len(a) == 1:
			mi.class = "member-alone"
		case strings.EqualFold(string(a[1]), "list"):
			mi.class = "member-list"
		default:
			mi.class = "member-bogus-subcommand"
		}
		return mi
	case "rconf":
	default:
		return mgmtInfo{}
	}
	mi := mgmtInfo{is: true}
	suffix := ""
	if len(a) == 1 {
		mi.class = "rconf-alone" + suffix
		return mi
	}
	sub := strings.ToLower(string(a[1]))
	if sub != "add" && sub != "delete" && sub != "update" {
		mi.class = "rconf-bogus-subcommand" + suffix
		return mi
	}
	if len(a) == 2 {
		mi.class = "rconf-" + sub + "-without-id" + suffix
		return mi
	}
	id, err := strconv.ParseUint(string(a[2]), 10, 64)
	if err != nil {
		if sub == "add" && len(a) == 3 {
			mi.class = "rconf-add-without-address" + suffix
			return mi
		}
		mi.class = "rconf-" + sub + "-bad-id" + suffix
		return mi
	}
	if sub == "add" && len(a) == 3 {
		mi.class = "rconf-add-without-address" + suffix
		return mi
	}
	mi.id = id
	q := ""
	switch {
	case id == 0:
		q = "-id-0"
	case id > 1<<20:
		q = "-huge-id"
	case int(id) <= members:
		q = "-existing-member"
	}
	mi.class = "rconf-" + sub + q + suffix
	if sub == "add" || sub == "delete" {
		mi.changes = sub
	}
	return mi
}

func isMgmt(a []B) bool { return mgmtShape(a, 0).is }

// genMgmt draws one management command.  Shapes that really change the
// membership (add of a new id, delete of a member) are left to the rconf
// faults of the adversary; the ones here are refused, or accepted and without
// effect on who is a member (id 0, an existing member added again, update, a
// delete of somebody who is not a member).
func genMgmt(r *core.Rand, nodes int, allowPhantom bool) []B {
	rc := spell(r, "rconf", pick(r, []int{0, 0, 0, 1, 2, 4}))
	mb := spell(r, "member", pick(r, []int{0, 0, 1, 2, 4}))
	url := func(id int) string { return nodeURL(id) }
	ex := 1 + r.Intn(nodes)
	shapes := [][]B{
		{}, // `*0`: an array without elements
		bs(rc),
		bs(rc, "add"),
		bs(rc, "delete"),
		bs(rc, "update"),
		bs(rc, "add", itoa(nodes+1)), // the address is missing
		bs(rc, "add", itoa(ex)),
		bs(rc, "ADD", itoa(nodes+1)),
		bs(rc, "add", "x", url(nodes+1)),
		bs(rc, "add", "-1", url(nodes+1)),
		bs(rc, "add", "", url(nodes+1)),
		bs(rc, "delete", "x"),
		bs(rc, "delete", "99999999999999999999"),
		bs(rc, "bogus", "4"),
		bs(rc, "add", "0", url(nodes+1)),
		bs(rc, "delete", "0"),
		bs(rc, "update", "0"),
		bs(rc, "add", itoa(ex), url(ex)),
		bs(rc, "update", itoa(ex)),
		bs(rc, "update", itoa(ex), url(ex)),
		bs(rc, "delete", "4000000000"),
		bs(rc, "update", "4000000000"),
		bs(mb, "list"),
		bs(mb, "list"),
		bs(mb, spell(r, "list", r.Intn(5))),
		bs(mb),
		bs(mb, "bogus"),
		bs(mb, "list", "extra"),
	}
	if allowPhantom && nodes >= 3 {
		// a well-formed add of a member nobody can reach: the configuration
		// grows by one voter, so it is only asked for where the real nodes
		// still form a quorum of the enlarged configuration (3 of 4, 4 of 6)
		// and the run plans no fault that takes one of them away
		shapes = append(shapes, bs(rc, "add", "4000000000", "http://127.0.0.1:1"))
	}
	return pick(r, shapes)
}

// sprinkleMgmt inserts n management commands at random places of the programs;
// with several databases one client also looks at the member list from
// another database (select 1, member list, select 0).
func sprinkleMgmt(r *core.Rand, sc *Scenario, n int, allowPhantom bool) {
	if len(sc.Clients) == 0 {
		return
	}
	ins := func(ci, at int, cmds ...Cmd) {
		p := &sc.Clients[ci]
		if at > len(p.Cmds) {
			at = len(p.Cmds)
		}
		p.Cmds = append(p.Cmds[:at:at], append(cmds, p.Cmds[at:]...)...)
	}
	for i := 0; i < n; i++ {
		ci := r.Intn(len(sc.Clients))
		ins(ci, r.Intn(len(sc.Clients[ci].Cmds)+1), Cmd{Args: genMgmt(r, sc.Knobs.Nodes, allowPhantom)})
	}
	if sc.Knobs.Databases > 1 {
		ci := r.Intn(len(sc.Clients))
		db := itoa(1 + r.Intn(sc.Knobs.Databases-1))
		ins(ci, r.Intn(len(sc.Clients[ci].Cmds)+1), Cmd{Args: bs("select", db)}, Cmd{Args: bs(spell(r, "member", r.Intn(3)), "list")}, Cmd{Args: bs("select", "0")})
	}
}

// membershipViolated: the voters every serving node reports at the end must
// lie between (initial members minus acknowledged deletes) and (initial
// members plus acknowledged adds).
func membershipViolated(sc *Scenario, rr *RunResult) string {
	if len(rr.Voters) == 0 {
		return ""
	}
	must, may := map[uint64]bool{}, map[uint64]bool{}
	for i := 1; i <= sc.Knobs.Nodes; i++ {
		must[uint64(i)], may[uint64(i)] = true, true
	}
	lastRefused := ""
	for _, c := range rr.Clients {
		for _, op := range c.ops {
			mi := mgmtShape(op.Args, sc.Knobs.Nodes)
			if !mi.is {
				continue
			}
			if mi.changes == "" {
				if strings.HasPrefix(mi.class, "rconf") {
					lastRefused = mi.class
				}
				continue
			}
			// a well-formed change may have taken effect whether or not its
			// reply arrived
			if mi.changes == "add" && mi.id != 0 {
				may[mi.id] = true
			}
			if mi.changes == "delete" {
				delete(must, mi.id)
			}
		}
	}
	var ids []int
	for id := range rr.Voters {
		ids = append(ids, id)
	}
	sort.Ints(ids)
	for _, id := range ids {
		got := map[uint64]bool{}
		for _, v := range rr.Voters[id] {
			got[v] = true
			if !may[v] {
				return fmt.Sprintf("node %d counts %d as a voting member although no well-formed `rconf add %d` was issued (voters %v; last refused command class: %s)", id, v, v, rr.Voters[id], lastRefused)
			}
		}
		for v := range must {
			if !got[v] {
				return fmt.Sprintf("node %d no longer counts %d as a voting member although no well-formed `rconf delete %d` was issued (voters %v; last refused command class: %s)", id, v, v, rr.Voters[id], lastRefused)
			}
		}
	}
	return ""
}
