package e2

import (
	"errors"
	"io"
	"net"
	"sync"
	"time"
)

// Conn is the simulated client connection handed to VerifNode.Serve.  The
// harness owns both directions.  Every server-side Write is a seam crossing of
// the owning incarnation ("client reply write").
type Conn struct {
	name string
	inc  *incarnation

	mu       sync.Mutex // real, held briefly, never while blocked
	in       []byte
	inEOF    bool
	inWake   chan struct{}
	out      []byte
	closed   bool // server side called Close
	peerGone bool // client vanished: writes fail
	// gate: the handler of this connection is parked at the proposed hook
	gate chan struct{}
}

func newConn(name string, inc *incarnation) *Conn {
	return &Conn{name: name, inc: inc, inWake: make(chan struct{}, 1)}
}

type simAddr string

func (a simAddr) Network() string { return "sim" }
func (a simAddr) String() string  { return string(a) }

func (c *Conn) Read(p []byte) (int, error) {
	for {
		c.mu.Lock()
		if c.closed {
			c.mu.Unlock()
			return 0, net.ErrClosed
		}
		if len(c.in) > 0 {
			n := copy(p, c.in)
			c.in = c.in[n:]
			c.mu.Unlock()
			return n, nil
		}
		if c.inEOF {
			c.mu.Unlock()
			return 0, io.EOF
		}
		c.mu.Unlock()
		<-c.inWake
	}
}

var errPipe = errors.New("write: broken pipe")

func (c *Conn) Write(p []byte) (int, error) {
	// seam crossing: the process may be killed right before the reply leaves
	c.mu.Lock()
	inc := c.inc
	c.mu.Unlock()
	if inc != nil && !inc.sim.seam(inc, seamReply) {
		return 0, errPipe
	}
	c.mu.Lock()
	defer c.mu.Unlock()
	if c.closed {
		return 0, net.ErrClosed
	}
	if c.peerGone {
		return 0, errPipe
	}
	c.out = append(c.out, p...)
	return len(p), nil
}

func (c *Conn) Close() error {
	c.mu.Lock()
	c.closed = true
	c.mu.Unlock()
	c.wake()
	return nil
}

func (c *Conn) wake() {
	select {
	case c.inWake <- struct{}{}:
	default:
	}
}

func (c *Conn) LocalAddr() net.Addr                { return simAddr("server") }
func (c *Conn) RemoteAddr() net.Addr               { return simAddr(c.name) }
func (c *Conn) SetDeadline(t time.Time) error      { return nil }
func (c *Conn) SetReadDeadline(t time.Time) error  { return nil }
func (c *Conn) SetWriteDeadline(t time.Time) error { return nil }

// ---- harness side ----------------------------------------------------------

func (c *Conn) deliver(b []byte) {
	c.mu.Lock()
	c.in = append(c.in, b...)
	c.mu.Unlock()
	c.wake()
}

// clientClose: the client (or the machine the server ran on) is gone.
func (c *Conn) clientClose() {
	c.mu.Lock()
	c.inEOF = true
	c.peerGone = true
	c.mu.Unlock()
	c.wake()
}

func (c *Conn) takeOut() []byte {
	c.mu.Lock()
	b := c.out
	c.out = nil
	c.mu.Unlock()
	return b
}
