package e2

import (
	"context"
	"fmt"
	"os"
	"strings"
	"time"

	"github.com/innovationb1ue/RedisGO/config"
	"github.com/innovationb1ue/RedisGO/server"

	"verifsim/core"
	"verifsim/refmodel"
	rd "verifsim/respdec"
)

// Trigger classes the generators know how to avoid.  When a listed (known)
// finding names one of them, ~7 of 8 runs steer away from it so that the
// listed finding masks nothing else; every 8th run aims at the listed classes.
var avoidable = []string{
	"arg-with-space", "empty-arg", "arg-with-crlf", "non-utf8-arg", "filtered-command",
	"snapshot-of-list", "follower-needed-msgsnap", "restart-after-snapshot", "torn-wal-tail", "unsynced-wal-tail-lost",
	"after-rconf-delete", "after-rconf-delete-highest-id", "after-rconf-add", "after-rconf-add-with-snapshot",
	"concurrent-clients-one-node", "clients-on-several-nodes",
	"ttl-command", "ttl-command-replayed-at-restart",
	"nondeterministic-command",
}

func knownClass(env *core.Env, class string) bool {
	for pat := range env.Known {
		i := strings.LastIndexByte(pat, '/')
		last := pat
		if i >= 0 {
			last = pat[i+1:]
		}
		// the listing must name the class (a bare "*" names none); composite
		// classes (a+b) name each of their parts
		if last == "*" || last == "" {
			continue
		}
		for _, part := range strings.Split(last, "+") {
			if part == class || (strings.Contains(part, "*") && strings.Trim(part, "*") != "" && core.Glob(part, class)) {
				return true
			}
		}
	}
	return false
}

// selfTest: the determinism self-test (VERIF_DETLOG) compares in-process trace
// hashes, so its runs must not kill the process: the classes that do are
// avoided whether or not they are listed, and no run aims at listed classes.
var selfTest = os.Getenv("VERIF_DETLOG") != ""

var processKillers = []string{"snapshot-of-list", "torn-wal-tail", "after-rconf-add-with-snapshot", "after-rconf-delete-highest-id",
	"concurrent-clients-one-node"}

func isAimRun(run int) bool { return run%8 == 7 && !selfTest }

type avoidSet map[string]bool

func avoidFor(env *core.Env, run int) avoidSet {
	a := avoidSet{}
	if isAimRun(run) {
		return a
	}
	for _, c := range avoidable {
		if knownClass(env, c) {
			a[c] = true
		}
	}
	if selfTest {
		for _, c := range processKillers {
			a[c] = true
		}
	}
	return a
}

func pick[T any](r *core.Rand, xs []T) T { return xs[r.Intn(len(xs))] }

// ---- knobs ------------------------------------------------------------------------

func baseKnobs(r *core.Rand, nodes int) Knobs {
	k := Knobs{Nodes: nodes, ShardNum: pick(r, []int{1, 2, 8, 64}), SegmentKiB: pick(r, []int{4, 8, 16, 64}), HandlerGate: r.Bool(0.5),
		MaxSteps: 2000, WDeliver: 10, WTick: pick(r, []int{1, 3, 3, 6, 12}), WClient: pick(r, []int{3, 6, 6, 12}),
		OpTimeoutTicks: pick(r, []int{25, 40, 60}), LivenessS: 60,
		SnapCount: 10000, CatchUpN: 10000}
	used := map[int]bool{}
	for i := 0; i < 6; i++ {
		for {
			off := 1 + r.Intn(180)
			clash := false
			for u := range used {
				d := (off - u + 400) % 200
				if d < 3 || d > 197 {
					clash = true
				}
			}
			if !clash {
				used[off] = true
				// offsets are cumulative sleeps: make phases distinct
				k.StaggerMS = append(k.StaggerMS, off)
				break
			}
		}
	}
	// StaggerMS are absolute phases; convert to successive sleeps that reach them
	ph := 0
	for i, target := range k.StaggerMS {
		d := (target - ph%200 + 200) % 200
		if d == 0 {
			d = 200
		}
		k.StaggerMS[i] = d
		ph += d
	}
	return k
}

// snapKnobs lowers the snapshot threshold and the catch-up window so that
// snapshotting, compaction and MsgSnap happen inside short runs.  The catch-up
// window never exceeds the threshold: the code under test ships with both at
// 10000, and a window of twice the threshold or more makes the second
// snapshot compact to index 1 again, which raftexample answers with a panic
// that no real configuration can reach.
func snapKnobs(r *core.Rand, k *Knobs) {
	k.SnapCount = uint64(pick(r, []int{5, 8, 12, 20, 40, 200}))
	k.CatchUpN = uint64(pick(r, []int{1, 2, 5, int(k.SnapCount), int(k.SnapCount)}))
	if k.CatchUpN > k.SnapCount {
		k.CatchUpN = k.SnapCount
	}
}

func sectorLossKnob(k *Knobs, av avoidSet) {
	// two connection handlers of one node active at once race on the
	// proposal-id -> reply-channel map; harmless on one P, fatal with more
	k.OnePerNode = av["concurrent-clients-one-node"]
	if av["torn-wal-tail"] {
		k.SectorLoss = "all-or-none"
	}
	if av["unsynced-wal-tail-lost"] {
		k.SectorLoss = "none"
	}
}

// directedPlan turns a crash configuration into a choreographed one (see
// directed.go): three nodes, no other faults, enough client commands to last
// through every phase of the plan.
func directedPlan(r *core.Rand, sc *Scenario) (nclients, total int) {
	k := &sc.Knobs
	k.Nodes = 3
	k.DropPM, k.ReorderPM, k.UnreachPM = 0, 0, 0
	k.OpTimeoutTicks = 25
	k.MaxSteps = 3500
	sc.Faults.Kinds = nil
	sc.Faults.Directed = pick(r, []string{"ack-then-crash", "ack-then-crash", "ack-then-crash", "vote-then-crash", "vote-then-torn-crash", "vote-then-torn-crash"})
	sc.Variant += "+" + sc.Faults.Directed
	return 3 + r.Intn(2), 60
}

// directedKnobs: what a plan needs from the workload and the disk.
func directedKnobs(sc *Scenario) (pad int) {
	if sc.Faults.Directed == "vote-then-torn-crash" {
		// a WAL record must span several sectors to be torn: large values, and
		// segments large enough not to be cut at every other command
		sc.Knobs.SegmentKiB = 64
		sc.Knobs.SectorLoss = ""
		return 700
	}
	return 0
}

func pickNodes(r *core.Rand) int {
	switch x := r.Intn(20); {
	case x == 0:
		return 1
	case x <= 3:
		return 5
	}
	return 3
}

// ---- C07 / C08 workload ---------------------------------------------------------

type wlGen struct {
	r       *core.Rand
	strKeys []string
	ctrKeys []string
	lists   []string
	sets    []string
	hashes  []string
	seq     int
	pad     int
}

func (g *wlGen) uniq(ci int) string {
	g.seq++
	if g.pad > 0 {
		return fmt.Sprintf("c%dv%d-", ci, g.seq) + strings.Repeat("x", g.pad+g.r.Intn(300))
	}
	return fmt.Sprintf("c%dv%d", ci, g.seq)
}

func (g *wlGen) cmd(ci int) []B {
	r := g.r
	type alt struct {
		w int
		f func() []B
	}
	var alts []alt
	add := func(w int, f func() []B) { alts = append(alts, alt{w, f}) }
	if len(g.strKeys) > 0 {
		k := func() string { return pick(r, g.strKeys) }
		add(6, func() []B { return bs("set", k(), g.uniq(ci)) })
		add(5, func() []B { return bs("get", k()) })
		add(2, func() []B { return bs("append", k(), g.uniq(ci)) })
		add(1, func() []B { return bs("del", k()) })
		add(1, func() []B { return bs("exists", k()) })
		add(1, func() []B { return bs("strlen", k()) })
		if len(g.strKeys) > 1 {
			add(1, func() []B { return bs("del", g.strKeys[0], g.strKeys[1]) })
			add(1, func() []B { return bs("exists", g.strKeys[0], g.strKeys[1]) })
			add(1, func() []B { return bs("mset", g.strKeys[0], g.uniq(ci), g.strKeys[1], g.uniq(ci)) })
			add(1, func() []B { return bs("mget", g.strKeys[0], g.strKeys[1]) })
		}
	}
	if len(g.ctrKeys) > 0 {
		k := func() string { return pick(r, g.ctrKeys) }
		add(3, func() []B { return bs("incr", k()) })
		add(1, func() []B { return bs("get", k()) })
		add(1, func() []B { return bs("decr", k()) })
	}
	if len(g.lists) > 0 {
		k := func() string { return pick(r, g.lists) }
		add(3, func() []B { return bs("rpush", k(), g.uniq(ci)) })
		add(1, func() []B { return bs("lpush", k(), g.uniq(ci)) })
		add(2, func() []B { return bs("lpop", k()) })
		add(2, func() []B { return bs("lrange", k(), "0", "-1") })
		add(1, func() []B { return bs("llen", k()) })
	}
	if len(g.sets) > 0 {
		k := func() string { return pick(r, g.sets) }
		add(3, func() []B { return bs("sadd", k(), g.uniq(ci)) })
		add(2, func() []B { return bs("smembers", k()) })
		add(1, func() []B { return bs("scard", k()) })
	}
	if len(g.hashes) > 0 {
		k := func() string { return pick(r, g.hashes) }
		f := func() string { return pick(r, []string{"f1", "f2"}) }
		add(3, func() []B { return bs("hset", k(), f(), g.uniq(ci)) })
		add(2, func() []B { return bs("hget", k(), f()) })
		add(1, func() []B { return bs("hgetall", k()) })
	}
	total := 0
	for _, a := range alts {
		total += a.w
	}
	x := r.Intn(total)
	for _, a := range alts {
		if x < a.w {
			return a.f()
		}
		x -= a.w
	}
	return bs("get", "s0")
}

func genWorkload(r *core.Rand, av avoidSet, nclients, totalOps int, listsOK bool, pad int) []ClientProg {
	g := &wlGen{r: r, pad: pad}
	// swarm: which families this run uses
	fam := r.Intn(1 << 5)
	if fam == 0 {
		fam = 1
	}
	if fam&1 != 0 || true {
		for i := 0; i < 1+r.Intn(2); i++ {
			g.strKeys = append(g.strKeys, fmt.Sprintf("s%d", i))
		}
	}
	if fam&2 != 0 {
		g.ctrKeys = []string{"n0"}
	}
	if fam&4 != 0 && listsOK && !av["snapshot-of-list"] {
		g.lists = []string{"l0"}
	}
	if fam&8 != 0 {
		g.sets = []string{"t0"}
	}
	if fam&16 != 0 {
		g.hashes = []string{"h0"}
	}
	var progs []ClientProg
	for ci := 0; ci < nclients; ci++ {
		n := totalOps / nclients
		if n < 2 {
			n = 2
		}
		n = n/2 + r.Intn(n/2+1)
		p := ClientProg{Name: fmt.Sprintf("c%d", ci), Sticky: r.Bool(0.5)}
		for i := 0; i < n; i++ {
			p.Cmds = append(p.Cmds, Cmd{Args: g.cmd(ci)})
		}
		progs = append(progs, p)
	}
	return progs
}

// prescreen runs the merged workload (round robin) through a standalone manager
// and the reference model and drops every command on which the standalone
// server itself disagrees with the reference: such defects belong to the
// data-type properties, not to the cluster properties.
func prescreen(sc *Scenario) int {
	ndb := sc.Knobs.Databases
	if ndb < 1 {
		ndb = 1
	}
	cfg := &config.Config{ShardNum: 8, Databases: ndb, ChanBufferSize: 10, LogLevel: "panic"}
	config.Configures = cfg
	registerCommands()
	dropped := 0
	for pass := 0; pass < 40; pass++ {
		mgr := server.NewManager(cfg)
		m := refmodel.New(ndb)
		now := time.Date(2000, 1, 1, 0, 0, 0, 0, time.UTC)
		bad := map[[2]int]bool{}
		pos := make([]int, len(sc.Clients))
		for progress := true; progress; {
			progress = false
			for ci := range sc.Clients {
				if pos[ci] >= len(sc.Clients[ci].Cmds) {
					continue
				}
				progress = true
				a := sc.Clients[ci].Cmds[pos[ci]].Args
				if len(a) == 0 || touchesTTLKey(a) {
					pos[ci]++ // idle stretches and time-dependent commands are not pre-screened
					continue
				}
				if isMgmt(a) {
					pos[ci]++ // management commands are not data commands: kept as they are
					continue
				}
				ok := false
				func() {
					defer func() { recover() }()
					res := mgr.ExecCommand(context.Background(), argv(a), nil)
					if res == nil {
						return
					}
					b := res.ToBytes()
					v, n, st := rd.Decode(b)
					if st != rd.OK || n != len(b) {
						return
					}
					ok, _ = m.Apply(0, argv(a), now, v)
				}()
				if !ok {
					bad[[2]int{ci, pos[ci]}] = true
				}
				pos[ci]++
			}
			if len(bad) > 0 {
				break
			}
		}
		if len(bad) == 0 {
			return dropped
		}
		for ci := range sc.Clients {
			var kept []Cmd
			for i, c := range sc.Clients[ci].Cmds {
				if bad[[2]int{ci, i}] {
					dropped++
					continue
				}
				kept = append(kept, c)
			}
			sc.Clients[ci].Cmds = kept
		}
	}
	return dropped
}

func genC07(rng *core.Rand, env *core.Env, run int) *Scenario {
	r := rng
	av := avoidFor(env, run)
	nodes := pickNodes(r)
	sc := &Scenario{Kind: "C07", Knobs: baseKnobs(r, nodes), Aim: isAimRun(run)}
	k := &sc.Knobs
	variant := pick(r, []string{"fault-free", "net", "net", "partition", "partition", "crash", "crash", "all", "all", "rconf", "snapshots"})
	if v := env.Params["variant"]; v != "" {
		variant = v
	}
	if nodes == 1 && (variant == "partition" || variant == "rconf") {
		variant = "crash"
	}
	sc.Variant = variant
	// snapshots / compaction inside short runs
	if r.Bool(0.6) || variant == "snapshots" {
		snapKnobs(r, k)
	}
	if av["follower-needed-msgsnap"] || (av["restart-after-snapshot"] && (variant == "crash" || variant == "all")) {
		k.SnapCount, k.CatchUpN = 10000, 10000
	}
	f := &sc.Faults
	f.MinorityOnly = true
	f.HoldMin, f.HoldMax = 20, 200
	f.MaxFault = 1 + r.Intn(4)
	f.RatePM = pick(r, []int{5, 10, 20, 40})
	switch variant {
	case "net":
		k.DropPM, k.ReorderPM, k.UnreachPM = pick(r, []int{10, 30, 80, 150}), pick(r, []int{0, 50, 200}), 300
		if r.Bool(0.3) {
			f.Kinds = []string{"slow-node"}
		}
	case "partition":
		f.Kinds = []string{"partition", "isolate-leader", "isolate-leader"}
		k.DropPM, k.ReorderPM, k.UnreachPM = pick(r, []int{0, 0, 20}), pick(r, []int{0, 50}), 300
	case "crash":
		f.Kinds = []string{"crash", "crash-seam", "crash-seam"}
	case "all":
		f.Kinds = []string{"partition", "isolate-leader", "crash", "crash-seam", "slow-node"}
		k.DropPM, k.ReorderPM, k.UnreachPM = pick(r, []int{0, 20, 60}), pick(r, []int{0, 50, 200}), 300
	case "rconf":
		var kinds []string
		if !av["after-rconf-add"] {
			kinds = append(kinds, "rconf-add")
		}
		if !av["after-rconf-delete"] {
			kinds = append(kinds, "rconf-delete")
		}
		if len(kinds) == 0 {
			sc.Variant = "fault-free"
		} else {
			f.Kinds = []string{pick(r, kinds)}
			f.DeleteLowIDOnly = av["after-rconf-delete-highest-id"]
			if f.Kinds[0] == "rconf-add" && av["after-rconf-add-with-snapshot"] {
				k.SnapCount, k.CatchUpN = 10000, 10000
			}
		}
		f.MaxFault = 1
		f.RatePM = 30
	}
	if sc.Variant == "fault-free" || sc.Variant == "snapshots" {
		// nothing is lost, so every command must be answered: never give up
		k.OpTimeoutTicks = 1 << 20
	}
	sectorLossKnob(k, av)
	nclients := 2 + r.Intn(4)
	total := pick(r, []int{12, 20, 30, 45, 60})
	if ((variant == "crash" || variant == "all") && r.Bool(0.35)) || env.Params["directed"] != "" {
		nclients, total = directedPlan(r, sc)
		if d := env.Params["directed"]; d != "" {
			sc.Variant = strings.Replace(sc.Variant, sc.Faults.Directed, d, 1)
			sc.Faults.Directed = d
		}
	}
	pad := directedKnobs(sc)
	if sc.Variant == "fault-free" && sc.Faults.Directed == "" && r.Bool(0.12) {
		// values of several hundred KB from several clients at once: whatever bounds
		// the leader keeps on proposed-but-unapplied data, an accepted command is
		// answered (nothing is lost in this configuration)
		pad = 300000 + r.Intn(400000)
		total = 6 + r.Intn(8)
		nclients = 2 + r.Intn(2)
		k.SegmentKiB = 64
		k.LargeValues = true
	}
	sc.Clients = genWorkload(r, av, nclients, total, true, pad)
	// management commands in the shapes a careless operator produces: in the
	// configurations that change the membership anyway, and in a share of the rest
	if sc.Faults.Directed == "" && (sc.Variant == "rconf" || r.Bool(0.12)) {
		if r.Bool(0.35) {
			k.Databases = 2 + r.Intn(2)
		}
		quiet := sc.Variant == "rconf" || sc.Variant == "fault-free" || sc.Variant == "snapshots"
		sprinkleMgmt(r, sc, 1+r.Intn(4), quiet && len(sc.Faults.Kinds) == 0 && k.DropPM == 0 && r.Bool(0.3))
	}
	ttlShare(r, sc, av, ttlShareOf(env))
	nondetShare(r, sc, av, 0.12)
	prescreen(sc)
	return sc
}

func ttlShareOf(env *core.Env) float64 {
	if env.Params["ttl"] == "1" {
		return 1
	}
	return 0.15
}

// ttlShare turns a share of the runs into runs whose clients also issue
// time-dependent commands on keys of their own, with idle stretches.
func ttlShare(r *core.Rand, sc *Scenario, av avoidSet, share float64) {
	if sc.Faults.Directed != "" || !r.Bool(share) || av["ttl-command"] || sc.Knobs.Databases > 1 {
		return // (the reply oracle for deadlines knows one database)
	}
	crashes := false
	for _, k := range sc.Faults.Kinds {
		if strings.HasPrefix(k, "crash") {
			crashes = true
		}
	}
	if av["ttl-command-replayed-at-restart"] && (crashes || sc.Variant == "clean-restart") {
		return
	}
	sc.Knobs.TTL = true
	if sc.Knobs.MaxSteps < 5000 {
		sc.Knobs.MaxSteps = 5000
	}
	for ci := range sc.Clients {
		ttlProgram(r, ci, &sc.Clients[ci])
	}
}

func genC08(rng *core.Rand, env *core.Env, run int) *Scenario {
	r := rng
	av := avoidFor(env, run)
	nodes := pickNodes(r)
	sc := &Scenario{Kind: "C08", Knobs: baseKnobs(r, nodes), Aim: isAimRun(run)}
	k := &sc.Knobs
	variant := pick(r, []string{"fault-free", "clean-restart", "clean-restart", "crash", "crash", "crash", "crash-net"})
	if v := env.Params["variant"]; v != "" {
		variant = v
	}
	sc.Variant = variant
	snapKnobs(r, k)
	if av["follower-needed-msgsnap"] || (av["restart-after-snapshot"] && variant != "fault-free") {
		k.SnapCount, k.CatchUpN = 10000, 10000
	}
	f := &sc.Faults
	f.HoldMin, f.HoldMax = 10, 150
	f.MaxFault = 1 + r.Intn(5)
	f.RatePM = pick(r, []int{5, 10, 20, 40})
	switch variant {
	case "crash":
		f.Kinds = []string{"crash", "crash-seam", "crash-seam", "crash-all"}
	case "crash-net":
		f.Kinds = []string{"crash", "crash-seam", "crash-all", "partition", "isolate-leader"}
		k.DropPM, k.ReorderPM, k.UnreachPM = pick(r, []int{0, 20, 60}), pick(r, []int{0, 50}), 300
	}
	if sc.Variant == "fault-free" || sc.Variant == "clean-restart" {
		k.OpTimeoutTicks = 1 << 20
	}
	sectorLossKnob(k, av)
	nclients := 1 + r.Intn(4)
	total := pick(r, []int{12, 20, 30, 45, 60})
	if ((variant == "crash" || variant == "crash-net") && r.Bool(0.4)) || env.Params["directed"] != "" {
		nclients, total = directedPlan(r, sc)
		if d := env.Params["directed"]; d != "" {
			sc.Variant = strings.Replace(sc.Variant, sc.Faults.Directed, d, 1)
			sc.Faults.Directed = d
		}
	}
	sc.Clients = genWorkload(r, av, nclients, total, true, directedKnobs(sc))
	prescreen(sc)
	return sc
}

// ---- C14 ------------------------------------------------------------------------------

type c14Gen struct {
	r          *core.Rand
	feats      map[string]bool
	seq        int
	pendingPub string // channel a SUBSCRIBE was just generated for
	pendingHow int
	dbs        int // numbered databases of this run (SELECT is generated when > 1)
	inShape    bool
}

// word produces an argument payload carrying (some of) the run's features.
func (g *c14Gen) word() string {
	r := g.r
	g.seq++
	base := fmt.Sprintf("v%d", g.seq)
	var opts []string
	if g.feats["space"] {
		opts = append(opts, base+" x", " "+base, base+" ", "a  b")
	}
	if g.feats["empty"] {
		opts = append(opts, "")
	}
	if g.feats["crlf"] {
		opts = append(opts, base+"\r\n", "\n"+base, base+"\rz", "\r\n")
	}
	if g.feats["nonutf8"] {
		opts = append(opts, base+"\xff", "\xc3\x28"+base, "\x80", base+"\x00z")
	}
	if g.feats["case"] {
		opts = append(opts, "V"+base, strings.ToUpper(base)+"x")
	}
	if len(opts) == 0 || r.Bool(0.4) {
		return base
	}
	return pick(r, opts)
}

func (g *c14Gen) key(prefix string) string {
	r := g.r
	k := prefix + itoa(r.Intn(2))
	if r.Bool(0.15) {
		if g.feats["space"] {
			return k + " k"
		}
		if g.feats["case"] {
			return strings.ToUpper(k)
		}
		if g.feats["nonutf8"] {
			return k + "\xfe"
		}
		if g.feats["crlf"] {
			return k + "\n"
		}
	}
	return k
}

func (g *c14Gen) name(n string) string {
	if g.feats["case"] && g.r.Bool(0.3) {
		return spell(g.r, n, 1+g.r.Intn(4))
	}
	return n
}

// spell writes a command name in one of the letter cases a client may use:
// 0 lower, 1 UPPER, 2 Capitalised, 3 aLtErNaTiNg, 4 random per letter.
func spell(r *core.Rand, n string, how int) string {
	b := []byte(strings.ToLower(n))
	up := func(i int) {
		if b[i] >= 'a' && b[i] <= 'z' {
			b[i] -= 'a' - 'A'
		}
	}
	switch how {
	case 1:
		return strings.ToUpper(n)
	case 2:
		up(0)
	case 3:
		for i := 1; i < len(b); i += 2 {
			up(i)
		}
	case 4:
		for i := range b {
			if r.Bool(0.5) {
				up(i)
			}
		}
	}
	return string(b)
}

// pubsub: with the feature "filtered" the program carries the commands the
// cluster filter refuses, PUBLISH and SUBSCRIBE, in every letter case, on a
// small channel set, and in particular SUBSCRIBE followed by a PUBLISH on the
// same channel (what a replica would do with them if they ever got through).
func (g *c14Gen) pubsub() []B {
	r := g.r
	ch := func() string { return "ch" + itoa(r.Intn(2)) }
	if g.pendingPub != "" {
		c := g.pendingPub
		g.pendingPub = ""
		how := g.pendingHow // mostly the spelling style of the SUBSCRIBE before it
		if r.Bool(0.3) {
			how = r.Intn(5)
		}
		return bs(spell(r, "publish", how), c, g.word())
	}
	if r.Bool(0.6) {
		g.pendingHow = r.Intn(5)
		a := bs(spell(r, "subscribe", g.pendingHow), ch())
		if r.Bool(0.25) {
			a = append(a, B(ch()))
		}
		if r.Bool(0.75) {
			g.pendingPub = string(a[1])
		}
		return a
	}
	return bs(spell(r, "publish", r.Intn(5)), ch(), g.word())
}

// selectCmd: SELECT with a valid index mostly, now and then one that must be
// refused (out of range, malformed) and leave the selection where it was.
func (g *c14Gen) selectCmd() []B {
	r := g.r
	name := spell(r, "select", r.Intn(5))
	if r.Bool(0.8) {
		return bs(name, itoa(r.Intn(g.dbs)))
	}
	switch r.Intn(3) {
	case 0:
		return bs(name, pick(r, []string{itoa(g.dbs), itoa(g.dbs + 7), "-1", "99999999999999999999"}))
	case 1:
		return bs(name, pick(r, []string{"01", "+1", "x", "", "1 ", "0x1"}))
	}
	return pick(r, [][]B{bs(name), bs(name, "0", "1")})
}

func (g *c14Gen) cmd() []B {
	r := g.r
	if (g.dbs > 1 && r.Bool(0.18)) || (g.dbs == 1 && r.Bool(0.04)) {
		// (with the single database of a shipped cluster configuration every index
		// but 0 must be refused, exactly as by a standalone server with one database)
		return g.selectCmd()
	}
	if g.feats["filtered"] && (g.pendingPub != "" || r.Bool(0.2)) {
		return g.pubsub()
	}
	w := g.word
	n := g.name
	if !g.inShape && r.Bool(0.06) {
		// shapes a standalone server refuses: the cluster path must refuse them alike
		// (the empty array, a missing or surplus argument, an unknown command name)
		g.inShape = true
		a := g.cmd()
		g.inShape = false
		switch r.Intn(4) {
		case 0:
			return []B{}
		case 1:
			if len(a) > 1 {
				return a[:len(a)-1]
			}
			return a
		case 2:
			return append(a, B(w()))
		default:
			return bs(n("nosuchcmd"), g.key("s"), w())
		}
	}
	if r.Bool(0.3) {
		return g.moreCmd()
	}
	switch r.Intn(40) {
	case 0, 1, 2:
		return bs(n("set"), g.key("s"), w())
	case 3, 4:
		return bs(n("get"), g.key("s"))
	case 5:
		return bs(n("append"), g.key("s"), w())
	case 6:
		return bs(n("strlen"), g.key("s"))
	case 7:
		return bs(n("incr"), g.key("n"))
	case 8:
		return bs(n("incrby"), g.key("n"), pick(r, []string{"5", "-3", "10"}))
	case 9:
		return bs(n("mset"), g.key("s"), w(), g.key("s"), w())
	case 10:
		return bs(n("mget"), g.key("s"), g.key("s"))
	case 11:
		return bs(n("setnx"), g.key("s"), w())
	case 12:
		return bs(n("del"), g.key(pick(r, []string{"s", "l", "h", "t", "z"})))
	case 13:
		return bs(n("exists"), g.key(pick(r, []string{"s", "l", "h", "t"})))
	case 14:
		return bs(n("type"), g.key(pick(r, []string{"s", "l", "h", "t"})))
	case 15, 16:
		return bs(n("rpush"), g.key("l"), w(), w())
	case 17:
		return bs(n("lpush"), g.key("l"), w())
	case 18:
		return bs(n("lrange"), g.key("l"), "0", "-1")
	case 19:
		return bs(n(pick(r, []string{"lpop", "rpop"})), g.key("l"))
	case 20:
		return bs(n("llen"), g.key("l"))
	case 21:
		return bs(n("lindex"), g.key("l"), pick(r, []string{"0", "1", "-1"}))
	case 22, 23:
		return bs(n("hset"), g.key("h"), w(), w())
	case 24:
		return bs(n("hgetall"), g.key("h"))
	case 25:
		return bs(n("hget"), g.key("h"), w())
	case 26:
		return bs(n("hkeys"), g.key("h"))
	case 27:
		return bs(n("hlen"), g.key("h"))
	case 28, 29:
		return bs(n("sadd"), g.key("t"), w(), w())
	case 30:
		return bs(n("smembers"), g.key("t"))
	case 31:
		return bs(n("scard"), g.key("t"))
	case 32:
		return bs(n("sismember"), g.key("t"), w())
	case 33:
		return bs(n("srem"), g.key("t"), w())
	case 34:
		return bs(n("zadd"), g.key("z"), pick(r, []string{"1", "2", "3.5"}), w())
	case 35:
		return bs(n("zrange"), g.key("z"), "0", "10")
	case 36:
		return bs(n("keys"), "*")
	case 37:
		return bs(n("rename"), g.key("s"), g.key("s"))
	case 38:
		return bs(n("xadd"), g.key("x"), fmt.Sprintf("%d-1", 1+g.seq), w(), w())
	case 39:
		return bs(n("ping"))
	}
	return bs("ping")
}

// moreCmd: the rest of the command table (deterministic commands only), so that
// "for every command" is not limited to the forty most common shapes.
func (g *c14Gen) moreCmd() []B {
	r := g.r
	w := g.word
	n := g.name
	idx := func() string { return pick(r, []string{"0", "1", "-1", "2", "-2", "5"}) }
	switch r.Intn(40) {
	case 0:
		return bs(n("lset"), g.key("l"), idx(), w())
	case 1:
		return bs(n("lrem"), g.key("l"), pick(r, []string{"0", "1", "-1"}), w())
	case 2:
		return bs(n("ltrim"), g.key("l"), idx(), idx())
	case 3:
		return bs(n("lpos"), g.key("l"), w())
	case 4:
		return bs(n("lmove"), g.key("l"), g.key("l"), pick(r, []string{"left", "right", "LEFT"}), pick(r, []string{"left", "right", "RIGHT"}))
	case 5:
		return bs(n(pick(r, []string{"lpushx", "rpushx"})), g.key("l"), w())
	case 6:
		return bs(n(pick(r, []string{"lpop", "rpop"})), g.key("l"), pick(r, []string{"1", "2", "0"}))
	case 7:
		return bs(n("hdel"), g.key("h"), w(), w())
	case 8:
		return bs(n("hincrby"), g.key("h"), "n", pick(r, []string{"1", "-3", "9223372036854775807"}))
	case 9:
		return bs(n("hincrbyfloat"), g.key("h"), "fl", pick(r, []string{"0.5", "-1.25", "2"}))
	case 10:
		return bs(n("hsetnx"), g.key("h"), w(), w())
	case 11:
		return bs(n("hmget"), g.key("h"), w(), w(), "n")
	case 12:
		return bs(n("hvals"), g.key("h"))
	case 13:
		return bs(n("hexists"), g.key("h"), w())
	case 14:
		return bs(n("hstrlen"), g.key("h"), w())
	case 15:
		return bs(n("smove"), g.key("t"), g.key("t"), w())
	case 16:
		return bs(n(pick(r, []string{"sunion", "sinter", "sdiff"})), g.key("t"), g.key("t"))
	case 17:
		return bs(n(pick(r, []string{"sunionstore", "sinterstore", "sdiffstore"})), g.key("t"), g.key("t"), g.key("t"))
	case 18:
		return bs(n("zrem"), g.key("z"), w())
	case 19:
		return bs(n("zrank"), g.key("z"), w())
	case 20:
		return bs(n("zrange"), g.key("z"), "0", "-1", pick(r, []string{"withscores", "rev", "REV"}))
	case 21:
		return bs(n("zadd"), g.key("z"), pick(r, []string{"nx", "xx", "gt", "ch", "incr"}), pick(r, []string{"1", "2.5", "-1"}), w())
	case 22:
		return bs(n("xrange"), g.key("x"), "-", "+")
	case 23:
		return bs(n("xadd"), g.key("x"), pick(r, []string{"maxlen", "MAXLEN"}), "2", fmt.Sprintf("%d-2", 1+g.seq), w(), w())
	case 24:
		return bs(n("setrange"), g.key("s"), pick(r, []string{"0", "3", "10"}), w())
	case 25:
		return bs(n("getrange"), g.key("s"), idx(), idx())
	case 26:
		return bs(n("incrbyfloat"), g.key("n"), pick(r, []string{"0.5", "-2.25", "3"}))
	case 27:
		return bs(n(pick(r, []string{"decr", "incr"})), g.key("n"))
	case 28:
		return bs(n("decrby"), g.key("n"), pick(r, []string{"4", "-2"}))
	case 29:
		return bs(n("set"), g.key("s"), w(), pick(r, []string{"nx", "xx", "get", "NX", "GET"}))
	case 30:
		return bs(n("del"), g.key("s"), g.key("l"), g.key("h"))
	case 31:
		return bs(n("exists"), g.key("s"), g.key("s"), g.key("t"))
	case 32:
		return bs(n("rename"), g.key(pick(r, []string{"l", "h", "t", "z"})), g.key(pick(r, []string{"l", "h", "s"})))
	case 33:
		return bs(n("keys"), pick(r, []string{"*", "s*", "?0", "[a-z]*", "*\\**"}))
	case 34:
		return bs(n("hkeys"), g.key("h"))
	case 35:
		return bs(n("lindex"), g.key("l"), idx())
	case 36:
		return bs(n("lrange"), g.key("l"), idx(), idx())
	case 37:
		return bs(n("sismember"), g.key("t"), w())
	case 38:
		return bs(n("persist"), g.key("s"))
	default:
		return bs(n("ttl"), g.key("s"))
	}
}

func genC14(rng *core.Rand, env *core.Env, run int) *Scenario {
	r := rng
	av := avoidFor(env, run)
	variant := pick(r, []string{"1-node", "3-node", "3-node", "3-node-faulty", "3-node-faulty"})
	if v := env.Params["variant"]; v != "" {
		variant = v
	}
	nodes := 3
	if variant == "1-node" {
		nodes = 1
	}
	sc := &Scenario{Kind: "C14", Variant: variant, Knobs: baseKnobs(r, nodes), Aim: isAimRun(run)}
	k := &sc.Knobs
	k.OpTimeoutTicks = 1 << 20
	if variant == "3-node-faulty" {
		k.OpTimeoutTicks = 50
		k.DropPM, k.ReorderPM, k.UnreachPM = pick(r, []int{20, 60, 120}), pick(r, []int{0, 100}), 300
		sc.Faults = FaultPlan{Kinds: []string{"isolate-leader"}, RatePM: 15, MaxFault: 1, HoldMin: 40, HoldMax: 200, MinorityOnly: true}
	}
	g := &c14Gen{r: r, feats: map[string]bool{}, dbs: 1}
	// a share of the runs has several numbered databases and interleaves SELECT
	if r.Bool(0.3) {
		g.dbs = 2 + r.Intn(3)
		k.Databases = g.dbs
	}
	// swarm over argument features; a third of the runs is plain
	type feat struct{ name, class string }
	all := []feat{{"space", "arg-with-space"}, {"empty", "empty-arg"}, {"crlf", "arg-with-crlf"}, {"nonutf8", "non-utf8-arg"}, {"case", "mixed-case"}, {"filtered", "filtered-command"}}
	// a run that aims at listed classes takes one of them more often than not
	var listed []feat
	if isAimRun(run) {
		for _, f := range all {
			if knownClass(env, f.class) {
				listed = append(listed, f)
			}
		}
	}
	if len(listed) > 0 && r.Bool(0.6) {
		g.feats[pick(r, listed).name] = true
	} else if !r.Bool(0.3) {
		nf := 1
		if r.Bool(0.15) {
			nf = 2
		}
		for i := 0; i < nf; i++ {
			f := pick(r, all)
			if !av[f.class] {
				g.feats[f.name] = true
			}
		}
	}
	n := 6 + r.Intn(25)
	p := ClientProg{Name: "c0", Sticky: r.Bool(0.5)}
	for i := 0; i < n; i++ {
		p.Cmds = append(p.Cmds, Cmd{Args: g.cmd()})
	}
	sc.Clients = []ClientProg{p}
	if variant != "3-node-faulty" {
		ttlShare(r, sc, av, ttlShareOf(env))
	}
	return sc
}

// ---- race sweep ---------------------------------------------------------------------

// genRace: several clients of ONE node send simple commands in the same
// window (Burst), no faults.  Under -race any unsynchronised access shared by
// the connection handlers and the apply loop is reported.
func genRace(rng *core.Rand, env *core.Env, run int) *Scenario {
	r := rng
	av := avoidFor(env, run)
	nodes := pick(r, []int{1, 3, 3})
	if isAimRun(run) && run%16 == 15 {
		nodes = 3 // the second listed shape needs clients on several nodes
	}
	sc := &Scenario{Kind: env.Property, Variant: "race", Knobs: baseKnobs(r, nodes), Aim: isAimRun(run)}
	k := &sc.Knobs
	k.HandlerGate = false // free-running phase: nobody would release a parked handler
	k.OpTimeoutTicks = 1 << 20
	k.WTick = 3
	switch {
	case av["concurrent-clients-one-node"] && av["clients-on-several-nodes"]:
		k.OneAtATime = true
	case av["concurrent-clients-one-node"]:
		k.OnePerNode = true
	case sc.Aim && run%16 == 15:
		k.OnePerNode = true // aim at the second listed shape
	default:
		k.Burst = true
	}
	nclients := 2 + r.Intn(4)
	if k.OnePerNode {
		nclients = 3 + r.Intn(3)
		k.WClient = 30 // keep several nodes busy at once
	}
	target := 1 + r.Intn(nodes)
	seq := 0
	for ci := 0; ci < nclients; ci++ {
		p := ClientProg{Name: fmt.Sprintf("c%d", ci), Sticky: true}
		for i := 0; i < 2+r.Intn(5); i++ {
			seq++
			n := target
			if !k.Burst {
				n = 0
			}
			key := pick(r, []string{"s0", "s1"})
			if r.Bool(0.6) {
				p.Cmds = append(p.Cmds, Cmd{Args: bs("set", key, fmt.Sprintf("c%dv%d", ci, seq)), Node: n})
			} else {
				p.Cmds = append(p.Cmds, Cmd{Args: bs("get", key), Node: n})
			}
		}
		sc.Clients = append(sc.Clients, p)
	}
	return sc
}
