package e2

import (
	"fmt"

	"go.etcd.io/etcd/raft/v3/raftpb"
)

// Directed adversaries.  Uniformly random faults almost never line up the few
// events that expose a node answering *before* it has persisted what it
// answers for (an append acknowledged, or a vote granted, ahead of the WAL
// write).  A directed plan choreographs exactly that situation; every choice
// it makes (which follower, when, what the crash loses) is drawn from the tape,
// and every action is an ordinary fault of the fault model (partition, crash at
// a seam, restart from the crash image, heal), so a run still replays from
// (scenario, tape) and the ordinary oracles judge it.
//
// ack-then-crash:
//
//	0  wait for a leader L and a few acknowledged commands
//	1  cut the other follower(s) S off, so that L's quorum for the next writes
//	   is {L, F}; when the next MsgApp carrying a command reaches F, arm a
//	   crash of F at the before-sync seam of that very Ready (between what F
//	   says and what F has on disk); the crash loses F's unsynced sectors
//	2  let whatever F sent before dying arrive; wait for a client
//	   acknowledgement (there is none if F only speaks after saving)
//	3  isolate L (and kill it in half of the runs), restart F from its crash
//	   image, reconnect F and S: a quorum that may never have seen the
//	   acknowledged write elects a leader and serves
//	4  heal everything, bring L back; the usual finale follows
//
// vote-then-crash:
//
//	0  before the first election: cut candidates A and B off from each other,
//	   leave the swing voter V connected to both
//	1  when the first MsgVote reaches V, arm a crash of V at the before-sync
//	   seam of that Ready (vote answered, not yet persisted); lose everything
//	   unsynced; cut V off from the winner so that V does not learn who leads
//	2  restart V at once: it has forgotten term and vote; the other candidate
//	   asks for the same term and V grants again -> two leaders in one term
//	3  reconnect V with both leaders, let clients write through both
//	4  heal
//
// vote-then-torn-crash (a node that forgets its synced term/vote/commit when its
// WAL tail is torn):
//
//	0  wait for a leader B and a few acknowledged commands (client values are
//	   large in this plan, so that a WAL record spans several sectors)
//	1  isolate B; the two followers elect a leader A of term T (the other one,
//	   V, has granted and synced its vote for A in T)
//	2  clients write through A; when the first MsgApp carrying a command
//	   reaches V, kill V at the before-sync seam of that Ready and lose only
//	   the LAST unsynced sector: the record is torn, the restart must repair
//	   the WAL; cut V off from A
//	3  restart V from that image and reconnect it with B, the deposed leader
//	   of the older term: a V that still knows term T makes B step down; a V
//	   that has forgotten its hard state follows B again, and B commits and
//	   acknowledges writes in the old term at indexes A has already used
//	4  heal
type directed struct {
	kind     string
	phase    int
	L, F     int
	S        []int
	A, B, V  int
	lose     string
	warm     int
	armed    bool
	start    int
	deadline int
	ackedAt  int
	killL    bool
	allowed  map[int]bool // nil = no restriction; empty = nobody
	winner   int
	termA    uint64
}

func (s *Sim) initDirected() {
	k := s.sc.Faults.Directed
	if k == "" || len(s.nodes) < 3 {
		return
	}
	d := &directed{kind: k}
	switch s.tape.Draw(4) {
	case 0:
		d.lose = "" // the tape decides sector by sector at the crash
	default:
		d.lose = "all"
	}
	if s.k.SectorLoss == "none" {
		d.lose = "none"
	}
	d.warm = 1 + s.tape.Draw(4)
	d.killL = s.tape.Draw(2) == 1
	if k == "vote-then-crash" {
		// roles among the first three nodes
		perm := [][3]int{{1, 2, 3}, {1, 3, 2}, {2, 1, 3}, {2, 3, 1}, {3, 1, 2}, {3, 2, 1}}[s.tape.Draw(6)]
		d.A, d.B, d.V = perm[0], perm[1], perm[2]
		s.block2(d.A, d.B)
		for _, ns := range s.nodes {
			if ns.id > 3 {
				s.isolate(ns.id)
			}
		}
		s.partitioned, s.partHoldTill = true, 1<<30
		s.fault("directed-vote-then-crash")
		s.res.FaultsAny = true
		s.trace("directed vote-then-crash: candidates n%d n%d voter n%d", d.A, d.B, d.V)
		d.phase = 1
		d.deadline = 600
	}
	s.dir = d
}

func (s *Sim) block2(a, b int) {
	s.blocked[[2]uint64{uint64(a), uint64(b)}] = true
	s.blocked[[2]uint64{uint64(b), uint64(a)}] = true
}

func (s *Sim) unblock2(a, b int) {
	delete(s.blocked, [2]uint64{uint64(a), uint64(b)})
	delete(s.blocked, [2]uint64{uint64(b), uint64(a)})
}

func (s *Sim) isolate(id int) {
	for _, o := range s.nodes {
		if o.id != id {
			s.block2(id, o.id)
		}
	}
}

func hasCommand(ents []raftpb.Entry) bool {
	for _, e := range ents {
		if e.Type == raftpb.EntryNormal && len(e.Data) > 0 {
			return true
		}
	}
	return false
}

// dirOnDeliver is called right before a message is handed to its destination.
func (s *Sim) dirOnDeliver(m raftpb.Message, dst *nodeState) {
	d := s.dir
	if d == nil || d.armed {
		return
	}
	if armPhase := map[string]int{"ack-then-crash": 1, "vote-then-crash": 1, "vote-then-torn-crash": 2}[d.kind]; d.phase != armPhase {
		return
	}
	switch d.kind {
	case "ack-then-crash":
		if int(m.To) != d.F || m.Type != raftpb.MsgApp || !hasCommand(m.Entries) || int(m.From) != d.L {
			return
		}
	case "vote-then-crash":
		if int(m.To) != d.V || m.Type != raftpb.MsgVote {
			return
		}
		d.winner = int(m.From)
	case "vote-then-torn-crash":
		if d.A == 0 || int(m.To) != d.V || int(m.From) != d.A || m.Type != raftpb.MsgApp || !hasCommand(m.Entries) {
			return
		}
		size := 0
		for _, e := range m.Entries {
			size += len(e.Data)
		}
		if size < 2*sector {
			return // too small to be torn across sectors: wait for a larger one
		}
	default:
		return
	}
	lose := d.lose
	if d.kind == "vote-then-torn-crash" {
		lose = "torn"
	}
	s.mu.Lock()
	dst.inc.arm = &crashArm{kind: seamBeforeSync, countdown: 1, lose: lose}
	s.mu.Unlock()
	d.armed = true
	s.fault("crash-armed")
	s.fault("directed-crash-armed-on-" + map[string]string{"ack-then-crash": "append", "vote-then-crash": "vote", "vote-then-torn-crash": "append-after-vote"}[d.kind])
	s.trace("directed: arm crash of n%d at before-sync of the Ready handling %s", dst.id, msgString(m))
}

func (s *Sim) dirAbort(why string) {
	d := s.dir
	s.trace("directed: abandoned (%s)", why)
	s.probe("directed-abandoned-" + why)
	d.phase = 9
	d.allowed = nil
	if s.partitioned {
		s.heal()
	}
	for _, ns := range s.nodes {
		if ns.down && ns.holdTill > s.step {
			ns.holdTill = s.step
		}
	}
}

// dirStep advances the directed plan; true = it used this step.
func (s *Sim) dirStep() bool {
	d := s.dir
	if d == nil || d.phase >= 9 {
		return false
	}
	if d.kind == "vote-then-crash" {
		return s.dirStepVote()
	}
	if d.kind == "vote-then-torn-crash" {
		return s.dirStepTorn()
	}
	switch d.phase {
	case 0:
		l := s.leaderID()
		if l == 0 || s.res.Acked < d.warm || s.liveCount() < len(s.nodes) {
			if s.step > 1200 {
				s.dirAbort("no-stable-leader")
			}
			return false
		}
		for _, ns := range s.nodes {
			if !ns.view.ok || ns.view.lead != uint64(l) {
				return false
			}
		}
		d.L = l
		var others []int
		for _, ns := range s.nodes {
			if ns.id != l {
				others = append(others, ns.id)
			}
		}
		fi := s.tape.Draw(len(others))
		d.F = others[fi]
		for i, id := range others {
			if i != fi {
				d.S = append(d.S, id)
				s.isolate(id)
			}
		}
		s.partitioned, s.partHoldTill = true, 1<<30
		d.allowed = map[int]bool{d.L: true, d.F: true}
		d.phase, d.start = 1, s.step
		s.res.FaultsAny = true
		s.fault("directed-ack-then-crash")
		s.fault("partition")
		s.journal(s.deathSig(), "directed ack-then-crash: leader n%d follower n%d cut off %v", d.L, d.F, d.S)
		s.trace("directed ack-then-crash: L=n%d F=n%d S=%v lose=%q", d.L, d.F, d.S, d.lose)
		return true
	case 1:
		f := s.nodes[d.F-1]
		if f.down {
			d.phase, d.ackedAt, d.deadline = 2, s.res.Acked, s.step+120
			d.allowed = map[int]bool{}
			f.holdTill = 1 << 30 // the plan restarts it
			s.fault("directed-follower-killed-between-answer-and-save")
			return false
		}
		if s.leaderID() != d.L || s.step > d.start+500 {
			s.dirAbort("leader-changed-or-no-append")
		}
		return false
	case 2:
		if s.res.Acked <= d.ackedAt && s.step < d.deadline {
			return false
		}
		if s.res.Acked > d.ackedAt {
			s.probe("directed-write-acknowledged-after-follower-crash")
		}
		// L loses contact with everybody; F comes back from its crash image and
		// finds S again
		s.isolate(d.L)
		for _, id := range d.S {
			s.unblock2(d.F, id)
			for _, id2 := range d.S {
				if id != id2 {
					s.unblock2(id, id2)
				}
			}
		}
		s.fault("leader-isolated")
		s.journal(s.deathSig(), "directed: isolate leader n%d, restart follower n%d", d.L, d.F)
		s.trace("directed: isolate L=n%d, reconnect F=n%d with %v", d.L, d.F, d.S)
		s.restart(s.nodes[d.F-1])
		d.allowed = map[int]bool{d.F: true}
		for _, id := range d.S {
			d.allowed[id] = true
		}
		d.phase, d.ackedAt, d.deadline = 3, s.res.Acked, s.step+700
		return true
	case 3:
		if d.killL {
			d.killL = false
			if l := s.nodes[d.L-1]; s.isLive(l) {
				s.journal(s.deathSig(), "directed: kill the isolated leader n%d", d.L)
				s.mu.Lock()
				s.crashLocked(l.inc, "crash-at-quiescence")
				s.mu.Unlock()
				l.holdTill = 1 << 30
				s.fault("directed-leader-killed")
				return true
			}
		}
		if s.res.Acked <= d.ackedAt && s.step < d.deadline {
			return false
		}
		if s.res.Acked > d.ackedAt {
			s.probe("directed-new-quorum-served")
		}
		d.phase = 9
		d.allowed = nil
		s.heal()
		for _, ns := range s.nodes {
			if ns.down {
				ns.holdTill = s.step
			}
		}
		s.probe("directed-plan-completed")
		return true
	}
	return false
}

func (s *Sim) dirStepVote() bool {
	d := s.dir
	switch d.phase {
	case 1:
		v := s.nodes[d.V-1]
		if v.down {
			// the voter must not learn who won before the other candidate asks
			// (what the voter itself said before it died may still arrive)
			s.blocked[[2]uint64{uint64(d.winner), uint64(d.V)}] = true
			s.fault("directed-voter-killed-between-answer-and-save")
			s.journal(s.deathSig(), "directed: restart voter n%d", d.V)
			s.restart(v)
			d.phase, d.deadline = 2, s.step+500
			return true
		}
		if s.step > d.deadline {
			s.dirAbort("no-vote-request")
		}
		return false
	case 2:
		// two nodes that believe they lead in the same term?
		var leaders []int
		var term uint64
		for _, ns := range s.nodes {
			if ns.view.ok && ns.view.state == 2 { // raft.StateLeader
				if len(leaders) == 0 || ns.view.term == term {
					leaders = append(leaders, ns.id)
					term = ns.view.term
				}
			}
		}
		if len(leaders) >= 2 {
			s.probe("directed-two-leaders-in-one-term")
			s.unblock2(d.V, d.winner)
			d.phase, d.ackedAt, d.deadline = 3, s.res.Acked, s.step+500
			s.trace("directed: n%v lead in term %d; reconnect voter n%d with n%d", leaders, term, d.V, d.winner)
			return true
		}
		if s.step > d.deadline {
			s.dirAbort("no-second-leader")
		}
		return false
	case 3:
		if s.res.Acked < d.ackedAt+4 && s.step < d.deadline {
			return false
		}
		d.phase = 9
		s.heal()
		s.probe("directed-plan-completed")
		return true
	}
	return false
}

func (s *Sim) dirStepTorn() bool {
	d := s.dir
	switch d.phase {
	case 0:
		l := s.leaderID()
		if l == 0 || s.res.Acked < d.warm || s.liveCount() < len(s.nodes) {
			if s.step > 1200 {
				s.dirAbort("no-stable-leader")
			}
			return false
		}
		for _, ns := range s.nodes {
			if !ns.view.ok || ns.view.lead != uint64(l) || ns.view.applied != s.nodes[l-1].view.applied {
				return false
			}
		}
		d.B = l
		s.isolate(d.B)
		s.partitioned, s.partHoldTill = true, 1<<30
		d.allowed = map[int]bool{}
		d.phase, d.start = 1, s.step
		s.res.FaultsAny = true
		s.fault("directed-vote-then-torn-crash")
		s.fault("leader-isolated")
		s.journal(s.deathSig(), "directed vote-then-torn-crash: isolate leader n%d", d.B)
		s.trace("directed vote-then-torn-crash: isolate B=n%d (term %d)", d.B, s.nodes[d.B-1].view.term)
		return true
	case 1:
		// the two followers elect a leader among themselves
		for _, ns := range s.nodes {
			if ns.id != d.B && ns.view.ok && ns.view.state == 2 && ns.view.term > s.nodes[d.B-1].view.term {
				d.A, d.termA = ns.id, ns.view.term
			}
		}
		if d.A == 0 {
			if s.step > d.start+700 {
				s.dirAbort("no-new-leader")
			}
			return false
		}
		for _, ns := range s.nodes {
			if ns.id != d.B && ns.id != d.A {
				d.V = ns.id
			}
		}
		if v := s.nodes[d.V-1]; !v.view.ok || v.view.lead != uint64(d.A) {
			return false // the voter has not heard from the new leader yet
		}
		d.allowed = map[int]bool{d.A: true}
		d.phase, d.start = 2, s.step
		s.trace("directed: A=n%d leads term %d with the vote of V=n%d", d.A, d.termA, d.V)
		return false
	case 2:
		v := s.nodes[d.V-1]
		if v.down {
			// V must not re-learn the term from A
			s.block2(d.A, d.V)
			if v.image.tornInWal {
				s.fault("directed-voter-killed-with-torn-wal-record")
			} else {
				s.probe("directed-crash-left-no-torn-record")
			}
			s.journal(fmt.Sprintf("%s/restart-failed/%s", s.prop, s.imageClass(v)), "directed: restart voter n%d, reconnect it with deposed leader n%d", d.V, d.B)
			s.restart(v)
			s.unblock2(d.B, d.V)
			d.allowed = map[int]bool{d.B: true, d.V: true}
			d.phase, d.ackedAt, d.deadline = 3, s.res.Acked, s.step+700
			s.trace("directed: V=n%d restarted, reconnected with B=n%d", d.V, d.B)
			return true
		}
		if s.leaderID() == 0 || s.step > d.start+600 {
			s.dirAbort("no-append-with-command")
		}
		return false
	case 3:
		v, b := s.nodes[d.V-1], s.nodes[d.B-1]
		if v.view.ok && b.view.ok && v.view.lead == uint64(d.B) && v.view.term < d.termA && d.winner == 0 {
			d.winner = d.B
			s.probe("directed-deposed-leader-followed-again")
		}
		if s.res.Acked < d.ackedAt+2 && s.step < d.deadline {
			return false
		}
		if s.res.Acked >= d.ackedAt+2 {
			s.probe("directed-new-quorum-served")
		}
		d.phase = 9
		d.allowed = nil
		s.heal()
		s.probe("directed-plan-completed")
		return true
	}
	return false
}
