package e2

import (
	"bytes"
	"fmt"
	"os"
	"path/filepath"
	"sort"
	"strings"
	"syscall"
)

// Shadow disk.  The real wal/snap/fileutil code writes real files on tmpfs; the
// tagged hook in fileutil.Fsync/Fdatasync tells us which file is being synced.
// Per file (keyed by inode: the WAL renames its directory; read through
// /proc/self/fd/N: segments are opened write-only) we keep the durable image =
// content at the last completed sync.  A crash image of a data directory is,
// per file, durable bytes ⊕ (a tape-chosen subset of the 512-byte sectors in
// which the live file differs).  Directory operations are atomic and durable.

const sector = 512

type shadow struct {
	dur map[uint64][]byte
}

func newShadow() *shadow { return &shadow{dur: map[uint64][]byte{}} }

func inoOfFile(f *os.File) (uint64, bool, bool) {
	fi, err := f.Stat()
	if err != nil {
		return 0, false, false
	}
	st, ok := fi.Sys().(*syscall.Stat_t)
	if !ok {
		return 0, false, false
	}
	return st.Ino, fi.IsDir(), true
}

func inoOfPath(path string) (uint64, bool) {
	var st syscall.Stat_t
	if err := syscall.Stat(path, &st); err != nil {
		return 0, false
	}
	return st.Ino, true
}

// synced records that everything f holds now is durable.
func (sh *shadow) synced(f *os.File) {
	ino, isDir, ok := inoOfFile(f)
	if !ok || isDir {
		return
	}
	b, err := os.ReadFile(fmt.Sprintf("/proc/self/fd/%d", f.Fd()))
	if err == nil {
		sh.dur[ino] = b
	}
}

// registerDurable declares every file below dir durable as it is (a crash
// image *is* the disk the next incarnation starts from).
func (sh *shadow) registerDurable(dir string) {
	for _, rel := range walkFiles(dir) {
		p := filepath.Join(dir, rel)
		if ino, ok := inoOfPath(p); ok {
			if b, err := os.ReadFile(p); err == nil {
				sh.dur[ino] = b
			}
		}
	}
}

// walkFiles lists regular files below dir as sorted relative paths.
func walkFiles(dir string) []string {
	var out []string
	var rec func(rel string)
	rec = func(rel string) {
		ents, err := os.ReadDir(filepath.Join(dir, rel))
		if err != nil {
			return
		}
		for _, e := range ents {
			r := filepath.Join(rel, e.Name())
			if e.IsDir() {
				rec(r)
			} else {
				out = append(out, r)
			}
		}
	}
	rec("")
	sort.Strings(out)
	return out
}

func walkDirs(dir string) []string {
	var out []string
	var rec func(rel string)
	rec = func(rel string) {
		ents, err := os.ReadDir(filepath.Join(dir, rel))
		if err != nil {
			return
		}
		for _, e := range ents {
			if e.IsDir() {
				r := filepath.Join(rel, e.Name())
				out = append(out, r)
				rec(r)
			}
		}
	}
	rec("")
	sort.Strings(out)
	return out
}

func allZero(b []byte) bool {
	for _, v := range b {
		if v != 0 {
			return false
		}
	}
	return true
}

type crashStats struct {
	files       int
	dirty       int // unsynced sectors at the crash instant
	lost        int // of which did not survive
	walDirty    int
	walLost     int
	snapFiles   int
	tornInWal   bool
	grown       int // files that grew past their durable length with an unsynced last sector
	shortTail   int // files whose lost tail is missing from the image (size never updated)
	description string
}

// materialise writes the crash image of src into dst.  choose(n) decides, for
// the n unsynced sectors (in sorted file/sector order), which are lost.
// short() decides, when the lost sectors of a file form a tail behind its durable
// length (the file grew since its last sync), whether that tail is missing from
// the image (size never updated) instead of zero-filled.
func (sh *shadow) materialise(src, dst string, choose func(n int) []bool, short func() bool) (crashStats, error) {
	var cs crashStats
	type fstate struct {
		rel      string
		vol, old []byte
		dirty    []int
		durLen   int
	}
	var files []fstate
	for _, rel := range walkFiles(src) {
		p := filepath.Join(src, rel)
		vol, err := os.ReadFile(p)
		if err != nil {
			continue
		}
		// a pipeline file that was preallocated but never handed out is all
		// zero; whether it exists yet depends on goroutine timing and its
		// presence is equivalent to its absence: leave it out.
		if strings.HasSuffix(rel, ".tmp") && allZero(vol) {
			continue
		}
		fs := fstate{rel: rel, vol: vol, old: make([]byte, len(vol))}
		if ino, ok := inoOfPath(p); ok {
			if d, ok := sh.dur[ino]; ok {
				copy(fs.old, d)
				fs.durLen = min(len(d), len(vol))
			}
		}
		for sec := 0; sec*sector < len(vol); sec++ {
			lo, hi := sec*sector, (sec+1)*sector
			if hi > len(vol) {
				hi = len(vol)
			}
			if !bytes.Equal(vol[lo:hi], fs.old[lo:hi]) {
				fs.dirty = append(fs.dirty, sec)
			}
		}
		if len(vol) > fs.durLen && len(fs.dirty) > 0 && fs.dirty[len(fs.dirty)-1] == (len(vol)-1)/sector {
			cs.grown++
		}
		files = append(files, fs)
	}
	type ref struct{ file, sec int }
	var refs []ref
	for i := range files {
		for _, s := range files[i].dirty {
			refs = append(refs, ref{i, s})
		}
	}
	var lost []bool
	if len(refs) > 0 {
		lost = choose(len(refs))
	}
	for _, d := range walkDirs(src) {
		if err := os.MkdirAll(filepath.Join(dst, d), 0o750); err != nil {
			return cs, err
		}
	}
	if err := os.MkdirAll(dst, 0o750); err != nil {
		return cs, err
	}
	lostBy := map[int][]int{}
	for i, l := range lost {
		isWal := strings.HasSuffix(files[refs[i].file].rel, ".wal")
		cs.dirty++
		if isWal {
			cs.walDirty++
		}
		if l {
			lostBy[refs[i].file] = append(lostBy[refs[i].file], refs[i].sec)
			cs.lost++
			if isWal {
				cs.walLost++
			}
		}
	}
	var desc []string
	for i := range files {
		f := &files[i]
		b := f.vol
		if ls := lostBy[i]; len(ls) > 0 {
			b = append([]byte(nil), f.vol...)
			for _, sec := range ls {
				lo, hi := sec*sector, (sec+1)*sector
				if hi > len(b) {
					hi = len(b)
				}
				copy(b[lo:hi], f.old[lo:hi])
			}
			set := map[int]bool{}
			for _, sec := range ls {
				set[sec] = true
			}
			cut := -1
			for sec := (len(f.vol)+sector-1)/sector - 1; sec >= 0 && set[sec] && sec*sector >= f.durLen; sec-- {
				cut = sec * sector
			}
			tailNote := ""
			if cut >= 0 && short != nil && short() {
				b = b[:cut]
				cs.shortTail++
				tailNote = fmt.Sprintf(" (file ends at %d: the lost tail is missing, not zero-filled)", cut)
			}
			desc = append(desc, fmt.Sprintf("%s: lost sectors %v of unsynced %v%s", filepath.Base(f.rel), ls, f.dirty, tailNote))
			if strings.HasSuffix(f.rel, ".wal") && len(ls) < len(f.dirty) {
				cs.tornInWal = true
			}
		}
		if strings.HasSuffix(f.rel, ".snap") {
			cs.snapFiles++
		}
		if err := os.MkdirAll(filepath.Dir(filepath.Join(dst, f.rel)), 0o750); err != nil {
			return cs, err
		}
		if err := os.WriteFile(filepath.Join(dst, f.rel), b, 0o600); err != nil {
			return cs, err
		}
		cs.files++
	}
	cs.description = strings.Join(desc, "; ")
	sh.registerDurable(dst)
	return cs, nil
}
