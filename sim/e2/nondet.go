package e2

import (
	"fmt"

	"verifsim/core"
)

// Commands whose effect is not a function of the command and the keyspace:
// SPOP (and the read-only SRANDMEMBER / HRANDFIELD) choose by Go's map iteration
// order, XADD with the auto id `*` reads the clock of whoever executes it.  The
// cluster replicates commands as statements, every replica executes them for
// itself, and a restart executes them again from the WAL: whatever they choose
// must be the same everywhere for "nodes that have applied the same log prefix
// hold identical keyspaces" to hold.
//
// A share of the C07 runs gives every client such commands on keys of its own
// ("q<client>": a set that is popped from, "y<client>": a stream with auto ids).
// Their replies are not judged (any current member / any id at or after the
// invoke instant would do) and they stay out of the linearizability check; what
// is judged is the replicas' agreement, through the ordinary dump comparison.
// A divergence confined to these keys carries the class "nondeterministic-command".

func isNondetKey(k string) bool {
	if len(k) < 2 || (k[0] != 'q' && k[0] != 'y') {
		return false
	}
	for _, c := range k[1:] {
		if c < '0' || c > '9' {
			return false
		}
	}
	return true
}

func touchesNondetKey(a []B) bool {
	for _, k := range keysOf(a) {
		if isNondetKey(k) {
			return true
		}
	}
	return false
}

func withoutNondetKeys(dump []string) []string {
	out := make([]string, 0, len(dump))
	for _, l := range dump {
		if k, _, _, _ := lineKey(l); isNondetKey(k) {
			continue
		}
		out = append(out, l)
	}
	return out
}

// onlyNondetKeysDiffer: the two dumps differ, and agree once the keys written by
// random-choice / auto-id commands are left out.
func onlyNondetKeysDiffer(a, b []string) bool {
	return !equalLines(a, b) && equalLines(withoutNondetKeys(a), withoutNondetKeys(b))
}

func nondetShare(r *core.Rand, sc *Scenario, av avoidSet, share float64) {
	if sc.Faults.Directed != "" || sc.Knobs.TTL || sc.Knobs.Databases > 1 || av["nondeterministic-command"] || !r.Bool(share) {
		return
	}
	sc.Knobs.Nondet = true
	for ci := range sc.Clients {
		p := &sc.Clients[ci]
		set, stream := fmt.Sprintf("q%d", ci), fmt.Sprintf("y%d", ci)
		var extra []Cmd
		n := 0
		member := func() string { n++; return fmt.Sprintf("m%d_%d", ci, n) }
		extra = append(extra, Cmd{Args: bs("sadd", set, member(), member(), member(), member(), member())})
		for i, k := 0, 2+r.Intn(4); i < k; i++ {
			switch r.Intn(7) {
			case 0, 1:
				extra = append(extra, Cmd{Args: bs("spop", set)})
			case 2:
				extra = append(extra, Cmd{Args: bs("spop", set, "2")})
			case 3:
				extra = append(extra, Cmd{Args: bs("srandmember", set)})
			case 4:
				extra = append(extra, Cmd{Args: bs("sadd", set, member(), member())})
			default:
				extra = append(extra, Cmd{Args: bs("xadd", stream, "*", "f", member())})
			}
		}
		// woven into the client's program in order
		var out []Cmd
		ei := 0
		for _, c := range p.Cmds {
			for ei < len(extra) && r.Bool(0.4) {
				out = append(out, extra[ei])
				ei++
			}
			out = append(out, c)
		}
		out = append(out, extra[ei:]...)
		p.Cmds = out
	}
}
