// Package e2 is the "cluster" engine: 1-5 real RedisGO cluster nodes (real
// HandleCluster, handleClusterCommits, raftexample, etcd/raft Node, WAL and
// snapshotter on tmpfs) run inside one testing/synctest bubble.  The simulator
// owns the clock, the peer network (message level), the client connections and
// the durability model (shadow disk), and injects exactly one stimulus per
// quiescence so that the run is a pure function of (scenario, tape).
package e2

import (
	"encoding/json"
	"fmt"
	"strings"
)

// B is a byte string that marshals to a readable JSON string (one rune per
// byte, Latin-1 style), so replay files stay legible and lossless.
type B []byte

func (b B) MarshalJSON() ([]byte, error) {
	rs := make([]rune, len(b))
	for i, c := range b {
		rs[i] = rune(c)
	}
	return json.Marshal(string(rs))
}

func (b *B) UnmarshalJSON(data []byte) error {
	var s string
	if err := json.Unmarshal(data, &s); err != nil {
		return err
	}
	out := make([]byte, 0, len(s))
	for _, r := range s {
		out = append(out, byte(r))
	}
	*b = out
	return nil
}

func bs(ss ...string) []B {
	out := make([]B, len(ss))
	for i, s := range ss {
		out[i] = B(s)
	}
	return out
}

func argv(a []B) [][]byte {
	out := make([][]byte, len(a))
	for i, x := range a {
		out[i] = []byte(x)
	}
	return out
}

func isPrintable(s string) bool {
	for i := 0; i < len(s); i++ {
		if s[i] < 0x20 || s[i] > 0x7e {
			return false
		}
	}
	return true
}

func cmdString(a []B) string {
	parts := make([]string, len(a))
	for i, x := range a {
		s := string(x)
		if s == "" || strings.ContainsAny(s, " \"") || !isPrintable(s) {
			parts[i] = fmt.Sprintf("%q", s)
		} else {
			parts[i] = s
		}
	}
	return strings.Join(parts, " ")
}

func truncate(s string, n int) string {
	if len(s) > n {
		return s[:n] + "..."
	}
	return s
}

func tail(s []string, n int) []string {
	if len(s) > n {
		s = s[len(s)-n:]
	}
	return append([]string(nil), s...)
}

func head(s []string, n int) []string {
	if len(s) > n {
		s = s[:n]
	}
	return append([]string(nil), s...)
}

// ---- scenario (the JSON body of a case) --------------------------------------

// Cmd is one command of a client program.
type Cmd struct {
	Args []B `json:"a,omitempty"`
	// SleepMS > 0: not a command; the client stays idle for that long
	SleepMS int `json:"sleep_ms,omitempty"`
	// Node: 0 = the tape chooses a serving node for this command; >0 = that node.
	Node int `json:"n,omitempty"`
}

type ClientProg struct {
	Name string `json:"name"`
	Cmds []Cmd  `json:"cmds"`
	// Sticky: the client keeps talking to one node until that node fails it.
	Sticky bool `json:"sticky,omitempty"`
}

// Knobs are the per-run configuration choices (swarm).
type Knobs struct {
	Nodes int `json:"nodes"`
	// Databases: numbered databases configured on every node (and on the C14
	// reference); 0 = 1.
	Databases  int    `json:"databases,omitempty"`
	ShardNum   int    `json:"shard_num"`
	SnapCount  uint64 `json:"snap_count"`
	CatchUpN   uint64 `json:"catch_up_n"`
	SegmentKiB int    `json:"segment_kib"`
	// HandlerGate: every connection handler stops between "raft has taken my
	// proposal" and "I wait for the result" (proposed hook) until the simulator
	// releases it as an event of its own: the apply loop may reach the hand-over
	// of the result before the handler listens.
	HandlerGate bool `json:"handler_gate,omitempty"`
	// Nondet: the clients also issue random-choice and auto-id commands (nondet.go)
	Nondet bool `json:"nondet,omitempty"`
	// LargeValues: the clients' values are several hundred KB each (fault-free runs)
	LargeValues bool `json:"large_values,omitempty"`
	MaxSteps   int    `json:"max_steps"`
	// StaggerMS[i] is the start offset of node i+1 (distinct modulo the tick).
	StaggerMS []int `json:"stagger_ms"`
	// message level faults, per-mille per delivery decision
	DropPM    int `json:"drop_pm"`
	ReorderPM int `json:"reorder_pm"`
	// UnreachPM: chance that a dropped MsgApp is reported unreachable
	UnreachPM int `json:"unreach_pm"`
	// scheduling weights
	WDeliver int `json:"w_deliver"`
	WTick    int `json:"w_tick"`
	WClient  int `json:"w_client"`
	// OpTimeoutTicks: a client abandons a command (and its connection) after
	// this many raft ticks (200 ms each) without a reply.
	OpTimeoutTicks int `json:"op_timeout_ticks"`
	// SectorLoss: "" = any subset of unsynced sectors may be lost in a crash;
	// "all-or-none" = no torn writes; "none" = everything written survives.
	SectorLoss string `json:"sector_loss,omitempty"`
	// TTL: clients also issue time-dependent commands on keys of their own
	// ("e<client>"); see ttl.go for what is then demanded.
	TTL bool `json:"ttl,omitempty"`
	// OnePerNode: at most one client command is outstanding per node (no two
	// connection handlers of one node are ever active in the same step).
	OnePerNode bool `json:"one_per_node,omitempty"`
	// OneAtATime: at most one client command is outstanding in the whole cluster.
	OneAtATime bool `json:"one_at_a_time,omitempty"`
	// Burst: every client that can send does so in the same step (race sweep).
	Burst bool `json:"burst,omitempty"`
	// LivenessS: budget in simulated seconds for the final liveness probe.
	LivenessS int `json:"liveness_s"`
}

// FaultPlan says which fault kinds the adversary may use in this run.
type FaultPlan struct {
	Kinds []string `json:"kinds"` // partition isolate-leader crash crash-seam crash-all rconf-add rconf-delete slow-node
	// RatePM: per-mille chance per step that the next event is a fault.
	RatePM   int `json:"rate_pm"`
	MaxFault int `json:"max_faults"`
	// MinorityOnly: never take down so many nodes that no quorum remains (C07).
	MinorityOnly bool `json:"minority_only,omitempty"`
	// HoldMin/HoldMax: how many steps a partition / outage lasts before the
	// adversary may heal / restart.
	HoldMin int `json:"hold_min"`
	HoldMax int `json:"hold_max"`
	// DeleteLowIDOnly: rconf delete never names the highest configured node id.
	DeleteLowIDOnly bool `json:"delete_low_id_only,omitempty"`
	// Directed: a choreographed adversary ("ack-then-crash", "vote-then-crash");
	// see directed.go.  Its choices come from the tape.
	Directed string `json:"directed,omitempty"`
	// Script: faults fired at fixed points of the workload without consulting
	// the tape (hand-written and minimised reproducers).
	Script []ScriptedFault `json:"script,omitempty"`
}

// ScriptedFault fires once, as soon as AfterAcked client commands have been
// answered.
type ScriptedFault struct {
	AfterAcked int `json:"after_acked"`
	// AfterMsgSnap: fire only once node Node has been handed a MsgSnap.
	AfterMsgSnap bool   `json:"after_msgsnap,omitempty"`
	Kind         string `json:"kind"` // crash | crash-seam | crash-all | partition | isolate-leader | heal | restart | slow-node
	Node         int    `json:"node,omitempty"`
	Seam         string `json:"seam,omitempty"`      // before-sync | after-sync | send | reply
	Countdown    int    `json:"countdown,omitempty"` // k-th crossing of that seam from now (default 1)
	// Lose: which unsynced sectors the crash loses: none | all | first | last
	Lose  string `json:"lose,omitempty"`
	Hold  int    `json:"hold,omitempty"`
	fired bool
}

type Scenario struct {
	Kind    string       `json:"kind"` // C07 | C08 | C14
	Variant string       `json:"variant,omitempty"`
	Knobs   Knobs        `json:"knobs"`
	Clients []ClientProg `json:"clients"`
	Faults  FaultPlan    `json:"faults"`
	// Aim: this run deliberately aims at listed (known) trigger classes.
	Aim bool `json:"aim,omitempty"`
}

func (f *FaultPlan) has(kind string) bool {
	for _, k := range f.Kinds {
		if k == kind {
			return true
		}
	}
	return false
}

func cloneScenario(s *Scenario) *Scenario {
	b, _ := json.Marshal(s)
	c := &Scenario{}
	json.Unmarshal(b, c)
	return c
}
