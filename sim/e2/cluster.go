package e2

import (
	"context"
	"fmt"
	"hash/fnv"
	"net"
	"encoding/json"
	"os"
	"path/filepath"
	"sort"
	"strconv"
	"strings"
	"sync"
	"testing"
	"testing/synctest"
	"time"

	"github.com/google/uuid"
	"github.com/innovationb1ue/RedisGO/config"
	"github.com/innovationb1ue/RedisGO/memdb"
	"github.com/innovationb1ue/RedisGO/raftexample"
	"github.com/innovationb1ue/RedisGO/server"
	"go.etcd.io/etcd/raft/v3"
	"go.etcd.io/etcd/raft/v3/raftpb"
	"go.etcd.io/etcd/server/v3/etcdserver/api/rafthttp"
	"go.etcd.io/etcd/server/v3/storage/wal"

	"verifsim/core"
	rd "verifsim/respdec"
)

const tickEvery = 200 * time.Millisecond

type seamKind int

const (
	seamBeforeSync seamKind = iota
	seamAfterSync
	seamSend
	seamReply
	nSeams
)

var seamNames = [...]string{"before-sync", "after-sync", "send", "reply"}

type crashArm struct {
	kind      seamKind
	countdown int
	all       bool   // take every other live node down at the same instant
	lose      string // scripted: which unsynced sectors are lost
	// grown: only a sync of a WAL segment that has grown past its durable length
	// counts (the save that runs over the preallocated end of a segment, synced
	// inside the segment cut): the crash that can leave a file shorter than its data
	grown bool
}

// incarnation is one process lifetime of a node.
type incarnation struct {
	sim  *Sim
	node *nodeState
	gen  int
	dir  string

	vn               *server.VerifNode
	tr               *rafthttp.Transport
	peers            map[uint64]bool
	outbox           []raftpb.Message
	unknownPeerMsgs  int
	unknownLog       []string
	dead             bool // crashed: everything it does from now on is discarded
	stopped          bool // Stop() was called by the harness
	transportStopped bool // the node shut itself (or was shut) down
	ctx              context.Context
	cancel           context.CancelFunc
	tickBase         time.Time
	conns            []*Conn
	arm              *crashArm
	seams            [nSeams]int
	syncs            int
	syncGrown        bool // the sync in progress is of a WAL segment grown past its durable length
	fromImage        bool // started from a crash image
	imageHadSnap     bool
}

type nodeState struct {
	id       int
	inc      *incarnation // current incarnation (possibly dead)
	starting *incarnation
	gen      int
	down     bool // crashed and not yet restarted
	downAt   int  // step of the crash
	holdTill int
	removed  bool // removed from the cluster by rconf delete (or never joined)
	member   bool // part of the configured cluster
	nextDir  string
	image    crashStats

	// flags for classification
	restarts              int
	restartedSnap         bool // restarted from an image holding a snapshot
	gotMsgSnap            bool
	restartedAfterMsgSnap bool
	restartAfterTTL       bool // restarted after a deadline command had been issued
	ttlSeen               map[string]time.Time
	ttlGen                int
	snapshotsTaken        int
	lastSnapIdx           uint64
	lastApplied           uint64
	lastAppliedInit       bool
	slowTill              int
	view                  nodeView
}

type nodeView struct {
	voters  map[uint64]struct{}
	ok      bool
	lead    uint64
	term    uint64
	commit  uint64
	applied uint64
	state   raft.StateType
}

type qmsg struct {
	m        raftpb.Message
	from     *incarnation
	emitStep int
	emitAt   time.Time
}

type link struct {
	from, to uint64
	q        []qmsg
}

// OpRec is one request/response pair as the client saw it.
type OpRec struct {
	Client    int
	Idx       int
	Args      []B
	Node      int
	InvokeSeq int64
	InvokeAt  time.Time
	ReturnSeq int64
	ReturnAt  time.Time
	Reply     rd.Value
	Done      bool
	Abandoned string // why the client gave up ("" = it did not)
	Final     bool   // read-back issued by the harness after the last fault
	Probe     bool
}

type clientState struct {
	prog *ClientProg
	idx  int
	conn *Conn
	node int
	next int
	cur  *OpRec
	ops  []*OpRec
	rx   []byte
	bad  string
	wake time.Time // idle until then
}

type divergence struct {
	Index        uint64
	NodeA, NodeB int
	DumpA, DumpB []string
	Step         int
	Class        string
	SameInstant  bool
	Note         string
}

// RunResult is everything the oracles look at.
type RunResult struct {
	Sc         *Scenario
	Clients    []*clientState
	Seq        int64
	Steps      int
	Trace      []string
	TraceHash  uint64
	Panics     []string
	Harness    string
	Diverge    *divergence
	FinalDumps map[int][]string
	FinalIdx   map[int]uint64
	Liveness   string
	StepLimit  bool
	SimElapsed time.Duration
	Faults     map[string]int64
	Probes     map[string]int64
	States     []uint64
	Nodes      []*nodeState
	NodeDeaths []string // nodes that shut themselves down without being asked
	Acked      int
	Abandoned  int
	FaultsAny  bool
	NetFaults  bool
	Voters     map[int][]uint64 // voting members every serving node reports at the end
	PanicClass string           // class of the command a panicking handler was executing
	// C14
	RefReplies []rd.Value
	RefDump    []string
	RefSkipped int
	// workload flags for death attribution
	start time.Time
}

type Sim struct {
	t    *testing.T
	sc   *Scenario
	k    Knobs
	tape *core.Tape
	j    *core.Journal
	res  *RunResult
	keep bool
	h    uint64

	mu          sync.Mutex // protects what SUT goroutines touch through the hooks
	gatesOpen   bool       // finale / teardown: handlers are no longer parked at the proposed hook
	nodes       []*nodeState
	incs        []*incarnation
	byTransport map[*rafthttp.Transport]*incarnation
	shadow      *shadow
	links       map[[2]uint64]*link
	blocked     map[[2]uint64]bool
	cs          []*clientState
	base        string
	rootCtx     context.Context
	rootCancel  context.CancelFunc

	step            int
	faultsFired     int
	partitioned     bool
	partHoldTill    int
	finale          bool
	noFaults        bool // finale: no message faults any more
	lastSig         string
	dumpAt          map[uint64]dumpRec
	lastCmdClass    string
	listSeen        bool
	rconfDel        bool
	rconfDelHighest bool
	issued          int
	scriptLose      string
	lastLeader      int
	mgmtClass       string
	mgmtStep        int
	mgmtNoChange    bool
	ttlIssued       bool
	dir             *directed
	skipFinale      bool
	rconfAdd        bool
	joiner          int // node id waiting to be started after rconf add
	pendingCrash    []string
	prop            string
}

type dumpRec struct {
	hash uint64
	node int
	dump []string
}

func (s *Sim) trace(format string, a ...any) {
	str := fmt.Sprintf(format, a...)
	hh := fnv.New64a()
	var b [8]byte
	for i := 0; i < 8; i++ {
		b[i] = byte(s.h >> (8 * i))
	}
	hh.Write(b[:])
	hh.Write([]byte(str))
	s.h = hh.Sum64()
	if s.keep || len(s.res.Trace) < 6000 {
		s.res.Trace = append(s.res.Trace, str)
	}
}

func (s *Sim) fault(kind string) {
	s.res.Faults[kind]++
}
func (s *Sim) probe(kind string) { s.res.Probes[kind]++ }

var registered bool

func registerCommands() {
	if registered {
		return
	}
	registered = true
	memdb.RegisterKeyCommands()
	memdb.RegisterStringCommands()
	memdb.RegisterListCommands()
	memdb.RegisterSetCommands()
	memdb.RegisterHashCommands()
	memdb.RegisterPubSubCommands()
	memdb.RegisterSortedSetCommands()
	memdb.RegisterStreamCommands()
	memdb.RegisterRaftCommand()
}

var runCounter int
var devnull *os.File

func pidDir() string { return fmt.Sprintf("/dev/shm/verif-e2-%d", os.Getpid()) }

// RunScenario executes one scenario under the tape inside a synctest bubble.
func RunScenario(t *testing.T, sc *Scenario, tape *core.Tape, j *core.Journal, keepTrace bool) *RunResult {
	res := &RunResult{Sc: sc, Faults: map[string]int64{}, Probes: map[string]int64{}, FinalDumps: map[int][]string{}, FinalIdx: map[int]uint64{}}
	// raftexample logs through zap.NewExample() (os.Stdout at construction
	// time) in several places: silence it for the duration of the run
	if devnull == nil {
		devnull, _ = os.OpenFile(os.DevNull, os.O_WRONLY, 0)
	}
	if os.Getenv("VERIF_KEEP_STDOUT") == "" && devnull != nil {
		saved := os.Stdout
		os.Stdout = devnull
		defer func() { os.Stdout = saved }()
	}
	runCounter++
	base := filepath.Join(pidDir(), fmt.Sprintf("run%d", runCounter))
	os.MkdirAll(base, 0o750)
	defer os.RemoveAll(base)
	var s *Sim
	func() {
		defer func() {
			if r := recover(); r != nil {
				str := fmt.Sprint(r)
				if !strings.Contains(str, "blocked goroutines remain") && !strings.Contains(str, "deadlock: main bubble goroutine") {
					res.Harness = "harness: " + str
				}
			}
		}()
		synctest.Test(t, func(t *testing.T) {
			s = &Sim{t: t, sc: sc, k: sc.Knobs, tape: tape, res: res, keep: keepTrace, j: j, base: base,
				byTransport: map[*rafthttp.Transport]*incarnation{}, shadow: newShadow(), links: map[[2]uint64]*link{},
				blocked: map[[2]uint64]bool{}, dumpAt: map[uint64]dumpRec{}, prop: sc.Kind}
			cur = s
			s.run()
		})
	}()
	cur = nil
	raftexample.Verif = nil
	uuid.SetRand(nil)
	return res
}

func (s *Sim) databases() int {
	if s.k.Databases > 1 {
		return s.k.Databases
	}
	return 1
}

// dumpAll is the canonical dump of every numbered database of a manager (one
// database: exactly memdb's dump; several: each line prefixed by its database).
func dumpAll(m *server.Manager) []string {
	if len(m.DBs) == 1 {
		return m.DBs[0].VerifDump(false)
	}
	var out []string
	for i, db := range m.DBs {
		for _, l := range db.VerifDump(false) {
			out = append(out, fmt.Sprintf("db%d %s", i, l))
		}
	}
	return out
}

func nodeURL(id int) string { return fmt.Sprintf("http://127.0.0.1:%d", 20000+id) }

func (s *Sim) peerAddrs(n int) string {
	var u []string
	for i := 1; i <= n; i++ {
		u = append(u, nodeURL(i))
	}
	return strings.Join(u, ",")
}

func (s *Sim) run() {
	k := &s.k
	if k.Nodes <= 0 {
		k.Nodes = 3
	}
	if k.ShardNum <= 0 {
		k.ShardNum = 8
	}
	if k.MaxSteps <= 0 {
		k.MaxSteps = 3000
	}
	if k.SegmentKiB <= 0 {
		k.SegmentKiB = 16
	}
	if k.WDeliver <= 0 {
		k.WDeliver = 10
	}
	if k.WTick <= 0 {
		k.WTick = 3
	}
	if k.WClient <= 0 {
		k.WClient = 6
	}
	if k.OpTimeoutTicks <= 0 {
		k.OpTimeoutTicks = 40
	}
	if k.LivenessS <= 0 {
		k.LivenessS = 60
	}
	registerCommands()
	s.res.start = time.Now()
	s.rootCtx, s.rootCancel = context.WithCancel(context.Background())
	wal.SegmentSizeBytes = int64(k.SegmentKiB) * 1024
	raftexample.Verif = &raftexample.VerifConfig{
		DataDir: func(id int) string {
			if id >= 1 && id <= len(s.nodes) && s.nodes[id-1].starting != nil {
				return s.nodes[id-1].starting.dir
			}
			return filepath.Join(s.base, fmt.Sprintf("stray%d", id))
		},
		SnapCount: k.SnapCount, CatchUpN: k.CatchUpN, SkipHTTP: true, Quiet: true,
	}
	seed := s.tape.Draw(1 << 30)
	raft.VerifSeedRand(int64(seed))
	// proposal ids are random UUIDs; they end up in WAL records whose CRC is a
	// varint, so their value decides record sizes and with them when a segment
	// is cut (an extra sync seam) and where sector boundaries fall
	uuid.SetRand(&seededReader{r: core.NewRand(core.Mix(uint64(seed), 0x751d))})

	if s.sc.Kind == "C14" {
		s.runReference()
	}

	for i := 1; i <= k.Nodes; i++ {
		s.nodes = append(s.nodes, &nodeState{id: i, member: true})
	}
	s.res.Nodes = s.nodes
	for i, ns := range s.nodes {
		off := 3 + 13*i
		if i < len(k.StaggerMS) && k.StaggerMS[i] > 0 {
			off = k.StaggerMS[i]
		}
		time.Sleep(time.Duration(off) * time.Millisecond)
		s.journal(fmt.Sprintf("%s/node-death/first-start", s.prop), "start n%d", ns.id)
		s.startNode(ns, filepath.Join(s.base, fmt.Sprintf("n%dg0", ns.id)), false)
		s.trace("start n%d", ns.id)
	}
	for i := range s.sc.Clients {
		s.cs = append(s.cs, &clientState{prog: &s.sc.Clients[i], idx: i})
	}
	s.res.Clients = s.cs

	s.initDirected()
	s.mainLoop()
	if s.res.Harness == "" && len(s.res.Panics) == 0 && !s.skipFinale {
		s.runFinale()
	}
	s.res.TraceHash = s.h
	s.res.SimElapsed = time.Since(s.res.start)
	s.teardown()
}

// journal writes what is about to happen (and the signature a process death
// during it would get) before it happens.
func (s *Sim) journal(sig string, format string, a ...any) {
	if s.j == nil {
		return
	}
	if sig != s.lastSig {
		s.j.Step("sig=%s", sig)
		s.lastSig = sig
	}
	s.j.Step(format, a...)
}

func (s *Sim) startNode(ns *nodeState, dir string, join bool) {
	os.MkdirAll(dir, 0o750)
	inc := &incarnation{sim: s, node: ns, gen: ns.gen, dir: dir, peers: map[uint64]bool{}, tickBase: time.Now(), fromImage: ns.gen > 0}
	ns.gen++
	inc.ctx, inc.cancel = context.WithCancel(s.rootCtx)
	s.mu.Lock()
	ns.starting = inc
	s.incs = append(s.incs, inc)
	s.mu.Unlock()
	n := len(s.nodes)
	cfg := &config.Config{ShardNum: s.k.ShardNum, Databases: s.databases(), ChanBufferSize: 10, LogLevel: "panic", IsCluster: true,
		NodeID: ns.id, RaftAddr: nodeURL(ns.id), PeerAddrs: s.peerAddrs(n), JoinCluster: join}
	if s.databases() == 1 {
		// the shipped way: the node's cluster settings come from a JSON file read by
		// config.ParseConfigJson (which supports a single database in cluster mode,
		// whatever the file says) over the defaults
		if parsed := configThroughJSON(cfg); parsed != nil {
			cfg = parsed
		} else {
			s.res.Harness = "harness: cannot write the cluster configuration file"
		}
	}
	config.Configures = cfg
	inc.vn = server.VerifStartCluster(inc.ctx, cfg)
	server.VerifProposedHook = nil
	if s.k.HandlerGate {
		server.VerifProposedHook = s.proposedHook
	}
	// the WAL has been replayed (a node that cannot read its own files has
	// died by now); what follows is the node applying what it found
	if inc.fromImage {
		s.lastSig = ""
		s.journal(s.deathSig(), "n%d replayed its WAL and starts raft", ns.id)
	}
	synctest.Wait()
	s.mu.Lock()
	ns.inc = inc
	ns.starting = nil
	ns.down = false
	s.mu.Unlock()
	ns.lastAppliedInit = false
}

// ---- seams and crashes --------------------------------------------------------

// seam is called from SUT goroutines at every seam crossing of an incarnation;
// false means "this process no longer exists".
func (s *Sim) seam(inc *incarnation, kind seamKind) bool {
	s.mu.Lock()
	defer s.mu.Unlock()
	if inc.dead {
		return false
	}
	inc.seams[kind]++
	if a := inc.arm; a != nil && a.kind == kind && (!a.grown || inc.syncGrown) {
		a.countdown--
		if a.countdown <= 0 {
			inc.arm = nil
			s.scriptLose = a.lose
			s.crashLocked(inc, "crash-"+seamNames[kind])
			s.scriptLose = ""
			if a.all {
				for _, ns := range s.nodes {
					if ns.inc != nil && !ns.inc.dead && ns.inc != inc && !ns.down {
						s.crashLocked(ns.inc, "crash-with-"+seamNames[kind])
					}
				}
				s.res.Faults["all-nodes-crash"]++
			}
			return false
		}
	}
	return true
}

// crashLocked kills an incarnation now: its crash image is materialised from
// the shadow disk, it is marked dead, its connections are cut.  s.mu is held.
func (s *Sim) crashLocked(inc *incarnation, kind string) {
	if inc.dead {
		return
	}
	ns := inc.node
	inc.dead = true
	ns.down = true
	ns.downAt = s.step
	hold := s.sc.Faults.HoldMin
	if s.sc.Faults.HoldMax > hold {
		hold += s.tape.Draw(s.sc.Faults.HoldMax - hold + 1)
	}
	ns.holdTill = s.step + hold
	dst := filepath.Join(s.base, fmt.Sprintf("n%dg%d", ns.id, ns.gen))
	cs, err := s.shadow.materialise(inc.dir, dst, func(n int) []bool {
		lost := make([]bool, n)
		switch s.scriptLose {
		case "none":
			return lost
		case "all":
			for i := range lost {
				lost[i] = true
			}
			return lost
		case "first":
			lost[0] = true
			return lost
		case "last":
			lost[n-1] = true
			return lost
		case "torn":
			// keep the head of what was being written, lose its tail
			if n >= 2 {
				lost[n-1] = true
			}
			return lost
		}
		mode := s.tape.Draw(4)
		if s.k.SectorLoss == "all-or-none" && mode >= 2 {
			mode = 1
		}
		if s.k.SectorLoss == "none" {
			mode = 0
		}
		switch mode {
		case 0: // everything written reached the disk
		case 1: // nothing unsynced reached the disk
			for i := range lost {
				lost[i] = true
			}
		default:
			for i := range lost {
				lost[i] = s.tape.Draw(2) == 1
			}
		}
		return lost
	}, func() bool { return s.tape.Draw(2) == 1 })
	if err != nil {
		s.res.Harness = "harness: cannot materialise crash image: " + err.Error()
	}
	if cs.grown > 0 {
		s.res.Probes["crash-while-file-grown-past-durable-length"] += int64(cs.grown)
	}
	if cs.shortTail > 0 {
		s.res.Faults["file-tail-missing"] += int64(cs.shortTail)
	}
	ns.nextDir = dst
	ns.image = cs
	s.res.Faults[kind]++
	if cs.lost > 0 {
		s.res.Faults["sectors-lost"] += int64(cs.lost)
	}
	if cs.dirty > 0 {
		s.res.Probes["crash-with-unsynced-sectors"]++
	}
	s.res.FaultsAny = true
	for _, c := range inc.conns {
		c.clientClose()
	}
	s.pendingCrash = append(s.pendingCrash, fmt.Sprintf("%s n%d unsynced=%d lost=%d", kind, ns.id, cs.dirty, cs.lost))
}

func (s *Sim) liveCount() int {
	n := 0
	for _, ns := range s.nodes {
		if ns.member && !ns.removed && !ns.down && ns.inc != nil && !ns.inc.dead {
			n++
		}
	}
	return n
}

func (s *Sim) isLive(ns *nodeState) bool {
	return ns.inc != nil && !ns.inc.dead && !ns.down && !ns.inc.transportStopped
}

// ---- collecting what the nodes emitted ---------------------------------------

func (s *Sim) getLink(from, to uint64) *link {
	key := [2]uint64{from, to}
	l := s.links[key]
	if l == nil {
		l = &link{from: from, to: to}
		s.links[key] = l
	}
	return l
}

func (s *Sim) sortedLinks() []*link {
	keys := make([][2]uint64, 0, len(s.links))
	for k, l := range s.links {
		if len(l.q) > 0 {
			keys = append(keys, k)
		}
	}
	sort.Slice(keys, func(i, j int) bool {
		if keys[i][0] != keys[j][0] {
			return keys[i][0] < keys[j][0]
		}
		return keys[i][1] < keys[j][1]
	})
	out := make([]*link, len(keys))
	for i, k := range keys {
		out[i] = s.links[k]
	}
	return out
}

func (s *Sim) collect() {
	s.mu.Lock()
	crashes := s.pendingCrash
	s.pendingCrash = nil
	s.mu.Unlock()
	for _, c := range crashes {
		s.trace("%s", c)
	}
	// zombies: stop what is left of crashed incarnations
	for _, inc := range s.incs {
		if inc.dead && !inc.stopped {
			s.stopIncarnation(inc)
		}
	}
	// messages
	now := time.Now()
	for _, ns := range s.nodes {
		inc := ns.inc
		if inc == nil {
			continue
		}
		s.mu.Lock()
		out := inc.outbox
		inc.outbox = nil
		s.mu.Unlock()
		// (what a process handed to its transport before it was killed may
		// still arrive: Send stops queueing the instant the process is dead)
		for _, m := range out {
			if m.To < 1 || m.To > uint64(len(s.nodes)) {
				// addressed to a member that exists only in the configuration
				s.fault("msg-drop")
				s.fault("msg-drop-no-such-node")
				continue
			}
			l := s.getLink(m.From, m.To)
			l.q = append(l.q, qmsg{m: m, from: inc, emitStep: s.step, emitAt: now})
			s.trace("emit %s", msgString(m))
			if m.Type == raftpb.MsgSnap {
				s.fault("msgsnap-sent")
			}
		}
	}
	// client replies
	for i, c := range s.cs {
		s.collectClient(i, c)
	}
	// nodes that shut themselves down
	for _, ns := range s.nodes {
		inc := ns.inc
		if inc != nil && !inc.dead && !inc.stopped && inc.transportStopped && !ns.removed {
			ns.removed = true
			s.trace("n%d shut itself down", ns.id)
			s.res.NodeDeaths = append(s.res.NodeDeaths, fmt.Sprintf("n%d shut itself down at step %d", ns.id, s.step))
			for _, c := range inc.conns {
				c.clientClose()
			}
		}
	}
	s.refreshStatus()
	s.checkAgreement()
	if s.k.TTL {
		s.ttlAgreement()
	}
}

func (s *Sim) collectClient(i int, c *clientState) {
	if c.conn == nil {
		return
	}
	out := c.conn.takeOut()
	if len(out) > 0 {
		c.rx = append(c.rx, out...)
	}
	for len(c.rx) > 0 && c.bad == "" {
		v, n, st := rd.Decode(c.rx)
		if st == rd.Incomplete {
			break
		}
		if st == rd.Malformed {
			c.bad = fmt.Sprintf("reply stream is not RESP at %q", truncate(string(c.rx), 60))
			s.trace("c%d malformed-reply", i)
			break
		}
		c.rx = c.rx[n:]
		s.res.Seq++
		if c.cur == nil {
			c.bad = fmt.Sprintf("unsolicited reply %s", truncate(v.String(), 80))
			s.trace("c%d unsolicited %s", i, truncate(v.String(), 80))
			break
		}
		op := c.cur
		c.cur = nil
		op.Reply, op.Done, op.ReturnSeq, op.ReturnAt = v, true, s.res.Seq, time.Now()
		s.res.Acked++
		s.trace("c%d reply#%d %s", i, op.Idx, truncate(canonReply(op.Args, v), 100))
	}
	// the node behind the connection died: the client sees a reset
	if c.conn != nil && (c.conn.inc.dead || c.conn.inc.transportStopped) {
		if c.cur != nil {
			c.cur.Abandoned = "connection lost (node down)"
			s.res.Abandoned++
			s.trace("c%d lost#%d", i, c.cur.Idx)
			c.cur = nil
		}
		c.conn = nil
		c.rx = nil
	}
	// give up after the client-side timeout
	if c.cur != nil && time.Since(c.cur.InvokeAt) >= time.Duration(s.k.OpTimeoutTicks)*tickEvery {
		c.cur.Abandoned = "timeout"
		s.res.Abandoned++
		s.probe("client-abandoned-command")
		s.trace("c%d timeout#%d", i, c.cur.Idx)
		c.cur = nil
		c.conn.clientClose()
		c.conn = nil
		c.rx = nil
	}
}

func (s *Sim) refreshStatus() {
	var vec []string
	for _, ns := range s.nodes {
		ns.view = nodeView{}
		inc := ns.inc
		if inc == nil || !s.isLive(ns) || inc.vn == nil {
			vec = append(vec, "-")
			continue
		}
		rn := inc.vn.RaftNode()
		if rn == nil || rn.Node == nil {
			vec = append(vec, "?")
			continue
		}
		st := rn.Node.Status()
		if st.ID == 0 {
			vec = append(vec, "x")
			continue
		}
		ns.view = nodeView{voters: st.Config.Voters.IDs(), ok: true, lead: st.Lead, term: st.Term, commit: st.Commit, applied: rn.VerifAppliedIndex(), state: st.RaftState}
		if si := rn.VerifSnapshotIndex(); si != ns.lastSnapIdx {
			if si > ns.lastSnapIdx && ns.lastAppliedInit {
				// the node took (or received) a snapshot during this step
				ns.snapshotsTaken++
				s.fault("snapshot-taken")
				s.fault("log-compacted")
			}
			ns.lastSnapIdx = si
		}
		vec = append(vec, fmt.Sprintf("%d/%d/%d/%d", st.Term, st.RaftState, st.Commit, ns.view.applied))
	}
	if l := s.leaderID(); l != 0 && l != s.lastLeader {
		if s.lastLeader != 0 {
			s.probe("leader-changed")
			for _, c := range s.cs {
				if c.cur != nil {
					s.probe("leader-changed-while-command-pending")
					break
				}
			}
		}
		s.lastLeader = l
	}
	hs := core.HashString(strings.Join(vec, " "))
	if len(s.res.States) < 20000 {
		s.res.States = append(s.res.States, hs)
	}
}

// checkAgreement: nodes that have applied the same log prefix hold identical
// keyspaces.
func (s *Sim) checkAgreement() {
	for _, ns := range s.nodes {
		if !ns.view.ok {
			continue
		}
		if s.hasGatedHandler(ns) {
			// the apply loop of this node may be in the middle of a batch, waiting to hand
			// a result to a handler that is parked at the proposed hook: its keyspace is
			// not the one of any applied index right now
			continue
		}
		idx := ns.view.applied
		if ns.lastAppliedInit && idx == ns.lastApplied {
			continue
		}
		ns.lastApplied, ns.lastAppliedInit = idx, true
		dump := dumpAll(ns.inc.vn.Manager())
		if s.k.TTL {
			dump = withoutTTLKeys(dump) // compared at one instant by ttlAgreement
		}
		hsh := core.HashString(strings.Join(dump, "\n"))
		if prev, ok := s.dumpAt[idx]; ok {
			if prev.hash != hsh && s.res.Diverge == nil {
				s.res.Diverge = &divergence{Index: idx, NodeA: prev.node, NodeB: ns.id, DumpA: prev.dump, DumpB: dump, Step: s.step,
					Class: s.divergeClass(s.nodes[prev.node-1], ns)}
				if s.k.Nondet && onlyNondetKeysDiffer(prev.dump, dump) {
					// (between two nodes, or between a node and its own earlier life: a restart
					// executes the command again from the WAL)
					s.res.Diverge.Class = "nondeterministic-command"
				}
				s.trace("DIVERGE at index %d: n%d vs n%d", idx, prev.node, ns.id)
			}
		} else {
			s.dumpAt[idx] = dumpRec{hash: hsh, node: ns.id, dump: dump}
		}
	}
}

// ---- events ---------------------------------------------------------------------

type event struct {
	kind string
	a, b int
	l    *link
	c    *Conn
	w    int
}

func (s *Sim) eligibleNodes() []int {
	var out []int
	for _, ns := range s.nodes {
		if s.isLive(ns) && !ns.removed && ns.view.ok && ns.view.lead != 0 {
			if s.dir != nil && s.dir.allowed != nil && !s.dir.allowed[ns.id] {
				continue
			}
			if s.k.OnePerNode && s.busy(ns.id) {
				continue
			}
			if s.k.OneAtATime && s.busy(0) {
				continue
			}
			out = append(out, ns.id)
		}
	}
	return out
}

// busy: some client has a command outstanding on that node.
func (s *Sim) busy(node int) bool {
	for _, c := range s.cs {
		if c.cur != nil && (c.cur.Node == node || node == 0) {
			return true
		}
	}
	return false
}

func (s *Sim) clientsDone() bool {
	for _, c := range s.cs {
		if c.cur != nil || c.next < len(c.prog.Cmds) || time.Now().Before(c.wake) {
			return false
		}
	}
	return true
}

func (s *Sim) events() []event {
	var evs []event
	k := &s.k
	for _, l := range s.sortedLinks() {
		dst := s.nodes[l.to-1]
		if dst.slowTill > s.step {
			continue
		}
		evs = append(evs, event{kind: "deliver", l: l, w: k.WDeliver})
	}
	elig := s.eligibleNodes()
	for i, c := range s.cs {
		for c.cur == nil && c.next < len(c.prog.Cmds) && c.prog.Cmds[c.next].SleepMS > 0 {
			// an idle stretch starts when the client reaches it
			c.wake = time.Now().Add(time.Duration(c.prog.Cmds[c.next].SleepMS) * time.Millisecond)
			s.trace("c%d idle %dms", i, c.prog.Cmds[c.next].SleepMS)
			c.next++
		}
		if c.cur != nil || c.next >= len(c.prog.Cmds) || time.Now().Before(c.wake) {
			continue
		}
		cmd := &c.prog.Cmds[c.next]
		if cmd.Node > 0 {
			ok := false
			for _, e := range elig {
				if e == cmd.Node {
					ok = true
				}
			}
			if !ok {
				continue
			}
		} else if len(elig) == 0 {
			continue
		}
		evs = append(evs, event{kind: "send", a: i, w: k.WClient})
	}
	for _, c := range s.gated() {
		evs = append(evs, event{kind: "release-handler", c: c, w: 2 * k.WDeliver})
	}
	// repairs are ordinary events once their hold time is over
	if s.partitioned && s.step >= s.partHoldTill {
		evs = append(evs, event{kind: "heal", w: k.WDeliver})
	}
	for _, ns := range s.nodes {
		if ns.down && ns.member && !ns.removed && s.step >= ns.holdTill {
			evs = append(evs, event{kind: "restart", a: ns.id, w: k.WDeliver})
		}
	}
	if s.joiner > 0 {
		evs = append(evs, event{kind: "start-joiner", a: s.joiner, w: k.WDeliver})
	}
	if s.anyLiveTicker() {
		w := k.WTick
		evs = append(evs, event{kind: "tick", w: w})
	}
	if len(evs) == 0 {
		// every node is down and none may be restarted yet: time passes
		evs = append(evs, event{kind: "idle", w: 1})
	}
	return evs
}

// proposedHook parks the calling connection handler (see Knobs.HandlerGate).
func (s *Sim) proposedHook(nc net.Conn) {
	c, ok := nc.(*Conn)
	if !ok {
		return
	}
	s.mu.Lock()
	if c.inc == nil || c.inc.dead || c.inc.stopped || s.gatesOpen {
		s.mu.Unlock()
		return
	}
	g := make(chan struct{})
	c.gate = g
	s.mu.Unlock()
	<-g
}

// gated lists the connections whose handler waits at the proposed hook, by node
// and order of connection (also connections their client has given up on: the
// apply loop may be waiting to hand such a handler its result).
func (s *Sim) gated() []*Conn {
	var out []*Conn
	s.mu.Lock()
	for _, ns := range s.nodes {
		if ns.inc == nil || ns.inc.dead || ns.inc.stopped {
			continue
		}
		for _, c := range ns.inc.conns {
			if c.gate != nil {
				out = append(out, c)
			}
		}
	}
	s.mu.Unlock()
	return out
}

func (s *Sim) hasGatedHandler(ns *nodeState) bool {
	if ns.inc == nil {
		return false
	}
	s.mu.Lock()
	defer s.mu.Unlock()
	for _, c := range ns.inc.conns {
		if c.gate != nil {
			return true
		}
	}
	return false
}

func (s *Sim) openGate(c *Conn) {
	s.mu.Lock()
	g := c.gate
	c.gate = nil
	s.mu.Unlock()
	if g != nil {
		close(g)
	}
}

func (s *Sim) anyLiveTicker() bool {
	for _, inc := range s.incs {
		if !inc.stopped && !inc.transportStopped {
			return true
		}
	}
	return false
}

func (s *Sim) choose(evs []event) event {
	total := 0
	for _, e := range evs {
		total += e.w
	}
	x := s.tape.Draw(total)
	for _, e := range evs {
		if x < e.w {
			return e
		}
		x -= e.w
	}
	return evs[len(evs)-1]
}

func (s *Sim) mainLoop() {
	for {
		synctest.Wait()
		s.collect()
		if len(s.res.Panics) > 0 || s.res.Harness != "" {
			return
		}
		if s.clientsDone() {
			return
		}
		if s.step >= s.k.MaxSteps {
			s.res.StepLimit = true
			return
		}
		if s.dir != nil && s.res.Diverge != nil {
			// replicas already disagree: bringing them together again would only
			// make raft abort on a conflict with a committed entry
			s.skipFinale = true
			return
		}
		s.step++
		s.res.Steps++
		if s.dirStep() {
			continue
		}
		if s.fireScript() {
			continue
		}
		// the adversary
		f := &s.sc.Faults
		if len(f.Kinds) > 0 && s.faultsFired < f.MaxFault && s.tape.Chance(f.RatePM, 1000) {
			if s.fireFault() {
				continue
			}
		}
		evs := s.events()
		if len(evs) == 0 {
			s.res.Harness = "harness: no enabled event"
			return
		}
		s.apply(s.choose(evs))
	}
}

// nextTick is the next instant at which some live node's raft ticker fires.
func (s *Sim) nextTick() time.Duration {
	now := time.Now()
	best := time.Duration(-1)
	for _, inc := range s.incs {
		if inc.stopped || inc.transportStopped {
			continue
		}
		el := now.Sub(inc.tickBase)
		k := el/tickEvery + 1
		d := inc.tickBase.Add(k * tickEvery).Sub(now)
		if best < 0 || d < best {
			best = d
		}
	}
	if best < 0 {
		best = tickEvery
	}
	return best
}

func (s *Sim) deathSig() string {
	p := s.prop
	switch {
	case s.k.Burst:
		return p + "/data-race/concurrent-clients-one-node"
	case s.sc.Variant == "race" && !s.k.OneAtATime:
		return p + "/data-race/clients-on-several-nodes"
	case s.sc.Variant == "race":
		return p + "/data-race/one-command-at-a-time"
	case s.listSeen && s.snapshotDue():
		return p + "/node-death/snapshot-of-list"
	case s.anyRestartAfterMsgSnap():
		// a node that had installed a snapshot sent by the leader was killed
		// and runs again from its crash image
		return p + "/node-death/killed-after-installing-msgsnap"
	case s.mgmtClass != "" && s.step-s.mgmtStep < 80 && (s.mgmtNoChange || (!s.rconfDel && !s.rconfAdd)):
		// a management command was issued a moment ago (the ones that go
		// through the log are executed by every replica a few steps later)
		return p + "/node-death/" + s.mgmtClass
	case s.rconfDel && s.rconfDelHighest:
		return p + "/node-death/after-rconf-delete-highest-id"
	case s.rconfDel:
		return p + "/node-death/after-rconf-delete"
	case s.rconfAdd && s.k.SnapCount < 10000:
		return p + "/node-death/after-rconf-add-with-snapshot"
	case s.rconfAdd:
		return p + "/node-death/after-rconf-add"
	case s.restartedAfterLoss():
		return p + "/node-death/after-restart-that-lost-unsynced-writes"
	case s.lastCmdClass != "":
		return p + "/node-death/" + s.lastCmdClass
	}
	return p + "/node-death/idle"
}

func (s *Sim) anyRestartAfterMsgSnap() bool {
	for _, ns := range s.nodes {
		if ns.restartedAfterMsgSnap {
			return true
		}
	}
	return false
}

// restartedAfterLoss: some node runs on a crash image in which unsynced
// sectors did not survive.
func (s *Sim) restartedAfterLoss() bool {
	for _, ns := range s.nodes {
		if ns.restarts > 0 && ns.image.lost > 0 {
			return true
		}
	}
	return false
}

// snapshotDue: the log may outgrow the snapshot threshold during the next
// stimulus (commands issued so far plus election/configuration entries).
func (s *Sim) snapshotDue() bool {
	if s.k.SnapCount == 0 || s.k.SnapCount >= 10000 {
		return false
	}
	if uint64(s.issued+8) > s.k.SnapCount {
		return true
	}
	// entries also come from elections and configuration changes
	for _, ns := range s.nodes {
		if ns.view.ok && ns.view.commit+8 > ns.lastSnapIdx+s.k.SnapCount {
			return true
		}
	}
	return false
}

func (s *Sim) apply(e event) {
	switch e.kind {
	case "deliver":
		s.applyDeliver(e.l)
	case "tick":
		d := s.nextTick()
		s.journal(s.deathSig(), "tick +%v", d)
		s.trace("tick +%v", d)
		time.Sleep(d)
	case "idle":
		s.trace("idle +%v", tickEvery)
		time.Sleep(tickEvery)
	case "send":
		s.applySend(e.a)
	case "release-handler":
		s.trace("release-handler %s@n%d", e.c.name, e.c.inc.node.id)
		s.fault("handler-parked-between-propose-and-wait")
		s.openGate(e.c)
	case "heal":
		s.heal()
	case "restart":
		s.restart(s.nodes[e.a-1])
	case "start-joiner":
		s.startJoiner()
	}
}

func (s *Sim) applyDeliver(l *link) {
	idx := 0
	if !s.noFaults && s.k.ReorderPM > 0 && len(l.q) > 1 && s.tape.Chance(s.k.ReorderPM, 1000) {
		idx = 1 + s.tape.Draw(len(l.q)-1)
		s.fault("msg-reorder")
		s.res.NetFaults = true
	}
	qm := l.q[idx]
	l.q = append(l.q[:idx:idx], l.q[idx+1:]...)
	m := qm.m
	dst := s.nodes[m.To-1]
	why := ""
	switch {
	case qm.from.dead:
		// sent by a process that has since been killed: the bytes may or may
		// not have left the machine; treat as still in flight
	}
	switch {
	case !s.isLive(dst):
		why = "peer-down"
	case s.blocked[[2]uint64{m.From, m.To}]:
		why = "partition"
	case !s.noFaults && s.k.DropPM > 0 && s.tape.Chance(s.k.DropPM, 1000):
		why = "lossy"
		s.res.NetFaults = true
	case m.Type == raftpb.MsgProp && (!dst.view.ok || dst.view.lead == 0):
		// a forwarded proposal reaching a node without a leader would park
		// inside Node.Step (replay-inexact); the lossy network drops it
		why = "prop-to-leaderless"
	}
	if why != "" {
		s.fault("msg-drop")
		s.fault("msg-drop-" + why)
		s.journal(s.deathSig(), "drop(%s) %s", why, msgString(m))
		s.trace("drop(%s) %s", why, msgString(m))
		s.reportDrop(qm)
		return
	}
	if time.Since(qm.emitAt) >= 2*tickEvery {
		s.fault("msg-delay")
	}
	s.journal(s.deathSig(), "deliver %s", msgString(m))
	s.trace("deliver %s", msgString(m))
	if m.Type == raftpb.MsgSnap {
		dst.gotMsgSnap = true
		s.probe("follower-needed-msgsnap")
	}
	s.dirOnDeliver(m, dst)
	inc := dst.inc
	go func() {
		defer s.recoverNode(inc, "process")
		inc.tr.Raft.Process(inc.ctx, m)
	}()
	if m.Type == raftpb.MsgSnap && !qm.from.dead && !qm.from.stopped && !qm.from.transportStopped {
		synctest.Wait()
		qm.from.tr.Raft.ReportSnapshot(m.To, raft.SnapshotFinish)
	}
}

// reportDrop does what the real transport does when it cannot deliver.
func (s *Sim) reportDrop(qm qmsg) {
	from := qm.from
	if from.dead || from.stopped || from.transportStopped {
		return
	}
	switch qm.m.Type {
	case raftpb.MsgSnap:
		from.tr.Raft.ReportSnapshot(qm.m.To, raft.SnapshotFailure)
		s.probe("msgsnap-failure-reported")
	case raftpb.MsgApp:
		if s.k.UnreachPM > 0 && s.tape.Chance(s.k.UnreachPM, 1000) {
			from.tr.Raft.ReportUnreachable(qm.m.To)
			s.probe("unreachable-reported")
		}
	}
}

func (s *Sim) recoverNode(inc *incarnation, what string) {
	if r := recover(); r != nil {
		if inc != nil && (inc.dead || inc.stopped) {
			return // a killed process cannot fail
		}
		s.mu.Lock()
		s.res.Panics = append(s.res.Panics, fmt.Sprintf("n%d %s: panic: %v", inc.node.id, what, r))
		s.mu.Unlock()
	}
}

func (s *Sim) pickNode(c *clientState, cmd *Cmd) int {
	if cmd.Node > 0 {
		return cmd.Node
	}
	elig := s.eligibleNodes()
	if c.prog.Sticky && c.conn != nil {
		for _, e := range elig {
			if e == c.node {
				return e
			}
		}
	}
	return elig[s.tape.Draw(len(elig))]
}

func (s *Sim) openConn(c *clientState, node int) {
	if c.conn != nil && c.node == node && !c.conn.inc.dead {
		return
	}
	if c.conn != nil {
		c.conn.clientClose()
	}
	inc := s.nodes[node-1].inc
	conn := newConn(fmt.Sprintf("c%d", c.idx), inc)
	inc.conns = append(inc.conns, conn)
	c.conn, c.node, c.rx = conn, node, nil
	go func() {
		defer func() {
			if r := recover(); r != nil {
				if inc.dead || inc.stopped {
					return // a killed process cannot fail
				}
				s.mu.Lock()
				what := "connection handler"
				if op := c.cur; op != nil && c.conn == conn {
					what += " executing " + truncate(cmdString(op.Args), 80)
					if mi := mgmtShape(op.Args, len(s.nodes)); mi.is && s.res.PanicClass == "" {
						s.res.PanicClass = mi.class
					}
				}
				s.res.Panics = append(s.res.Panics, fmt.Sprintf("n%d %s: panic: %v", inc.node.id, what, r))
				s.mu.Unlock()
			}
		}()
		inc.vn.Serve(inc.ctx, conn)
	}()
}

func (s *Sim) applySend(ci int) {
	c := s.cs[ci]
	cmd := &c.prog.Cmds[c.next]
	node := s.pickNode(c, cmd)
	s.issue(c, cmd.Args, node, c.next, false, false)
	c.next++
	if s.k.Burst {
		// race sweep: every other client that can send does so in the same
		// window, so that several connection handlers of a node run at once
		for _, o := range s.cs {
			if o == c || o.cur != nil || o.next >= len(o.prog.Cmds) {
				continue
			}
			oc := &o.prog.Cmds[o.next]
			elig := s.eligibleNodes()
			if len(elig) == 0 {
				break
			}
			n := oc.Node
			if n == 0 {
				n = elig[0]
			}
			ok := false
			for _, e := range elig {
				if e == n {
					ok = true
				}
			}
			if !ok {
				continue
			}
			s.issue(o, oc.Args, n, o.next, false, false)
			o.next++
		}
	}
}

func (s *Sim) issue(c *clientState, args []B, node int, idx int, final, probe bool) *OpRec {
	s.openConn(c, node)
	s.res.Seq++
	op := &OpRec{Client: c.idx, Idx: idx, Args: args, Node: node, InvokeSeq: s.res.Seq, InvokeAt: time.Now(), Final: final, Probe: probe}
	c.ops = append(c.ops, op)
	c.cur = op
	s.noteCommand(args)
	s.issued++
	s.journal(s.deathSig(), "c%d->n%d %s", c.idx, node, truncate(cmdString(args), 200))
	s.trace("c%d->n%d send#%d %s", c.idx, node, idx, truncate(cmdString(args), 120))
	if lead := s.nodes[node-1].view.lead; lead != 0 && lead != uint64(node) {
		s.probe("command-via-follower")
	}
	c.conn.deliver(rd.EncodeCommand(argv(args)))
	return op
}

func (s *Sim) noteCommand(args []B) {
	if len(args) == 0 {
		s.fault("mgmt-empty-command")
		s.mgmtClass, s.mgmtStep, s.mgmtNoChange = "empty-command", s.step, true
		s.lastCmdClass = "empty-command"
		return
	}
	name := strings.ToLower(string(args[0]))
	switch name {
	case "rpush", "lpush", "lpushx", "rpushx", "lmove", "linsert":
		s.listSeen = true
	}
	if touchesTTLKey(args) {
		switch name {
		case "setex", "expire", "set":
			s.ttlIssued = true
		}
	}
	if mi := mgmtShape(args, len(s.nodes)); mi.is {
		s.fault("mgmt-" + mi.class)
		if mi.changes == "" || !(s.mgmtNoChange && s.step-s.mgmtStep < 80) {
			// (a command that is not a well-formed membership change keeps the
			// attribution for a while: the ones that go through the log are
			// executed by every replica a few steps after they were sent)
			s.mgmtClass, s.mgmtStep, s.mgmtNoChange = mi.class, s.step, mi.changes == ""
		}
		// a well-formed membership change written into a client program
		id := int(mi.id)
		switch {
		case mi.changes == "delete" && mi.id >= 1 && mi.id <= uint64(len(s.nodes)):
			s.rconfDel = true
			s.fault("rconf-delete")
			s.rconfDelHighest = id == len(s.nodes)
			s.nodes[id-1].removed = true
		case mi.changes == "add" && id == len(s.nodes)+1 && mi.id < 1<<20:
			s.rconfAdd = true
			s.fault("rconf-add")
			s.nodes = append(s.nodes, &nodeState{id: id})
			s.res.Nodes = s.nodes
			s.joiner = id
		}
	}
	if s.prop == "C14" {
		s.lastCmdClass = argClass(args)
	} else {
		n := strings.ToUpper(name)
		if !isPrintable(n) || len(n) > 16 {
			n = "?"
		}
		s.lastCmdClass = "cmd-" + n
	}
}

// ---- teardown ---------------------------------------------------------------------

func (s *Sim) stopIncarnation(inc *incarnation) {
	if inc.stopped {
		return
	}
	inc.stopped = true
	for _, c := range inc.conns {
		c.clientClose()
		s.openGate(c)
	}
	synctest.Wait()
	// handlers whose proposal will never commit wait forever (HandleCluster
	// has no way out): release them one at a time so that they see the EOF of
	// their connection and return, and nothing of this run stays behind
	if inc.vn != nil {
		for _, ch := range inc.vn.PendingCallbackChans() {
			select {
			case ch <- nil:
			default:
			}
			synctest.Wait()
		}
	}
	func() {
		defer func() { recover() }()
		inc.vn.Stop()
	}()
	synctest.Wait()
	inc.cancel()
	synctest.Wait()
}

func (s *Sim) teardown() {
	for _, c := range s.cs {
		if c.conn != nil {
			c.conn.clientClose()
		}
	}
	s.mu.Lock()
	for _, inc := range s.incs {
		inc.dead = true // nothing a node does during shutdown matters any more
	}
	s.mu.Unlock()
	for _, inc := range s.incs {
		s.stopIncarnation(inc)
	}
	s.rootCancel()
	synctest.Wait()
	// whatever goroutine is still parked (a parser whose handler is gone) must
	// not keep the run's memory alive
	s.mu.Lock()
	for _, inc := range s.incs {
		for _, c := range inc.conns {
			c.mu.Lock()
			c.inc = nil
			c.in, c.out = nil, nil
			c.mu.Unlock()
		}
		inc.conns, inc.outbox, inc.vn, inc.tr = nil, nil, nil, nil
	}
	s.shadow.dur = map[uint64][]byte{}
	s.dumpAt = nil
	s.links = map[[2]uint64]*link{}
	s.byTransport = map[*rafthttp.Transport]*incarnation{}
	s.mu.Unlock()
}

func itoa(i int) string { return strconv.Itoa(i) }

// seededReader is the run's source of "random" bytes for UUIDs.
type seededReader struct {
	mu sync.Mutex
	r  *core.Rand
}

func (sr *seededReader) Read(p []byte) (int, error) {
	sr.mu.Lock()
	defer sr.mu.Unlock()
	for i := range p {
		p[i] = byte(sr.r.Uint64())
	}
	return len(p), nil
}

// configThroughJSON writes cfg as the JSON document a marshalled Config is (it
// carries a "Databases" member, here one that asks for several) and reads it back
// through the server's own config.ParseConfigJson.
func configThroughJSON(cfg *config.Config) *config.Config {
	doc := *cfg
	doc.Databases = 4
	b, err := json.Marshal(&doc)
	if err != nil {
		return nil
	}
	f, err := os.CreateTemp("", "verif-cluster-*.json")
	if err != nil {
		return nil
	}
	defer os.Remove(f.Name())
	f.Write(b)
	f.Close()
	out := &config.Config{ShardNum: cfg.ShardNum, Databases: cfg.Databases, ChanBufferSize: cfg.ChanBufferSize, LogLevel: cfg.LogLevel}
	if err := out.ParseConfigJson(f.Name()); err != nil {
		return nil
	}
	return out
}
