package e2

import (
	"context"
	"fmt"
	"sort"
	"strings"
	"testing/synctest"
	"time"

	"github.com/innovationb1ue/RedisGO/config"
	"github.com/innovationb1ue/RedisGO/server"
	"go.etcd.io/etcd/raft/v3"

	rd "verifsim/respdec"
)

// serving: the nodes expected to serve at the end of the run.
func (s *Sim) serving() []*nodeState {
	var out []*nodeState
	for _, ns := range s.nodes {
		if ns.member && ns.removed && s.isLive(ns) && s.stillMember(ns.id) {
			// its `rconf delete` never took effect (dropped by raft like any
			// configuration change proposed while another one is unapplied)
			out = append(out, ns)
			continue
		}
		if ns.member && !ns.removed {
			if ns.id > s.k.Nodes && !s.admitted(ns.id) {
				// its `rconf add` was answered but never took effect (raft drops a
				// configuration change proposed while another one is still
				// unapplied): nobody knows this node, it cannot be expected to serve
				continue
			}
			out = append(out, ns)
		}
	}
	return out
}

func (s *Sim) converged() bool {
	if len(s.sortedLinks()) > 0 {
		return false
	}
	var lead, applied uint64
	first := true
	for _, ns := range s.serving() {
		if !ns.view.ok || ns.view.lead == 0 {
			return false
		}
		if first {
			lead, applied, first = ns.view.lead, ns.view.applied, false
		} else if ns.view.lead != lead || ns.view.applied != applied {
			return false
		}
		if ns.view.applied != ns.view.commit {
			return false
		}
	}
	leaderServing := false
	for _, ns := range s.serving() {
		if uint64(ns.id) == lead {
			if ns.view.commit != applied || ns.view.state != raft.StateLeader {
				return false
			}
			leaderServing = true
		}
	}
	return !first && leaderServing
}

func (s *Sim) statusLine() string {
	var parts []string
	for _, ns := range s.nodes {
		switch {
		case ns.removed:
			parts = append(parts, fmt.Sprintf("n%d:removed", ns.id))
		case !ns.view.ok:
			parts = append(parts, fmt.Sprintf("n%d:down", ns.id))
		default:
			extra := ""
			if ns.inc != nil && ns.inc.unknownPeerMsgs > 0 {
				extra = fmt.Sprintf(",msgs-to-unknown-peers=%d%v", ns.inc.unknownPeerMsgs, ns.inc.unknownLog)
			}
			parts = append(parts, fmt.Sprintf("n%d:lead=%d,term=%d,commit=%d,applied=%d%s", ns.id, ns.view.lead, ns.view.term, ns.view.commit, ns.view.applied, extra))
		}
	}
	return strings.Join(parts, " ")
}

// settle delivers everything (oldest first) and ticks until cond holds or the
// budget of simulated time is used.
func (s *Sim) settle(cond func() bool, budget time.Duration) bool {
	deadline := time.Now().Add(budget)
	for guard := 0; guard < 200000; guard++ {
		synctest.Wait()
		s.collect()
		if len(s.res.Panics) > 0 || s.res.Harness != "" {
			return false
		}
		if cond() {
			return true
		}
		s.step++
		s.res.Steps++
		links := s.sortedLinks()
		if len(links) > 0 {
			best := links[0]
			for _, l := range links[1:] {
				if l.q[0].emitStep < best.q[0].emitStep {
					best = l
				}
			}
			s.applyDeliver(best)
			continue
		}
		if s.joiner > 0 {
			s.startJoiner()
			continue
		}
		if !time.Now().Before(deadline) {
			return false
		}
		d := s.nextTick()
		s.journal(s.deathSig(), "tick +%v", d)
		s.trace("tick +%v", d)
		time.Sleep(d)
	}
	return false
}

func (s *Sim) keysOfWorkload() (keys []string, typ map[string]string) {
	typ = map[string]string{}
	for _, c := range s.sc.Clients {
		for _, cmd := range c.Cmds {
			if len(cmd.Args) < 2 {
				continue
			}
			name := strings.ToLower(string(cmd.Args[0]))
			fam := familyOf(name)
			if fam == "" {
				continue
			}
			var ks []string
			switch name {
			case "del", "exists", "mget":
				for _, a := range cmd.Args[1:] {
					ks = append(ks, string(a))
				}
			case "mset":
				for i := 1; i+1 < len(cmd.Args); i += 2 {
					ks = append(ks, string(cmd.Args[i]))
				}
			default:
				ks = []string{string(cmd.Args[1])}
			}
			for _, k := range ks {
				if _, ok := typ[k]; !ok || fam != "key" {
					if fam != "key" || typ[k] == "" {
						typ[k] = fam
					}
				}
			}
		}
	}
	for k := range typ {
		keys = append(keys, k)
	}
	sort.Strings(keys)
	return
}

func familyOf(name string) string {
	switch name {
	case "set", "get", "append", "incr", "decr", "incrby", "decrby", "strlen", "setnx", "mset", "mget", "getrange", "setrange":
		return "string"
	case "rpush", "lpush", "lpop", "rpop", "lrange", "llen", "lindex", "lset", "lrem", "ltrim":
		return "list"
	case "sadd", "srem", "smembers", "scard", "sismember":
		return "set"
	case "hset", "hget", "hdel", "hgetall", "hlen", "hexists":
		return "hash"
	case "del", "exists", "type":
		return "key"
	}
	return ""
}

func readCmd(key, fam string) []B {
	switch fam {
	case "list":
		return bs("lrange", key, "0", "-1")
	case "set":
		return bs("smembers", key)
	case "hash":
		return bs("hgetall", key)
	}
	return bs("get", key)
}

func (s *Sim) auxClient(name string) *clientState {
	c := &clientState{prog: &ClientProg{Name: name}, idx: len(s.cs)}
	s.cs = append(s.cs, c)
	s.res.Clients = s.cs
	return c
}

func (s *Sim) runFinale() {
	s.finale, s.noFaults = true, true
	s.trace("finale")
	// the read-backs of the finale are not part of the explored schedule: handlers
	// are no longer parked at the proposed hook
	s.mu.Lock()
	s.gatesOpen = true
	s.mu.Unlock()
	for _, inc := range s.incs {
		for _, c := range inc.conns {
			s.openGate(c)
		}
	}
	if s.dir != nil && s.dir.phase < 9 {
		// the workload ended before the directed plan did: the plan is over
		s.dir.phase, s.dir.allowed = 9, nil
		s.probe("directed-plan-cut-short-by-end-of-workload")
	}
	if s.partitioned {
		s.heal()
	}
	s.mu.Lock()
	for _, ns := range s.nodes {
		ns.slowTill = 0
		if ns.inc != nil {
			ns.inc.arm = nil
		}
	}
	s.mu.Unlock()
	budget := time.Duration(s.k.LivenessS) * time.Second
	restartAll := func() {
		for _, ns := range s.nodes {
			if ns.down && ns.member && !ns.removed {
				s.restart(ns)
				synctest.Wait()
				s.collect()
			}
		}
	}
	restartAll()
	if s.joiner > 0 {
		s.startJoiner()
		synctest.Wait()
		s.collect()
	}
	if s.sc.Variant == "clean-restart" {
		// the simplest crash there is: every node is killed while idle, after
		// everything was acknowledged and replicated, and started again
		if s.settle(s.converged, budget) {
			s.step++
			s.journal(s.deathSig(), "kill every node while idle")
			s.mu.Lock()
			for _, id := range s.liveIDs() {
				s.crashLocked(s.nodes[id-1].inc, "crash-at-quiescence")
			}
			s.mu.Unlock()
			s.fault("all-nodes-crash")
			synctest.Wait()
			s.collect()
			restartAll()
		}
	}
	if !s.settle(s.converged, budget) {
		if len(s.res.Panics) == 0 && s.res.Harness == "" {
			s.res.Liveness = fmt.Sprintf("after healing the network and restarting every node the cluster did not converge within %v of simulated time: %s", budget, s.statusLine())
		}
		return
	}
	s.probe("finale-converged")
	// commands still unanswered now that everything has been delivered will
	// never be answered: the clients give up
	for i, c := range s.cs {
		if c.cur != nil {
			c.cur.Abandoned = "unanswered"
			s.res.Abandoned++
			s.trace("c%d gave-up#%d", i, c.cur.Idx)
			c.cur = nil
			if c.conn != nil {
				c.conn.clientClose()
				c.conn = nil
			}
		}
	}
	// bounded liveness: every serving node answers a fresh command (the client
	// retries on a new connection whenever an attempt times out)
	for _, ns := range s.serving() {
		c := s.auxClient(fmt.Sprintf("probe%d", ns.id))
		if !s.ask(c, bs("exists", "__verif_probe__"), ns.id, 0, false, true, budget) {
			if len(s.res.Panics) == 0 && s.res.Harness == "" {
				s.res.Liveness = fmt.Sprintf("node %d did not answer a fresh command (retried every %v) within %v of simulated time after the last fault was repaired: %s",
					ns.id, s.attemptTimeout(), budget, s.statusLine())
			}
			return
		}
	}
	// read every key of the workload back on every node
	if s.sc.Kind != "C14" {
		keys, typ := s.keysOfWorkload()
		for _, ns := range s.serving() {
			c := s.auxClient(fmt.Sprintf("reader%d", ns.id))
			for i, k := range keys {
				if !s.ask(c, readCmd(k, typ[k]), ns.id, i, true, false, budget) {
					if len(s.res.Panics) == 0 && s.res.Harness == "" {
						s.res.Liveness = fmt.Sprintf("node %d did not answer the read-back of %q within %v: %s", ns.id, k, budget, s.statusLine())
					}
					return
				}
			}
		}
	}
	if !s.settle(s.converged, budget) {
		if len(s.res.Panics) == 0 && s.res.Harness == "" {
			s.res.Liveness = "cluster did not converge after the read-back: " + s.statusLine()
		}
		return
	}
	if s.k.TTL {
		// let the deadlines that are still pending pass, comparing the replicas
		// at every instant on the way (outside the expiry windows)
		for i := 0; i < 6 && s.res.Diverge == nil; i++ {
			last, ok := s.lastNearDeadline(40 * time.Second)
			if !ok {
				break
			}
			target := last.Add(ttlWindow + 300*time.Millisecond)
			s.probe("ttl-finale-waited-past-deadline")
			s.settle(func() bool { return !time.Now().Before(target) || s.res.Diverge != nil }, target.Sub(time.Now())+2*time.Second)
		}
		if !s.settle(s.converged, budget) {
			return
		}
	}
	s.res.Voters = map[int][]uint64{}
	for _, ns := range s.serving() {
		if rn := ns.inc.vn.RaftNode(); rn != nil && rn.Node != nil {
			st := rn.Node.Status()
			var vs []uint64
			for v := range st.Config.Voters.IDs() {
				vs = append(vs, v)
			}
			sort.Slice(vs, func(i, j int) bool { return vs[i] < vs[j] })
			s.res.Voters[ns.id] = vs
		}
		s.res.FinalDumps[ns.id] = dumpAll(ns.inc.vn.Manager())
		if s.k.TTL {
			s.res.FinalDumps[ns.id] = withoutTTLKeys(s.res.FinalDumps[ns.id])
		}
		s.res.FinalIdx[ns.id] = ns.view.applied
		s.trace("final n%d applied=%d dump=%016x", ns.id, ns.view.applied, hashLines(s.res.FinalDumps[ns.id]))
	}
}

func hashLines(l []string) uint64 {
	var h uint64 = 1469598103934665603
	for _, s := range l {
		for i := 0; i < len(s); i++ {
			h ^= uint64(s[i])
			h *= 1099511628211
		}
		h ^= 0xff
		h *= 1099511628211
	}
	return h
}

// ---- C14 reference: the same program through a standalone manager ----------------

func (s *Sim) runReference() {
	cfg := &config.Config{ShardNum: s.k.ShardNum, Databases: s.databases(), ChanBufferSize: 10, LogLevel: "panic"}
	config.Configures = cfg
	mgr := server.NewManager(cfg)
	// a standalone SUBSCRIBE leaves a goroutine behind that lives as long as its
	// context: the reference gets its own, ended with the reference run
	ctx, cancel := context.WithCancel(context.Background())
	defer func() {
		cancel()
		synctest.Wait()
	}()
	if len(s.sc.Clients) == 0 {
		return
	}
	prog := &s.sc.Clients[0]
	conn := newConn("ref", nil)
	var kept []Cmd
	for _, cmd := range prog.Cmds {
		if cmd.SleepMS > 0 {
			time.Sleep(time.Duration(cmd.SleepMS) * time.Millisecond)
			kept = append(kept, cmd)
			continue
		}
		var v rd.Value
		panicked := false
		func() {
			defer func() {
				if r := recover(); r != nil {
					panicked = true
				}
			}()
			res := mgr.ExecCommand(ctx, argv(cmd.Args), conn)
			var b []byte
			if res == nil {
				b = []byte("-unknown error\r\n")
			} else {
				b = res.ToBytes()
			}
			val, n, st := rd.Decode(b)
			if st != rd.OK || n != len(b) {
				v = rd.Value{Kind: rd.Error, Str: []byte("reference reply is not RESP")}
				panicked = true
				return
			}
			v = val
		}()
		if panicked {
			// the standalone server has no defined answer for this input (it is
			// C04's business); the comparison stops being meaningful here
			break
		}
		kept = append(kept, cmd)
		s.res.RefReplies = append(s.res.RefReplies, v)
	}
	s.res.RefSkipped = len(prog.Cmds) - len(kept)
	prog.Cmds = kept
	s.res.RefDump = dumpAll(mgr)
	if s.k.TTL {
		s.res.RefDump = withoutTTLKeys(s.res.RefDump)
	}
}

func (s *Sim) attemptTimeout() time.Duration {
	t := s.k.OpTimeoutTicks
	if t > 50 {
		t = 50
	}
	return time.Duration(t) * tickEvery
}

// ask issues a command on behalf of the harness and retries it on a fresh
// connection whenever an attempt is not answered in time, until the budget of
// simulated time is used.  Every attempt is part of the history.
func (s *Sim) ask(c *clientState, args []B, node int, idx int, final, probe bool, budget time.Duration) bool {
	deadline := time.Now().Add(budget)
	for attempt := 0; ; attempt++ {
		// wait until the node knows a leader (replay-exact rule for proposals)
		ns := s.nodes[node-1]
		if !s.settle(func() bool { return ns.view.ok && ns.view.lead != 0 }, time.Until(deadline)) {
			return false
		}
		op := s.issue(c, args, node, idx, final, probe)
		left := time.Until(deadline)
		if at := s.attemptTimeout(); at < left {
			left = at
		}
		s.settle(func() bool { return op.Done || op.Abandoned != "" }, left)
		if op.Done {
			return true
		}
		if len(s.res.Panics) > 0 || s.res.Harness != "" {
			return false
		}
		if c.cur == op {
			op.Abandoned = "timeout"
			s.res.Abandoned++
			s.trace("c%d timeout#%d", c.idx, op.Idx)
			c.cur = nil
			if c.conn != nil {
				c.conn.clientClose()
				c.conn = nil
			}
		}
		if !time.Now().Before(deadline) {
			return false
		}
		s.probe("finale-retry")
	}
}

// admitted: some configured node counts id among the voting members.
func (s *Sim) admitted(id int) bool {
	for _, ns := range s.nodes {
		if ns.id <= s.k.Nodes && ns.view.ok {
			if _, ok := ns.view.voters[uint64(id)]; ok {
				return true
			}
		}
	}
	return false
}

// stillMember: every node that can be asked counts id among the voting members.
func (s *Sim) stillMember(id int) bool {
	n := 0
	for _, ns := range s.nodes {
		if ns.view.ok {
			if _, ok := ns.view.voters[uint64(id)]; !ok {
				return false
			}
			n++
		}
	}
	return n > 0
}
