package e2

import (
	"fmt"
	"os"
	"strings"

	"go.etcd.io/etcd/client/pkg/v3/fileutil"
	"go.etcd.io/etcd/client/pkg/v3/types"
	"go.etcd.io/etcd/raft/v3/raftpb"
	"go.etcd.io/etcd/server/v3/etcdserver/api/rafthttp"
)

// cur is the simulation the process-wide hooks report to.
var cur *Sim

// simNet implements rafthttp.VerifNetwork: the Transport keeps its identity and
// its Raft callback; messages go to the simulator's per-link queues.
type simNet struct{}

func init() {
	rafthttp.VerifNet = simNet{}
	fileutil.VerifSyncHook = syncHook
}

func (simNet) Start(t *rafthttp.Transport) {
	s := cur
	if s == nil {
		return
	}
	s.mu.Lock()
	defer s.mu.Unlock()
	id := int(t.ID)
	if id < 1 || id > len(s.nodes) {
		return
	}
	inc := s.nodes[id-1].starting
	if inc == nil {
		return
	}
	inc.tr = t
	s.byTransport[t] = inc
}

func (simNet) AddPeer(t *rafthttp.Transport, id types.ID, urls []string) {
	s := cur
	if s == nil {
		return
	}
	s.mu.Lock()
	defer s.mu.Unlock()
	if inc := s.byTransport[t]; inc != nil {
		inc.peers[uint64(id)] = true
	}
}

func (simNet) RemovePeer(t *rafthttp.Transport, id types.ID) {
	s := cur
	if s == nil {
		return
	}
	s.mu.Lock()
	defer s.mu.Unlock()
	if inc := s.byTransport[t]; inc != nil {
		delete(inc.peers, uint64(id))
	}
}

func (simNet) Stop(t *rafthttp.Transport) {
	s := cur
	if s == nil {
		return
	}
	s.mu.Lock()
	defer s.mu.Unlock()
	if inc := s.byTransport[t]; inc != nil {
		inc.transportStopped = true
	}
}

func (simNet) Send(t *rafthttp.Transport, msgs []raftpb.Message) {
	s := cur
	if s == nil {
		return
	}
	s.mu.Lock()
	inc := s.byTransport[t]
	s.mu.Unlock()
	if inc == nil || len(msgs) == 0 {
		return
	}
	// seam crossing: killed between persisting and sending
	if !s.seam(inc, seamSend) {
		return
	}
	s.mu.Lock()
	defer s.mu.Unlock()
	for _, m := range msgs {
		if m.To == 0 {
			continue // intentionally dropped by raft
		}
		if !inc.peers[m.To] {
			inc.unknownPeerMsgs++
			if len(inc.unknownLog) < 8 {
				inc.unknownLog = append(inc.unknownLog, msgString(m))
			}
			continue // the real transport ignores unknown targets
		}
		inc.outbox = append(inc.outbox, m)
	}
}

// syncHook is told about every Fsync/Fdatasync of the process.
func syncHook(f *os.File, after bool) {
	s := cur
	if s == nil {
		return
	}
	name := f.Name()
	s.mu.Lock()
	var inc *incarnation
	for _, c := range s.incs {
		if strings.HasPrefix(name, c.dir+"/") {
			inc = c
			break
		}
	}
	if inc == nil || inc.dead {
		s.mu.Unlock()
		return
	}
	if after {
		s.shadow.synced(f)
		inc.syncs++
	} else {
		inc.syncGrown = false
		if strings.HasSuffix(name, ".wal") {
			if ino, isDir, ok := inoOfFile(f); ok && !isDir {
				if fi, err := f.Stat(); err == nil {
					if d, ok := s.shadow.dur[ino]; ok && len(d) > 0 && fi.Size() > int64(len(d)) {
						inc.syncGrown = true
					}
				}
			}
		}
	}
	s.mu.Unlock()
	if after {
		s.seam(inc, seamAfterSync)
	} else {
		s.seam(inc, seamBeforeSync)
	}
}

func msgString(m raftpb.Message) string {
	s := fmt.Sprintf("%s %d->%d t%d", strings.TrimPrefix(m.Type.String(), "Msg"), m.From, m.To, m.Term)
	switch m.Type {
	case raftpb.MsgApp:
		s += fmt.Sprintf(" prev=%d/%d n=%d c=%d", m.Index, m.LogTerm, len(m.Entries), m.Commit)
	case raftpb.MsgAppResp:
		s += fmt.Sprintf(" idx=%d rej=%v hint=%d", m.Index, m.Reject, m.RejectHint)
	case raftpb.MsgVote, raftpb.MsgPreVote:
		s += fmt.Sprintf(" last=%d/%d", m.Index, m.LogTerm)
	case raftpb.MsgVoteResp, raftpb.MsgPreVoteResp:
		s += fmt.Sprintf(" rej=%v", m.Reject)
	case raftpb.MsgHeartbeat:
		s += fmt.Sprintf(" c=%d", m.Commit)
	case raftpb.MsgSnap:
		s += fmt.Sprintf(" snap=%d/%d", m.Snapshot.Metadata.Index, m.Snapshot.Metadata.Term)
	case raftpb.MsgProp:
		s += fmt.Sprintf(" n=%d", len(m.Entries))
	}
	return s
}
