package e2

import (
	"fmt"
	"sort"
	"time"

	"go.etcd.io/etcd/raft/v3"
)

// fireFault lets the adversary act.  It returns true if it consumed this step.
func (s *Sim) fireFault() bool {
	f := &s.sc.Faults
	// which kinds are possible right now (fixed order)
	var kinds []string
	for _, k := range f.Kinds {
		switch k {
		case "partition":
			if !s.partitioned && s.liveCount() >= 2 {
				kinds = append(kinds, k)
			}
		case "isolate-leader":
			if !s.partitioned && s.leaderID() != 0 && s.liveCount() >= 2 {
				kinds = append(kinds, k)
			}
		case "crash", "crash-seam":
			if len(s.crashable()) > 0 {
				kinds = append(kinds, k)
			}
		case "crash-all":
			if s.liveCount() >= 1 && !f.MinorityOnly {
				kinds = append(kinds, k)
			}
		case "slow-node":
			if s.liveCount() >= 2 {
				kinds = append(kinds, k)
			}
		case "rconf-add":
			if !s.rconfAdd && !s.rconfDel && len(s.eligibleNodes()) > 0 && len(s.nodes) < 6 {
				kinds = append(kinds, k)
			}
		case "rconf-delete":
			if !s.rconfDel && !s.rconfAdd && len(s.eligibleNodes()) > 0 && len(s.nodes) >= 3 {
				kinds = append(kinds, k)
			}
		}
	}
	if len(kinds) == 0 {
		return false
	}
	kind := kinds[s.tape.Draw(len(kinds))]
	hold := f.HoldMin
	if f.HoldMax > hold {
		hold += s.tape.Draw(f.HoldMax - hold + 1)
	}
	s.faultsFired++
	s.res.FaultsAny = true
	switch kind {
	case "partition":
		live := s.liveIDs()
		// a non-empty proper subset on one side
		mask := 1 + s.tape.Draw((1<<len(live))-2)
		var a, b []int
		for i, id := range live {
			if mask&(1<<i) != 0 {
				a = append(a, id)
			} else {
				b = append(b, id)
			}
		}
		// nodes that are down now belong to side b when they come back
		for _, ns := range s.nodes {
			if !s.isLive(ns) {
				b = append(b, ns.id)
			}
		}
		asym := s.tape.Draw(3) == 2
		for _, x := range a {
			for _, y := range b {
				s.blocked[[2]uint64{uint64(x), uint64(y)}] = true
				if !asym {
					s.blocked[[2]uint64{uint64(y), uint64(x)}] = true
				}
			}
		}
		s.partitioned, s.partHoldTill = true, s.step+hold
		if asym {
			s.fault("partition-asymmetric")
		} else {
			s.fault("partition")
		}
		s.journal(s.deathSig(), "partition %v | %v asym=%v", a, b, asym)
		s.trace("partition %v | %v asym=%v hold=%d", a, b, asym, hold)
	case "isolate-leader":
		l := s.leaderID()
		for _, ns := range s.nodes {
			if ns.id != l {
				s.blocked[[2]uint64{uint64(l), uint64(ns.id)}] = true
				s.blocked[[2]uint64{uint64(ns.id), uint64(l)}] = true
			}
		}
		s.partitioned, s.partHoldTill = true, s.step+hold
		s.fault("leader-isolated")
		s.journal(s.deathSig(), "isolate leader n%d", l)
		s.trace("isolate-leader n%d hold=%d", l, hold)
	case "crash":
		c := s.crashable()
		ns := s.nodes[c[s.tape.Draw(len(c))]-1]
		s.journal(s.deathSig(), "crash n%d at quiescence", ns.id)
		s.mu.Lock()
		s.crashLocked(ns.inc, "crash-at-quiescence")
		s.mu.Unlock()
	case "crash-seam":
		c := s.crashable()
		ns := s.nodes[c[s.tape.Draw(len(c))]-1]
		kindIdx := seamKind(s.tape.Draw(int(nSeams)))
		// bias towards the sync seams, where disk state is interesting
		if s.tape.Draw(3) == 0 {
			kindIdx = seamBeforeSync
		}
		cd := 1 + s.tape.Draw(5)
		arm := &crashArm{kind: kindIdx, countdown: cd}
		if kindIdx == seamBeforeSync && s.tape.Draw(4) == 0 {
			// wait for the save that runs over the end of its segment
			arm.grown, arm.countdown = true, 1
			if s.tape.Draw(2) == 0 {
				arm.lose = "torn"
			}
			s.fault("crash-armed-on-grown-segment")
		}
		s.mu.Lock()
		ns.inc.arm = arm
		s.mu.Unlock()
		s.fault("crash-armed")
		s.journal(s.deathSig(), "arm crash of n%d at %s #%d", ns.id, seamNames[kindIdx], cd)
		s.trace("arm-crash n%d %s #%d", ns.id, seamNames[kindIdx], cd)
	case "crash-all":
		live := s.liveIDs()
		if s.tape.Draw(2) == 0 {
			s.journal(s.deathSig(), "crash all nodes at quiescence")
			s.mu.Lock()
			for _, id := range live {
				s.crashLocked(s.nodes[id-1].inc, "crash-at-quiescence")
			}
			s.mu.Unlock()
			s.fault("all-nodes-crash")
		} else {
			ns := s.nodes[live[s.tape.Draw(len(live))]-1]
			cd := 1 + s.tape.Draw(3)
			s.mu.Lock()
			ns.inc.arm = &crashArm{kind: seamBeforeSync, countdown: cd, all: true}
			s.mu.Unlock()
			s.fault("crash-armed")
			s.journal(s.deathSig(), "arm crash of all nodes at before-sync #%d of n%d", cd, ns.id)
			s.trace("arm-crash-all n%d before-sync #%d", ns.id, cd)
		}
	case "slow-node":
		live := s.liveIDs()
		ns := s.nodes[live[s.tape.Draw(len(live))]-1]
		ns.slowTill = s.step + hold
		s.fault("slow-node")
		s.trace("slow n%d hold=%d", ns.id, hold)
	case "rconf-add":
		s.rconfAddNode()
	case "rconf-delete":
		s.rconfDeleteNode()
	}
	return true
}

func (s *Sim) liveIDs() []int {
	var out []int
	for _, ns := range s.nodes {
		if s.isLive(ns) && !ns.removed {
			out = append(out, ns.id)
		}
	}
	return out
}

func (s *Sim) leaderID() int {
	best, term := 0, uint64(0)
	for _, ns := range s.nodes {
		if ns.view.ok && ns.view.state == raft.StateLeader && ns.view.term >= term {
			best, term = ns.id, ns.view.term
		}
	}
	return best
}

// crashable: nodes that may be taken down now (C07: a quorum must remain).
func (s *Sim) crashable() []int {
	live := s.liveIDs()
	if len(live) == 0 {
		return nil
	}
	if s.sc.Faults.MinorityOnly {
		members := 0
		for _, ns := range s.nodes {
			if ns.member && !ns.removed {
				members++
			}
		}
		armed := 0
		for _, ns := range s.nodes {
			if s.isLive(ns) && ns.inc.arm != nil {
				armed++
			}
		}
		if len(live)-armed-1 < members/2+1 {
			return nil
		}
	}
	var out []int
	for _, id := range live {
		if s.nodes[id-1].inc.arm == nil {
			out = append(out, id)
		}
	}
	return out
}

func (s *Sim) heal() {
	s.blocked = map[[2]uint64]bool{}
	s.partitioned = false
	s.fault("heal")
	s.journal(s.deathSig(), "heal")
	s.trace("heal")
}

func (s *Sim) imageClass(ns *nodeState) string {
	switch {
	case ns.image.tornInWal:
		return "torn-wal-tail"
	case ns.image.walLost > 0:
		return "unsynced-wal-tail-lost"
	case ns.image.lost > 0:
		return "unsynced-sectors-lost"
	}
	return "clean-image"
}

// restart: a new incarnation on the crash image of the old one.
func (s *Sim) restart(ns *nodeState) {
	// keep raft tickers of different nodes at different instants
	s.phaseShift()
	sig := fmt.Sprintf("%s/restart-failed/%s", s.prop, s.imageClass(ns))
	s.journal(sig, "restart n%d from %s (%s)", ns.id, ns.nextDir, ns.image.description)
	s.trace("restart n%d image(files=%d unsynced=%d lost=%d)", ns.id, ns.image.files, ns.image.dirty, ns.image.lost)
	s.fault("restart")
	ns.restarts++
	if s.ttlIssued {
		ns.restartAfterTTL = true
	}
	if ns.gotMsgSnap {
		ns.restartedAfterMsgSnap = true
		s.probe("restart-after-installing-msgsnap")
	}
	if ns.image.snapFiles > 0 {
		ns.restartedSnap = true
		s.probe("restart-from-image-with-snapshot")
	}
	join := false
	s.startNode(ns, ns.nextDir, join)
	ns.inc.fromImage = true
	if rn := ns.inc.vn.RaftNode(); rn != nil {
		if rn.VerifSnapshotIndex() > 0 {
			s.probe("restart-began-from-snapshot-index")
		}
		if rn.VerifAppliedIndex() > rn.VerifSnapshotIndex() {
			s.probe("restart-replayed-wal-entries")
		}
		ns.lastSnapIdx = rn.VerifSnapshotIndex()
	}
	s.lastSig = ""
}

// phaseShift advances the clock a little so that "now" differs from every live
// ticker phase by at least a millisecond.
func (s *Sim) phaseShift() {
	for try := 0; try < 200; try++ {
		now := time.Now()
		ok := true
		for _, inc := range s.incs {
			if inc.stopped || inc.transportStopped {
				continue
			}
			ph := now.Sub(inc.tickBase) % tickEvery
			if ph < time.Millisecond || tickEvery-ph < time.Millisecond {
				ok = false
			}
		}
		if ok {
			return
		}
		time.Sleep(time.Millisecond + 7*time.Microsecond)
	}
}

func (s *Sim) divergeClass(a, b *nodeState) string {
	switch {
	case a.gotMsgSnap || b.gotMsgSnap:
		return "follower-needed-msgsnap"
	case a.restartedSnap || b.restartedSnap:
		return "restart-after-snapshot"
	case a.restarts > 0 || b.restarts > 0 || s.res.Faults["restart"] > 0:
		return "after-restart"
	case s.rconfAdd || s.rconfDel:
		return "after-rconf"
	case s.res.FaultsAny || s.res.NetFaults:
		return "under-network-faults"
	}
	return "fault-free"
}

// ---- membership changes -----------------------------------------------------------

func (s *Sim) adminClient() *clientState {
	for _, c := range s.cs {
		if c.prog.Name == "admin" {
			return c
		}
	}
	c := &clientState{prog: &ClientProg{Name: "admin"}, idx: len(s.cs)}
	s.cs = append(s.cs, c)
	s.res.Clients = s.cs
	return c
}

func (s *Sim) rconfAddNode() {
	c := s.adminClient()
	if c.cur != nil {
		return
	}
	elig := s.eligibleNodes()
	node := elig[s.tape.Draw(len(elig))]
	id := len(s.nodes) + 1
	s.issue(c, bs(s.rconfSpelling(), "add", itoa(id), nodeURL(id)), node, len(c.ops), false, false)
}

func (s *Sim) startJoiner() {
	id := s.joiner
	s.joiner = 0
	ns := s.nodes[id-1]
	s.phaseShift()
	s.journal(s.prop+"/node-death/joiner-start", "start joiner n%d", id)
	s.trace("start-joiner n%d", id)
	ns.member = true
	s.startNode(ns, fmt.Sprintf("%s/n%dg0", s.base, id), true)
	s.lastSig = ""
}

func (s *Sim) rconfDeleteNode() {
	c := s.adminClient()
	if c.cur != nil {
		return
	}
	elig := s.eligibleNodes()
	node := elig[s.tape.Draw(len(elig))]
	// victim: any configured node id
	var ids []int
	for _, ns := range s.nodes {
		if ns.member {
			ids = append(ids, ns.id)
		}
	}
	sort.Ints(ids)
	if s.sc.Faults.DeleteLowIDOnly && len(ids) > 1 {
		ids = ids[:len(ids)-1]
	}
	victim := ids[s.tape.Draw(len(ids))]
	// (issue notes the command: the victim is no longer expected to serve)
	s.issue(c, bs(s.rconfSpelling(), "delete", itoa(victim)), node, len(c.ops), false, false)
}

// fireScript fires the next due scripted fault, if any.
func (s *Sim) fireScript() bool {
	sf := (*ScriptedFault)(nil)
	for i := range s.sc.Faults.Script {
		f := &s.sc.Faults.Script[i]
		if !f.fired && s.res.Acked >= f.AfterAcked && (!f.AfterMsgSnap || (f.Node >= 1 && f.Node <= len(s.nodes) && s.nodes[f.Node-1].gotMsgSnap)) {
			sf = f
			break
		}
	}
	if sf == nil {
		return false
	}
	pickNode := func() *nodeState {
		if sf.Node >= 1 && sf.Node <= len(s.nodes) {
			return s.nodes[sf.Node-1]
		}
		if l := s.leaderID(); l != 0 {
			return s.nodes[l-1]
		}
		return nil
	}
	hold := sf.Hold
	if hold == 0 {
		hold = 50
	}
	switch sf.Kind {
	case "crash", "crash-seam", "crash-all":
		ns := pickNode()
		if ns == nil || !s.isLive(ns) {
			if sf.Node != 0 {
				sf.fired = true
			}
			return false // no leader yet: try again later
		}
		sf.fired = true
		s.res.FaultsAny = true
		if sf.Kind == "crash" || (sf.Kind == "crash-all" && sf.Seam == "") {
			s.journal(s.deathSig(), "script: %s n%d at quiescence", sf.Kind, ns.id)
			s.mu.Lock()
			s.scriptLose = sf.Lose
			if sf.Kind == "crash-all" {
				for _, id := range s.liveIDs() {
					s.crashLocked(s.nodes[id-1].inc, "crash-at-quiescence")
				}
				s.res.Faults["all-nodes-crash"]++
			} else {
				s.crashLocked(ns.inc, "crash-at-quiescence")
			}
			s.scriptLose = ""
			s.mu.Unlock()
			for _, x := range s.nodes {
				if x.down {
					x.holdTill = s.step + hold
				}
			}
			return true
		}
		kind := seamBeforeSync
		for i, n := range seamNames {
			if n == sf.Seam {
				kind = seamKind(i)
			}
		}
		cd := sf.Countdown
		if cd <= 0 {
			cd = 1
		}
		s.mu.Lock()
		ns.inc.arm = &crashArm{kind: kind, countdown: cd, all: sf.Kind == "crash-all", lose: sf.Lose}
		s.mu.Unlock()
		s.fault("crash-armed")
		s.journal(s.deathSig(), "script: arm crash of n%d at %s #%d", ns.id, seamNames[kind], cd)
		s.trace("script arm-crash n%d %s #%d", ns.id, seamNames[kind], cd)
		return true
	case "isolate-leader", "partition":
		ns := pickNode()
		if ns == nil {
			return false
		}
		sf.fired = true
		s.res.FaultsAny = true
		for _, o := range s.nodes {
			if o.id != ns.id {
				s.blocked[[2]uint64{uint64(ns.id), uint64(o.id)}] = true
				s.blocked[[2]uint64{uint64(o.id), uint64(ns.id)}] = true
			}
		}
		s.partitioned, s.partHoldTill = true, s.step+hold
		if sf.Kind == "isolate-leader" {
			s.fault("leader-isolated")
		} else {
			s.fault("partition")
		}
		s.trace("script isolate n%d hold=%d", ns.id, hold)
		return true
	case "heal":
		sf.fired = true
		if s.partitioned {
			s.heal()
		}
		return true
	case "ticks":
		// time passes (Hold raft ticks) while nothing is delivered and no client acts
		if sf.Hold <= 1 {
			sf.fired = true
		}
		sf.Hold--
		d := s.nextTick()
		s.journal(s.deathSig(), "script: tick +%v", d)
		s.trace("script tick +%v", d)
		time.Sleep(d)
		return true
	case "restart":
		sf.fired = true
		for _, ns := range s.nodes {
			if ns.down && ns.member && !ns.removed && (sf.Node == 0 || sf.Node == ns.id) {
				s.restart(ns)
				return true
			}
		}
		return false
	case "slow-node":
		ns := pickNode()
		if ns == nil {
			return false
		}
		sf.fired = true
		ns.slowTill = s.step + hold
		s.fault("slow-node")
		s.trace("script slow n%d hold=%d", ns.id, hold)
		return true
	}
	sf.fired = true
	return false
}

// rconfSpelling: the connection handler recognises rconf in any letter case.
func (s *Sim) rconfSpelling() string {
	switch s.tape.Draw(5) {
	case 3:
		return "RCONF"
	case 4:
		return "Rconf"
	}
	return "rconf"
}
