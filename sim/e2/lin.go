package e2

import (
	"fmt"
	"sort"
	"strings"
	"time"

	"github.com/anishathalye/porcupine"

	"verifsim/refmodel"
	rd "verifsim/respdec"
)

type linIn struct {
	Args [][]byte
}

type linOut struct {
	V       rd.Value
	Pending bool
}

var t0 = time.Date(2000, 1, 1, 0, 0, 0, 0, time.UTC)

// linModel wraps the reference model as a porcupine model over a key group.
func linModel(ndb int) porcupine.Model {
	if ndb < 1 {
		ndb = 1
	}
	return porcupine.Model{
		Init: func() interface{} { return refmodel.New(ndb) },
		Step: func(state, input, output interface{}) (bool, interface{}) {
			m := state.(*refmodel.Model).Clone()
			in := input.(linIn)
			out := output.(linOut)
			if out.Pending {
				// never answered: it may have taken effect, with any reply
				m.Exec(0, in.Args, t0)
				return true, m
			}
			ok, _ := m.Apply(0, in.Args, t0, out.V)
			return ok, m
		},
		Equal: func(a, b interface{}) bool {
			ma, mb := a.(*refmodel.Model), b.(*refmodel.Model)
			if len(ma.DBs) != len(mb.DBs) || ma.Selected[0] != mb.Selected[0] {
				return false
			}
			for i := range ma.DBs {
				da, db := ma.Dump(i, time.Time{}), mb.Dump(i, time.Time{})
				if len(da) != len(db) {
					return false
				}
				for j := range da {
					if da[j] != db[j] {
						return false
					}
				}
			}
			return true
		},
		DescribeOperation: func(input, output interface{}) string {
			in := input.(linIn)
			out := output.(linOut)
			parts := make([]string, len(in.Args))
			for i, a := range in.Args {
				parts[i] = string(a)
			}
			if out.Pending {
				return strings.Join(parts, " ") + " -> (no reply)"
			}
			return strings.Join(parts, " ") + " -> " + out.V.String()
		},
	}
}

func keysOf(a []B) []string {
	if len(a) < 2 {
		return nil
	}
	switch strings.ToLower(string(a[0])) {
	case "del", "exists", "mget":
		var ks []string
		for _, x := range a[1:] {
			ks = append(ks, string(x))
		}
		return ks
	case "mset":
		var ks []string
		for i := 1; i+1 < len(a); i += 2 {
			ks = append(ks, string(a[i]))
		}
		return ks
	}
	return []string{string(a[1])}
}

type linResult struct {
	Illegal   bool
	Unknown   bool
	Group     []string
	History   string
	Ops       int
	Pending   int
	FinalRead bool // the group's history includes harness read-backs
}

// checkLinearizable partitions the history into key groups (keys joined by a
// multi-key command share a group) and checks each group with porcupine.
func checkLinearizable(rr *RunResult, timeout time.Duration) (res linResult) {
	parent := map[string]string{}
	var find func(string) string
	find = func(k string) string {
		p, ok := parent[k]
		if !ok {
			parent[k] = k
			return k
		}
		if p == k {
			return k
		}
		r := find(p)
		parent[k] = r
		return r
	}
	type rec struct {
		op   *OpRec
		keys []string
	}
	var all []rec
	// SELECT: the cluster has ONE current database for the whole replicated
	// command stream (every replica switches when the entry is applied), so the
	// history is checked against a model with one shared selection, as a whole
	hasSelect := false
	for _, c := range rr.Clients {
		for _, op := range c.ops {
			if len(op.Args) > 0 && strings.EqualFold(string(op.Args[0]), "select") {
				hasSelect = true
			}
		}
	}
	for _, c := range rr.Clients {
		for _, op := range c.ops {
			if op.Probe || len(op.Args) == 0 {
				continue
			}
			if isMgmt(op.Args) {
				continue // replies of management commands are not judged
			}
			if touchesTTLKey(op.Args) {
				continue // deadline-carrying keys are judged by ttlReplies (ttl.go)
			}
			if touchesNondetKey(op.Args) {
				continue // random-choice / auto-id commands: only the replicas' agreement is judged (nondet.go)
			}
			if hasSelect {
				find("*")
				all = append(all, rec{op, []string{"*"}})
				continue
			}
			ks := keysOf(op.Args)
			if len(ks) == 0 {
				continue
			}
			for _, k := range ks[1:] {
				parent[find(k)] = find(ks[0])
			}
			find(ks[0])
			all = append(all, rec{op, ks})
		}
	}
	groups := map[string][]rec{}
	for _, r := range all {
		g := find(r.keys[0])
		groups[g] = append(groups[g], r)
	}
	var names []string
	for g := range groups {
		names = append(names, g)
	}
	sort.Strings(names)
	model := linModel(rr.Sc.Knobs.Databases)
	for _, g := range names {
		var ops []porcupine.Operation
		pend := 0
		for _, r := range groups[g] {
			op := r.op
			o := porcupine.Operation{ClientId: op.Client, Input: linIn{Args: argv(op.Args)}, Call: op.InvokeSeq}
			if op.Done {
				o.Output = linOut{V: op.Reply}
				o.Return = op.ReturnSeq
			} else {
				o.Output = linOut{Pending: true}
				o.Return = rr.Seq + 1000
				pend++
			}
			ops = append(ops, o)
		}
		sort.Slice(ops, func(i, j int) bool { return ops[i].Call < ops[j].Call })
		res.Ops += len(ops)
		res.Pending += pend
		r := porcupine.CheckOperationsTimeout(model, ops, timeout)
		if r == porcupine.Illegal {
			res.Illegal = true
			keys := map[string]bool{}
			for _, rc := range groups[g] {
				for _, k := range rc.keys {
					keys[k] = true
				}
			}
			for k := range keys {
				res.Group = append(res.Group, k)
			}
			sort.Strings(res.Group)
			var sb strings.Builder
			for _, o := range ops {
				fmt.Fprintf(&sb, "  [%d..%d] c%d %s\n", o.Call, o.Return, o.ClientId, model.DescribeOperation(o.Input, o.Output))
			}
			res.History = sb.String()
			return res
		}
		if r == porcupine.Unknown {
			res.Unknown = true
		}
	}
	return res
}
