package e2

import (
	"fmt"
	"sort"
	"strings"
	"time"
	"unicode/utf8"

	"verifsim/core"
	rd "verifsim/respdec"
)

// argClass is the trigger class of one command for C14: which of the argument
// shapes the property quantifies over it carries.  Computed from the command
// alone.
func argClass(a []B) string {
	return classString(argFeatures(a), a)
}

func argFeatures(a []B) []string {
	var f []string
	space, empty, crlf, nonutf := false, false, false, false
	for i, x := range a {
		if i > 0 && len(x) == 0 {
			empty = true
		}
		for _, c := range x {
			switch {
			case c == ' ':
				space = true
			case c == '\r' || c == '\n':
				crlf = true
			}
		}
		if !utf8.Valid(x) {
			nonutf = true
		}
	}
	if space {
		f = append(f, "arg-with-space")
	}
	if empty {
		f = append(f, "empty-arg")
	}
	if crlf {
		f = append(f, "arg-with-crlf")
	}
	if nonutf {
		f = append(f, "non-utf8-arg")
	}
	if len(a) > 0 {
		name := strings.ToLower(string(a[0]))
		if name == "publish" || name == "subscribe" {
			f = append(f, "filtered-command")
		}
	}
	return f
}

func classString(feats []string, a []B) string {
	if len(feats) > 0 {
		set := map[string]bool{}
		for _, x := range feats {
			set[x] = true
		}
		var out []string
		for _, x := range []string{"arg-with-space", "empty-arg", "arg-with-crlf", "non-utf8-arg", "filtered-command", "after-select"} {
			if set[x] {
				out = append(out, x)
			}
		}
		return strings.Join(out, "+")
	}
	if len(a) == 0 {
		return "empty-command"
	}
	n := strings.ToUpper(string(a[0]))
	if !isPrintable(n) || len(n) > 16 {
		n = "?"
	}
	for _, x := range a {
		for _, c := range x {
			if c >= 'A' && c <= 'Z' {
				return "mixed-case:" + n
			}
		}
	}
	return "plain:" + n
}

var c14ReadOnly = map[string]bool{"get": true, "strlen": true, "mget": true, "exists": true, "type": true, "lrange": true, "llen": true, "lindex": true,
	"hgetall": true, "hget": true, "hkeys": true, "hlen": true, "smembers": true, "scard": true, "sismember": true, "zrange": true, "keys": true, "ping": true,
	"publish": true, "subscribe": true}

// taintedClasses computes, for every command of a sequential program, its
// trigger class: the argument shapes it carries itself plus the shapes carried
// by earlier commands that wrote the keys it touches (a plain GET of a key
// written with a space-carrying value belongs to the class of that write).
func taintedClasses(cmds []Cmd) []string {
	taint := map[string]map[string]bool{}
	out := make([]string, len(cmds))
	selected := false // a SELECT was issued: which keyspace a command meets depends on it
	for i, c := range cmds {
		a := c.Args
		if len(a) == 0 {
			out[i] = "empty-command"
			continue
		}
		name := strings.ToLower(string(a[0]))
		set := map[string]bool{}
		if name == "select" {
			selected = true
		}
		if selected {
			set["after-select"] = true
		}
		for _, f := range argFeatures(a) {
			set[f] = true
		}
		var keys []string
		switch name {
		case "keys":
			for k := range taint {
				keys = append(keys, k)
			}
		case "rename":
			if len(a) > 2 {
				keys = []string{string(a[1]), string(a[2])}
			}
		default:
			keys = keysOf(a)
		}
		for _, k := range keys {
			for f := range taint[k] {
				set[f] = true
			}
		}
		var feats []string
		for f := range set {
			feats = append(feats, f)
		}
		out[i] = classString(feats, a)
		if !c14ReadOnly[name] && len(set) > 0 {
			for _, k := range keys {
				if taint[k] == nil {
					taint[k] = map[string]bool{}
				}
				for f := range set {
					taint[k][f] = true
				}
			}
		}
	}
	return out
}

var unorderedReply = map[string]bool{"smembers": true, "hkeys": true, "hvals": true, "keys": true, "sunion": true, "sinter": true, "sdiff": true}

// sameReply compares a cluster reply with the standalone reply of the same
// command: byte-exact payloads, integers exact, nil vs empty distinguished,
// unordered collections as multisets, errors by class.
func sameReply(name string, a, b rd.Value) bool {
	if a.Kind == rd.Error || b.Kind == rd.Error {
		if a.Kind != b.Kind {
			return false
		}
		return strings.HasPrefix(string(a.Str), "WRONGTYPE") == strings.HasPrefix(string(b.Str), "WRONGTYPE")
	}
	if a.StringLike() && b.StringLike() {
		return string(a.Str) == string(b.Str)
	}
	if a.Kind != b.Kind {
		return false
	}
	if a.Kind == rd.Array {
		if len(a.Arr) != len(b.Arr) {
			return false
		}
		if unorderedReply[name] {
			return multiset(a.Arr, 1) == multiset(b.Arr, 1)
		}
		if name == "hgetall" {
			return multiset(a.Arr, 2) == multiset(b.Arr, 2)
		}
		for i := range a.Arr {
			if !sameReply("", a.Arr[i], b.Arr[i]) {
				return false
			}
		}
		return true
	}
	return rd.Equal(a, b)
}

func multiset(vs []rd.Value, group int) string {
	var items []string
	for i := 0; i+group <= len(vs); i += group {
		var p []string
		for j := 0; j < group; j++ {
			v := vs[i+j]
			if v.StringLike() {
				p = append(p, fmt.Sprintf("s%q", v.Str))
			} else {
				p = append(p, v.String())
			}
		}
		items = append(items, strings.Join(p, "="))
	}
	sort.Strings(items)
	return strings.Join(items, ",")
}

func diffDumps(a, b []string) string {
	am, bm := map[string]bool{}, map[string]bool{}
	for _, l := range a {
		am[l] = true
	}
	for _, l := range b {
		bm[l] = true
	}
	var out []string
	for _, l := range a {
		if !bm[l] {
			out = append(out, "- "+truncate(l, 160))
		}
	}
	for _, l := range b {
		if !am[l] {
			out = append(out, "+ "+truncate(l, 160))
		}
	}
	if len(out) > 8 {
		out = append(out[:8], fmt.Sprintf("... (%d differing lines)", len(out)))
	}
	return strings.Join(out, "\n")
}

func equalLines(a, b []string) bool {
	if len(a) != len(b) {
		return false
	}
	for i := range a {
		if a[i] != b[i] {
			return false
		}
	}
	return true
}

// runClass summarises, from the fault kinds that fired, the situation in which
// an oracle failed.  Used where no finer trigger class applies.
func runClass(rr *RunResult) string {
	snapRestart, restart, msgsnap := false, false, false
	for _, ns := range rr.Nodes {
		if ns.restartedSnap {
			snapRestart = true
		}
		if ns.restarts > 0 {
			restart = true
		}
		if ns.gotMsgSnap {
			msgsnap = true
		}
	}
	switch {
	case snapRestart:
		return "restart-after-snapshot"
	case msgsnap:
		return "follower-needed-msgsnap"
	case restart && rr.Faults["sectors-lost"] > 0:
		return "restart-after-sector-loss"
	case restart:
		return "after-restart"
	case rr.Faults["rconf-add"]+rr.Faults["rconf-delete"] > 0:
		return "after-rconf"
	case rr.Faults["partition"]+rr.Faults["partition-asymmetric"]+rr.Faults["leader-isolated"] > 0:
		return "after-partition"
	case rr.NetFaults || rr.Faults["msg-drop"] > 0:
		return "under-message-loss"
	}
	return "fault-free"
}

// judge returns ("","") when the property held on this run.
func judge(sc *Scenario, rr *RunResult, env *core.Env) (string, string) {
	p := sc.Kind
	if rr.Harness != "" {
		return p + "/harness-trouble", rr.Harness
	}
	if len(rr.Panics) > 0 {
		sort.Strings(rr.Panics)
		return p + "/node-death/" + deathClassOf(sc, rr), "a node would have died (no recover on any server path): " + rr.Panics[0]
	}
	for i, c := range rr.Clients {
		if c.bad != "" {
			return p + "/reply-stream/" + runClass(rr), fmt.Sprintf("client %d: %s", i, c.bad)
		}
	}
	if len(rr.NodeDeaths) > 0 {
		return p + "/node-death/shut-down-" + runClass(rr), strings.Join(rr.NodeDeaths, "; ")
	}
	switch p {
	case "C14":
		return judgeC14(sc, rr)
	case "C08":
		return judgeC08(sc, rr)
	}
	return judgeC07(sc, rr)
}

func deathClassOf(sc *Scenario, rr *RunResult) string {
	if rr.PanicClass != "" {
		return rr.PanicClass
	}
	if rr.Faults["rconf-delete"] > 0 {
		return "after-rconf-delete"
	}
	if rr.Faults["rconf-add"] > 0 {
		return "after-rconf-add"
	}
	return runClass(rr)
}

func noReplyFaultFree(sc *Scenario, rr *RunResult) string {
	if rr.FaultsAny || rr.NetFaults || rr.Faults["msg-drop"] > 0 {
		return ""
	}
	for i, c := range rr.Clients {
		for _, op := range c.ops {
			// (a client-side timeout proves nothing: the scheduler may delay
			// deliveries beyond it; only configurations whose clients never give
			// up reach "unanswered", after everything has been delivered)
			if !op.Done && op.Abandoned == "unanswered" {
				return fmt.Sprintf("client %d never received the reply to %s (sent to node %d) although no fault was injected", i, cmdString(op.Args), op.Node)
			}
		}
	}
	return ""
}

func finalDumpsDiffer(rr *RunResult) string {
	var ids []int
	for id := range rr.FinalDumps {
		ids = append(ids, id)
	}
	sort.Ints(ids)
	for _, id := range ids[1:] {
		if !equalLines(rr.FinalDumps[ids[0]], rr.FinalDumps[id]) {
			return fmt.Sprintf("healed and caught up (applied index n%d=%d, n%d=%d) but the keyspaces differ:\n%s", ids[0], rr.FinalIdx[ids[0]], id, rr.FinalIdx[id],
				diffDumps(rr.FinalDumps[ids[0]], rr.FinalDumps[id]))
		}
	}
	return ""
}

func finalDumpsDifferOnlyInNondetKeys(rr *RunResult) bool {
	var ids []int
	for id := range rr.FinalDumps {
		ids = append(ids, id)
	}
	sort.Ints(ids)
	for _, id := range ids[1:] {
		if !equalLines(withoutNondetKeys(rr.FinalDumps[ids[0]]), withoutNondetKeys(rr.FinalDumps[id])) {
			return false
		}
	}
	return true
}

func divergeMessage(d *divergence) string {
	if d.SameInstant {
		return fmt.Sprintf("nodes %d and %d have both applied the log up to index %d and, looked at at the same instant and leaving out keys within one second after a deadline, hold different keyspaces (step %d; %s; - node %d, + node %d):\n%s",
			d.NodeA, d.NodeB, d.Index, d.Step, d.Note, d.NodeA, d.NodeB, diffDumps(d.DumpA, d.DumpB))
	}
	if d.NodeA == d.NodeB {
		return fmt.Sprintf("node %d, restarted, has applied the log up to index %d again but holds a different keyspace than it held at that index before it was killed (step %d; - before, + after):\n%s",
			d.NodeA, d.Index, d.Step, diffDumps(d.DumpA, d.DumpB))
	}
	return fmt.Sprintf("nodes %d and %d have both applied the log up to index %d but hold different keyspaces (step %d; - node %d, + node %d):\n%s",
		d.NodeA, d.NodeB, d.Index, d.Step, d.NodeA, d.NodeB, diffDumps(d.DumpA, d.DumpB))
}

func judgeC07(sc *Scenario, rr *RunResult) (string, string) {
	p := "C07"
	if d := rr.Diverge; d != nil {
		return p + "/replicas-diverge/" + d.Class, divergeMessage(d)
	}
	if m := noReplyFaultFree(sc, rr); m != "" {
		return p + "/no-reply/fault-free", m
	}
	if sig, m := ttlJudge(p, sc, rr); sig != "" {
		return sig, m
	}
	lr := checkLinearizable(rr, 5*time.Second)
	rr.Probes["porcupine-ops"] += int64(lr.Ops)
	if lr.Unknown {
		rr.Probes["porcupine-unknown"]++
	}
	if lr.Illegal {
		return p + "/not-linearizable/" + runClass(rr), fmt.Sprintf("the client history over keys %v is not linearizable against the reference model:\n%s", lr.Group, lr.History)
	}
	if rr.Liveness != "" {
		return p + "/liveness/" + runClass(rr), rr.Liveness
	}
	if m := finalDumpsDiffer(rr); m != "" {
		if sc.Knobs.Nondet && finalDumpsDifferOnlyInNondetKeys(rr) {
			return p + "/replicas-diverge-final/nondeterministic-command", m
		}
		return p + "/replicas-diverge-final/" + runClass(rr), m
	}
	if m := membershipViolated(sc, rr); m != "" {
		return p + "/membership-changed/refused-rconf", m
	}
	if rr.StepLimit {
		rr.Probes["step-limit-reached"]++
	}
	return "", ""
}

// ackLost is the direct form of C08's oracle on plain registers: a key that is
// only ever written by SET with unique values must, when read back after the
// last fault, hold a value that no acknowledged later write has overwritten.
func ackLost(rr *RunResult) string {
	type wr struct {
		op  *OpRec
		val string
	}
	writes := map[string][]wr{}
	other := map[string]bool{} // keys touched by anything but SET/GET
	var finals []*OpRec
	for _, c := range rr.Clients {
		for _, op := range c.ops {
			if len(op.Args) < 2 || op.Probe {
				continue
			}
			name := strings.ToLower(string(op.Args[0]))
			switch {
			case name == "set" && len(op.Args) == 3:
				k := string(op.Args[1])
				writes[k] = append(writes[k], wr{op, string(op.Args[2])})
			case name == "get":
				if op.Final && op.Done {
					finals = append(finals, op)
				}
			default:
				for _, k := range keysOf(op.Args) {
					other[k] = true
				}
			}
		}
	}
	for _, f := range finals {
		k := string(f.Args[1])
		if other[k] || len(writes[k]) == 0 {
			continue
		}
		// the newest acknowledged write (by return order)
		var lastAck *wr
		for i := range writes[k] {
			w := &writes[k][i]
			if w.op.Done && w.op.Reply.Kind != rd.Error && (lastAck == nil || w.op.ReturnSeq > lastAck.op.ReturnSeq) {
				lastAck = w
			}
		}
		if lastAck == nil {
			continue
		}
		got := "(nil)"
		if f.Reply.StringLike() {
			got = string(f.Reply.Str)
		}
		var src *wr
		for i := range writes[k] {
			if f.Reply.StringLike() && writes[k][i].val == got {
				src = &writes[k][i]
			}
		}
		stale := false
		switch {
		case src == nil:
			stale = true // nil or a value nobody wrote
		case src.op.Done && src.op.ReturnSeq < lastAck.op.InvokeSeq:
			stale = true // an acknowledged write that a later acknowledged write replaced
		}
		if stale {
			return fmt.Sprintf("read-back of %q on node %d returned %s, but SET %s %s had been acknowledged to client %d (no later write of that key was issued after it was acknowledged%s)",
				k, f.Node, got, k, lastAck.val, lastAck.op.Client, map[bool]string{true: "", false: ""}[true])
		}
	}
	return ""
}

func judgeC08(sc *Scenario, rr *RunResult) (string, string) {
	p := "C08"
	if m := ackLost(rr); m != "" {
		return p + "/ack-lost/" + runClass(rr), m
	}
	if m := noReplyFaultFree(sc, rr); m != "" {
		return p + "/no-reply/fault-free", m
	}
	if sig, m := ttlJudge(p, sc, rr); sig != "" {
		return sig, m
	}
	lr := checkLinearizable(rr, 5*time.Second)
	rr.Probes["porcupine-ops"] += int64(lr.Ops)
	if lr.Unknown {
		rr.Probes["porcupine-unknown"]++
	}
	if lr.Illegal {
		return p + "/history-illegal/" + runClass(rr), fmt.Sprintf("acknowledged operations and the read-back after recovery over keys %v admit no sequential explanation:\n%s", lr.Group, lr.History)
	}
	if rr.Liveness != "" {
		return p + "/liveness/" + runClass(rr), rr.Liveness
	}
	if d := rr.Diverge; d != nil {
		return p + "/replicas-diverge/" + d.Class, divergeMessage(d)
	}
	if m := finalDumpsDiffer(rr); m != "" {
		return p + "/replicas-diverge-final/" + runClass(rr), m
	}
	return "", ""
}

func judgeC14(sc *Scenario, rr *RunResult) (string, string) {
	p := "C14"
	if len(rr.Clients) == 0 {
		return "", ""
	}
	c := rr.Clients[0]
	cut := false // a command went unanswered: everything after it is undetermined
	lastClass := ""
	var real []Cmd
	for _, cmd := range sc.Clients[0].Cmds {
		if cmd.SleepMS == 0 {
			real = append(real, cmd)
		}
	}
	classes := taintedClasses(real)
	if sig, m := ttlJudge(p, sc, rr); sig != "" {
		return sig, m
	}
	classOf := func(i int, op *OpRec) string {
		if i < len(classes) {
			return classes[i]
		}
		return argClass(op.Args)
	}
	for i, op := range c.ops {
		if i >= len(rr.RefReplies) {
			break
		}
		if !op.Done {
			cut = true
			if !(rr.FaultsAny || rr.NetFaults || rr.Faults["msg-drop"] > 0) {
				return p + "/no-reply/" + classOf(i, op), fmt.Sprintf("command #%d %s was never answered by node %d although no fault was injected", i, cmdString(op.Args), op.Node)
			}
			break
		}
		name := ""
		if len(op.Args) > 0 {
			name = strings.ToLower(string(op.Args[0]))
		}
		if touchesTTLKey(op.Args) || (sc.Knobs.TTL && name == "keys") {
			continue // the reference ran at other instants: judged by ttlJudge instead
		}
		if !sameReply(name, op.Reply, rr.RefReplies[i]) {
			return p + "/reply-differs/" + classOf(i, op), fmt.Sprintf("command #%d %s: standalone replied %s, the cluster (node %d of %d) replied %s",
				i, cmdString(op.Args), rr.RefReplies[i].String(), op.Node, sc.Knobs.Nodes, op.Reply.String())
		}
		lastClass = classOf(i, op)
	}
	if rr.Liveness != "" {
		return p + "/liveness/" + runClass(rr), rr.Liveness
	}
	if d := rr.Diverge; d != nil {
		return p + "/replicas-diverge/" + d.Class, divergeMessage(d)
	}
	if m := finalDumpsDiffer(rr); m != "" {
		return p + "/replicas-diverge-final/" + runClass(rr), m
	}
	if !cut && len(c.ops) >= len(rr.RefReplies) {
		var ids []int
		for id := range rr.FinalDumps {
			ids = append(ids, id)
		}
		sort.Ints(ids)
		for _, id := range ids {
			if !equalLines(rr.FinalDumps[id], rr.RefDump) {
				// every reply matched yet the effect differs: name the class by
				// the argument shapes used by the program
				cls := programClass(sc)
				if cls == "" {
					cls = lastClass
				}
				return p + "/effect-differs/" + cls, fmt.Sprintf("all %d replies matched the standalone server but the keyspace of node %d differs from the standalone keyspace:\n%s",
					len(rr.RefReplies), id, diffDumps(rr.RefDump, rr.FinalDumps[id]))
			}
		}
	}
	return "", ""
}

func programClass(sc *Scenario) string {
	set := map[string]bool{}
	for _, c := range sc.Clients {
		for _, cmd := range c.Cmds {
			if len(cmd.Args) > 0 && strings.EqualFold(string(cmd.Args[0]), "select") {
				set["after-select"] = true
			}
			cl := argClass(cmd.Args)
			if strings.HasPrefix(cl, "plain:") || strings.HasPrefix(cl, "mixed-case:") {
				continue
			}
			for _, f := range strings.Split(cl, "+") {
				set[f] = true
			}
		}
	}
	var fs []string
	for f := range set {
		fs = append(fs, f)
	}
	if len(fs) == 0 {
		return "plain-program"
	}
	return classString(fs, nil)
}

// canonReply renders a reply for the trace; replies whose element order is the
// Go runtime's map order (not seedable) are rendered as sorted multisets so
// that the trace hash is a function of the seed alone.
func canonReply(args []B, v rd.Value) string {
	if v.Kind == rd.Array && len(args) > 0 {
		name := strings.ToLower(string(args[0]))
		if unorderedReply[name] {
			return "{" + multiset(v.Arr, 1) + "}"
		}
		if name == "hgetall" && len(v.Arr)%2 == 0 {
			return "{" + multiset(v.Arr, 2) + "}"
		}
	}
	return v.String()
}

// ttlJudge: replies of commands on deadline-carrying keys (ttl.go).
func ttlJudge(p string, sc *Scenario, rr *RunResult) (string, string) {
	if !sc.Knobs.TTL {
		return "", ""
	}
	msg, op := ttlReplies(rr)
	if msg == "" {
		return "", ""
	}
	cls := "ttl-command"
	if op != nil && op.Node >= 1 && op.Node <= len(rr.Nodes) && rr.Nodes[op.Node-1].restartAfterTTL {
		cls = "ttl-command-replayed-at-restart"
	}
	return p + "/reply-outside-deadline-window/" + cls, msg
}
