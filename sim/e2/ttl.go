package e2

import (
	"fmt"
	"math"
	"sort"
	"strconv"
	"strings"
	"time"

	"verifsim/core"
	rd "verifsim/respdec"
)

// Time-dependent commands (EXPIRE, SETEX, SET EX|PX|EXAT, TTL, PERSIST) through
// the cluster.  The cluster replicates commands by statement: every replica's
// apply loop executes them against its own clock at its own apply instant, and
// a restart replays them from the WAL at restart time.
//
// What is demanded (and nothing more): deadlines are whole seconds, so a key
// may disappear anywhere in [D, D+1s) of a replica's deadline D; observations
// inside such a window are don't-care.  Outside the windows
//   * replicas that have applied the same log prefix hold the same keyspace
//     when looked at AT THE SAME INSTANT (the comparison at different instants
//     that the other runs use is meaningless for keys carrying a deadline), and
//   * a reply is judged against the deadline the client can know: a key given
//     n seconds by a command invoked at ti and acknowledged at tr disappears no
//     earlier than floor(ti)+n and no later than tr+n+1s, whichever node is
//     asked (TTL's integer may be off by one on top).
// Keys carrying deadlines ("e<client>") have one owner, so their histories are
// sequential and are judged by ttlReplies below; they are left out of the
// porcupine check and of the cross-instant dump comparison.

func isTTLKey(k string) bool {
	if len(k) < 2 || k[0] != 'e' {
		return false
	}
	for _, c := range k[1:] {
		if c < '0' || c > '9' {
			return false
		}
	}
	return true
}

func touchesTTLKey(a []B) bool {
	for _, k := range keysOf(a) {
		if isTTLKey(k) {
			return true
		}
	}
	return false
}

// lineKey extracts the key of a dump line (`"key" type ...`, possibly
// prefixed by `dbN `) and its deadline annotation ` ttl=<unix>`.
func lineKey(l string) (key string, ttl int64, hasTTL bool, body string) {
	rest := l
	if strings.HasPrefix(rest, "db") {
		if i := strings.IndexByte(rest, ' '); i > 0 {
			rest = rest[i+1:]
		}
	}
	q, err := strconv.QuotedPrefix(rest)
	if err != nil {
		return "", 0, false, l
	}
	key, _ = strconv.Unquote(q)
	body = l
	if i := strings.LastIndex(l, " ttl="); i > 0 {
		if v, err := strconv.ParseInt(l[i+5:], 10, 64); err == nil {
			return key, v, true, l[:i]
		}
	}
	return key, 0, false, body
}

func withoutTTLKeys(dump []string) []string {
	out := make([]string, 0, len(dump))
	for _, l := range dump {
		if k, _, _, _ := lineKey(l); isTTLKey(k) {
			continue
		}
		out = append(out, l)
	}
	return out
}

const ttlWindow = time.Second + 5*time.Millisecond

// ttlObserve refreshes what the harness knows of a node's deadlines and returns
// its dump with the deadline annotations stripped.
func (s *Sim) ttlObserve(ns *nodeState) []string {
	raw := ns.inc.vn.Manager().DBs[0].VerifDump(true)
	if ns.ttlSeen == nil || ns.ttlGen != ns.inc.gen {
		ns.ttlSeen, ns.ttlGen = map[string]time.Time{}, ns.inc.gen
	}
	out := make([]string, 0, len(raw))
	for _, l := range raw {
		k, v, has, body := lineKey(l)
		if has {
			ns.ttlSeen[k] = time.Unix(v, 0)
		} else if isTTLKey(k) {
			delete(ns.ttlSeen, k) // alive without a deadline
		}
		out = append(out, body)
	}
	return out
}

func (ns *nodeState) inTTLWindow(k string, now time.Time) bool {
	d, ok := ns.ttlSeen[k]
	return ok && !now.Before(d) && now.Before(d.Add(ttlWindow))
}

// ttlAgreement compares, at this instant, the keyspaces of the nodes that have
// applied the same log prefix, leaving out keys that are inside the expiry
// window of one of the two nodes.
func (s *Sim) ttlAgreement() {
	now := time.Now()
	type obs struct {
		ns   *nodeState
		dump []string
	}
	byIdx := map[uint64][]obs{}
	var idxs []uint64
	for _, ns := range s.nodes {
		if !ns.view.ok || ns.view.applied != ns.view.commit || s.hasGatedHandler(ns) {
			continue
		}
		if _, ok := byIdx[ns.view.applied]; !ok {
			idxs = append(idxs, ns.view.applied)
		}
		byIdx[ns.view.applied] = append(byIdx[ns.view.applied], obs{ns, s.ttlObserve(ns)})
	}
	if s.res.Diverge != nil {
		return
	}
	sort.Slice(idxs, func(i, j int) bool { return idxs[i] < idxs[j] })
	for _, idx := range idxs {
		g := byIdx[idx]
		for i := 1; i < len(g); i++ {
			a, b := g[0], g[i]
			keep := func(dump []string) []string {
				var out []string
				for _, l := range dump {
					k, _, _, _ := lineKey(l)
					if isTTLKey(k) && (a.ns.inTTLWindow(k, now) || b.ns.inTTLWindow(k, now)) {
						continue
					}
					out = append(out, l)
				}
				return out
			}
			da, db := keep(a.dump), keep(b.dump)
			if !equalLines(da, db) {
				cls := "ttl-command"
				if (a.ns.restarts > 0 && a.ns.restartAfterTTL) || (b.ns.restarts > 0 && b.ns.restartAfterTTL) {
					cls = "ttl-command-replayed-at-restart"
				}
				onlyTTL := equalLines(withoutTTLKeys(da), withoutTTLKeys(db))
				if !onlyTTL {
					cls = s.divergeClass(a.ns, b.ns)
				}
				s.res.Diverge = &divergence{Index: idx, NodeA: a.ns.id, NodeB: b.ns.id, DumpA: da, DumpB: db, Step: s.step, Class: cls, SameInstant: true,
					Note: fmt.Sprintf("looked at both at %s; deadlines known: n%d %s, n%d %s", now.UTC().Format("15:04:05.000"), a.ns.id, fmtDeadlines(a.ns), b.ns.id, fmtDeadlines(b.ns))}
				s.trace("DIVERGE(same instant) at index %d: n%d vs n%d", idx, a.ns.id, b.ns.id)
				return
			}
		}
	}
}

func fmtDeadlines(ns *nodeState) string {
	var ks []string
	for k := range ns.ttlSeen {
		ks = append(ks, k)
	}
	sort.Strings(ks)
	var parts []string
	for _, k := range ks {
		parts = append(parts, k+"@"+ns.ttlSeen[k].UTC().Format("15:04:05"))
	}
	return "{" + strings.Join(parts, " ") + "}"
}

// lastNearDeadline: the latest deadline any serving node knows of that lies
// within the horizon.
func (s *Sim) lastNearDeadline(horizon time.Duration) (time.Time, bool) {
	now := time.Now()
	var last time.Time
	for _, ns := range s.serving() {
		for _, d := range ns.ttlSeen {
			if d.After(now.Add(-ttlWindow)) && d.Before(now.Add(horizon)) && d.After(last) {
				last = d
			}
		}
	}
	return last, !last.IsZero()
}

// ---- replies -------------------------------------------------------------------

type ttlReg struct {
	unknown bool // a command changed the key while it may or may not have expired
	exists  bool
	val     string
	hasTTL  bool
	lo, hi  time.Time // the key disappears no earlier than lo and no later than hi
}

// ttlReplies judges the replies of commands on deadline-carrying keys.  It
// returns (message, op) of the first reply that cannot be explained.
func ttlReplies(rr *RunResult) (string, *OpRec) {
	byKey := map[string][]*OpRec{}
	for _, c := range rr.Clients {
		for _, op := range c.ops {
			if len(op.Args) >= 2 && isTTLKey(string(op.Args[1])) && !op.Probe {
				byKey[string(op.Args[1])] = append(byKey[string(op.Args[1])], op)
			}
		}
	}
	var keys []string
	for k := range byKey {
		keys = append(keys, k)
	}
	sort.Strings(keys)
	for _, k := range keys {
		ops := byKey[k]
		sort.Slice(ops, func(i, j int) bool { return ops[i].InvokeSeq < ops[j].InvokeSeq })
		if msg, op := judgeTTLKey(k, ops); msg != "" {
			return msg, op
		}
	}
	return "", nil
}

func floorSec(t time.Time) time.Time { return t.Truncate(time.Second) }

func judgeTTLKey(k string, ops []*OpRec) (string, *OpRec) {
	st := ttlReg{}
	var setBy *OpRec
	for i, op := range ops {
		if !op.Done {
			return "", nil // its effect is undetermined: nothing after it can be judged
		}
		if i > 0 && ops[i-1].ReturnSeq > op.InvokeSeq {
			return "", nil // overlapping operations on the key: not a sequential history
		}
		ti, tr := op.InvokeAt, op.ReturnAt
		if st.unknown {
			switch strings.ToLower(string(op.Args[0])) {
			case "set", "setex", "del":
			default:
				continue // nothing can be said until the key is written anew
			}
		}
		// where are we relative to the deadline?
		alive, gone := st.exists, !st.exists
		if st.exists && st.hasTTL {
			alive = tr.Before(st.lo)
			gone = !ti.Before(st.hi)
		}
		maybe := !alive && !gone
		if gone && st.exists {
			st = ttlReg{}
		}
		name := strings.ToLower(string(op.Args[0]))
		r := op.Reply
		deadlineNote := func() string {
			if setBy == nil {
				return ""
			}
			return fmt.Sprintf(" (deadline given by `%s`, invoked %s, acknowledged %s: the key disappears between %s and %s; this command ran between %s and %s on node %d)",
				truncate(cmdString(setBy.Args), 60), clock(setBy.InvokeAt), clock(setBy.ReturnAt), clock(st.lo), clock(st.hi), clock(ti), clock(tr), op.Node)
		}
		bad := func(want string) (string, *OpRec) {
			return fmt.Sprintf("%s on node %d answered %s, expected %s%s", cmdString(op.Args), op.Node, r.String(), want, deadlineNote()), op
		}
		setTTL := func(lo, hi time.Time) {
			st.hasTTL, st.lo, st.hi = true, lo, hi
			setBy = op
		}
		secs := func(i int) (int64, bool) {
			if i >= len(op.Args) {
				return 0, false
			}
			v, err := strconv.ParseInt(string(op.Args[i]), 10, 64)
			return v, err == nil && v > 0
		}
		switch name {
		case "set", "setex":
			if r.Kind == rd.Error {
				return bad("OK")
			}
			st = ttlReg{exists: true}
			setBy = nil
			if name == "setex" {
				n, ok := secs(2)
				if !ok {
					return "", nil
				}
				st.val = string(op.Args[3])
				setTTL(floorSec(ti).Add(time.Duration(n)*time.Second), tr.Add(time.Duration(n)*time.Second+time.Second))
				break
			}
			st.val = string(op.Args[2])
			if len(op.Args) >= 5 {
				n, ok := secs(4)
				if !ok {
					return "", nil
				}
				switch strings.ToLower(string(op.Args[3])) {
				case "ex":
					setTTL(floorSec(ti).Add(time.Duration(n)*time.Second), tr.Add(time.Duration(n)*time.Second+time.Second))
				case "px":
					// (how finely a millisecond deadline is kept is the
					// business of the expiry property, not of this one: the
					// whole seconds of it are the least a key must live)
					d := time.Duration(n) * time.Millisecond
					setTTL(floorSec(ti).Add(d.Truncate(time.Second)), tr.Add(d+time.Second))
				case "exat":
					at := time.Unix(n, 0)
					if !ti.Before(at.Add(-2 * time.Second)) {
						return "", nil // an instant that is (almost) over: what happens then is not this oracle's business
					}
					setTTL(at, at.Add(time.Second))
				default:
					return "", nil
				}
			}
		case "get":
			switch {
			case alive:
				if !r.StringLike() || string(r.Str) != st.val {
					return bad(fmt.Sprintf("%q (the key cannot have expired yet)", st.val))
				}
			case gone:
				if !r.IsNil() {
					return bad("nil (the deadline is over by more than a second)")
				}
			case maybe:
				// (replicas may differ inside the window: no conclusion is drawn)
				if !r.IsNil() && (!r.StringLike() || string(r.Str) != st.val) {
					return bad(fmt.Sprintf("%q or nil", st.val))
				}
			}
		case "exists":
			switch {
			case alive && !(r.Kind == rd.Integer && r.Int == 1):
				return bad(":1 (the key cannot have expired yet)")
			case gone && !(r.Kind == rd.Integer && r.Int == 0):
				return bad(":0 (the deadline is over by more than a second)")
			}
		case "ttl":
			if r.Kind != rd.Integer {
				return bad("an integer")
			}
			inRange := func() bool {
				lo := int64(math.Floor(st.lo.Sub(tr).Seconds())) - 1
				hi := int64(math.Ceil(st.hi.Sub(ti).Seconds()))
				return r.Int >= lo && r.Int <= hi && r.Int >= 0
			}
			switch {
			case gone:
				if r.Int != -2 {
					return bad(":-2 (the deadline is over by more than a second)")
				}
			case alive && !st.hasTTL:
				if r.Int != -1 {
					return bad(":-1 (the key carries no deadline)")
				}
			case alive:
				if !inRange() {
					return bad(fmt.Sprintf("the seconds left, between %d and %d", int64(math.Floor(st.lo.Sub(tr).Seconds()))-1, int64(math.Ceil(st.hi.Sub(ti).Seconds()))))
				}
			case maybe:
				if r.Int != -2 && !inRange() {
					return bad("-2 or the few seconds left")
				}
			}
		case "expire":
			n, ok := secs(2)
			if !ok || len(op.Args) != 3 {
				return "", nil
			}
			one := r.Kind == rd.Integer && r.Int == 1
			zero := r.Kind == rd.Integer && r.Int == 0
			switch {
			case alive && !one:
				return bad(":1 (the key exists)")
			case gone && !zero:
				return bad(":0 (the key is gone)")
			case maybe && !one && !zero:
				return bad(":1 or :0")
			}
			if maybe {
				// some replicas may have found the key, others not
				st = ttlReg{unknown: true}
			} else if one {
				setTTL(floorSec(ti).Add(time.Duration(n)*time.Second), tr.Add(time.Duration(n)*time.Second+time.Second))
			}
		case "persist":
			one := r.Kind == rd.Integer && r.Int == 1
			zero := r.Kind == rd.Integer && r.Int == 0
			switch {
			case alive && st.hasTTL && !one:
				return bad(":1 (the key exists and carries a deadline)")
			case alive && !st.hasTTL && !zero:
				return bad(":0 (the key carries no deadline)")
			case gone && !zero:
				return bad(":0 (the key is gone)")
			case maybe && !one && !zero:
				return bad(":1 or :0")
			}
			if maybe {
				st = ttlReg{unknown: true}
			} else if one {
				st.hasTTL = false
				setBy = nil
			}
		case "del":
			st = ttlReg{}
			setBy = nil
		default:
			return "", nil
		}
	}
	return "", nil
}

func clock(t time.Time) string { return t.UTC().Format("15:04:05.000") }

// ---- workload -------------------------------------------------------------------

// ttlProgram rewrites a share of a client's commands into commands on its own
// deadline-carrying key, with idle stretches long enough to cross deadlines.
func ttlProgram(r *core.Rand, ci int, p *ClientProg) {
	key := fmt.Sprintf("e%d", ci)
	seq := 0
	val := func() string { seq++; return fmt.Sprintf("t%dv%d", ci, seq) }
	small := func() string { return itoa(1 + r.Intn(3)) }
	ttl := func() string {
		if r.Bool(0.25) {
			return itoa(8 + r.Intn(20))
		}
		return small()
	}
	var out []Cmd
	for _, c := range p.Cmds {
		if !r.Bool(0.45) {
			out = append(out, c)
			continue
		}
		switch r.Intn(14) {
		case 0, 1:
			out = append(out, Cmd{Args: bs("setex", key, ttl(), val())})
		case 2:
			out = append(out, Cmd{Args: bs("set", key, val(), pick(r, []string{"ex", "EX"}), ttl())})
		case 3:
			out = append(out, Cmd{Args: bs("set", key, val(), "px", itoa(300+r.Intn(3000)))})
		case 4:
			out = append(out, Cmd{Args: bs("set", key, val())})
		case 5:
			out = append(out, Cmd{Args: bs("set", key, val(), "exat", itoa(946684800+25+r.Intn(50)))})
		case 6, 7:
			out = append(out, Cmd{Args: bs("expire", key, ttl())})
		case 8:
			out = append(out, Cmd{Args: bs("persist", key)})
		case 9:
			out = append(out, Cmd{Args: bs("ttl", key)})
		case 10, 11:
			out = append(out, Cmd{Args: bs("get", key)})
		case 12:
			out = append(out, Cmd{Args: bs("exists", key)})
		case 13:
			out = append(out, Cmd{Args: bs("ttl", key)})
		}
		if r.Bool(0.5) {
			out = append(out, Cmd{SleepMS: pick(r, []int{300, 700, 1100, 1600, 2300, 3200, 4500})})
			if r.Bool(0.6) {
				out = append(out, Cmd{Args: bs(pick(r, []string{"get", "get", "ttl", "exists"}), key)})
			}
		}
	}
	p.Cmds = out
}
