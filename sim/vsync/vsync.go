// Package verifvsync is a cooperative stand-in for sync.Mutex / sync.RWMutex.
//
// It is substituted for "sync" in memdb at build time (go build -overlay), so
// that every lock acquisition of the keyspace becomes a scheduling point owned
// by the simulator: the calling goroutine parks on a private channel (a durable
// block for testing/synctest, no real lock is ever held while parked) and a
// central scheduler releases exactly one parked task per step.  With no World
// installed the types behave exactly like their sync counterparts.
package verifvsync

import (
	"fmt"
	"runtime"
	"sort"
	"sync"
	"sync/atomic"
	"time"
)

const (
	OpLock = iota
	OpRLock
	OpYield
)

var opNames = [...]string{"Lock", "RLock", "Yield"}

// lockState is shared by Mutex and RWMutex.
type lockState struct {
	id      int
	writer  *Task
	readers []*Task
	label   string
	// announced: a writer that has called Lock while readers were active (Go's
	// RWMutex then turns later RLock calls away until that writer is done)
	announced *Task
}

type RWMutex struct {
	real sync.RWMutex
	st   lockState
}

type Mutex struct {
	real sync.Mutex
	st   lockState
}

type Op struct {
	Kind int
	L    *lockState
}

type held struct {
	l    *lockState
	read bool
}

type Task struct {
	Name     string
	W        *World
	gid      int64
	wake     chan struct{}
	Parked   bool
	Op       Op
	ParkedAt time.Time
	parkSeq  uint64
	Held     []held
	Steps    int
	Tag      any // owner's annotation (e.g. client index)
}

func (t *Task) HoldsAny() bool { return len(t.Held) > 0 }

func (t *Task) String() string {
	if t.Parked {
		return fmt.Sprintf("%s@%s(m%d)", t.Name, opNames[t.Op.Kind], t.Op.lockID())
	}
	return t.Name
}

func (o Op) lockID() int {
	if o.L == nil {
		return -1
	}
	return o.L.id
}

// World is one simulated run's lock universe.
type World struct {
	mu       sync.Mutex // registry only; never held while parked
	tasks    map[int64]*Task
	unnamed  []*Task
	nextLock int
	nextSeq  uint64
	nextAnon int
	AnonName func(n int) string
	// YieldOnRMW enables the yields the overlay pass inserted into split
	// read-modify-write statements.
	YieldOnRMW bool
	// Edges of the lock-order graph (lockdep style): "a->b" when b is acquired while a held.
	Order map[[2]int]bool
	// OnViolation receives lock-discipline violations detected inside lock calls.
	Violations []string
	// ParkNotify gets a token whenever a goroutine parks; the scheduler uses it
	// to cut a simulated sleep short at the instant a timer goroutine wakes up.
	ParkNotify chan struct{}
}

var cur atomic.Pointer[World]

func NewWorld() *World {
	return &World{tasks: map[int64]*Task{}, Order: map[[2]int]bool{}, ParkNotify: make(chan struct{}, 1), AnonName: func(n int) string { return fmt.Sprintf("bg#%d", n) }}
}

func Install(w *World) { cur.Store(w) }
func Uninstall()       { cur.Store(nil) }
func Current() *World  { return cur.Load() }

// goid parses the current goroutine id from the stack header.
func goid() int64 {
	var buf [40]byte
	n := runtime.Stack(buf[:], false)
	// "goroutine 123 ["
	var id int64
	for i := 10; i < n; i++ {
		c := buf[i]
		if c < '0' || c > '9' {
			break
		}
		id = id*10 + int64(c-'0')
	}
	return id
}

// Register names the calling goroutine; must be called by the goroutine itself.
func (w *World) Register(name string, tag any) *Task {
	g := goid()
	w.mu.Lock()
	defer w.mu.Unlock()
	t := &Task{Name: name, W: w, gid: g, wake: make(chan struct{}, 1), Tag: tag}
	w.tasks[g] = t
	return t
}

func (w *World) self() *Task {
	g := goid()
	w.mu.Lock()
	t := w.tasks[g]
	if t == nil {
		t = &Task{W: w, gid: g, wake: make(chan struct{}, 1)}
		w.tasks[g] = t
		w.unnamed = append(w.unnamed, t)
	}
	w.mu.Unlock()
	return t
}

func (w *World) lockID(l *lockState) int {
	if l.id == 0 {
		w.nextLock++
		l.id = w.nextLock
	}
	return l.id
}

// park blocks the caller until the scheduler grants op.
func (w *World) park(op Op) *Task {
	t := w.self()
	w.mu.Lock()
	if op.L != nil {
		w.lockID(op.L)
	}
	t.Op = op
	t.ParkedAt = time.Now()
	w.nextSeq++
	t.parkSeq = w.nextSeq
	t.Parked = true
	w.mu.Unlock()
	select {
	case w.ParkNotify <- struct{}{}:
	default:
	}
	<-t.wake
	return t
}

// Pending returns the parked tasks in a deterministic order: tasks are named
// by role (never by arrival), background goroutines the SUT spawned itself are
// adopted in order of the simulated instant at which they first parked.
func (w *World) Pending() []*Task {
	w.mu.Lock()
	defer w.mu.Unlock()
	if len(w.unnamed) > 0 {
		var ready, rest []*Task
		for _, t := range w.unnamed {
			if t.Parked {
				ready = append(ready, t)
			} else {
				rest = append(rest, t)
			}
		}
		sort.SliceStable(ready, func(i, j int) bool {
			a, b := ready[i], ready[j]
			if !a.ParkedAt.Equal(b.ParkedAt) {
				return a.ParkedAt.Before(b.ParkedAt)
			}
			if a.Op.Kind != b.Op.Kind {
				return a.Op.Kind < b.Op.Kind
			}
			return a.Op.lockID() < b.Op.lockID()
		})
		for _, t := range ready {
			w.nextAnon++
			t.Name = w.AnonName(w.nextAnon)
		}
		w.unnamed = rest
	}
	var out []*Task
	for _, t := range w.tasks {
		if t.Parked && t.Name != "" {
			out = append(out, t)
		}
	}
	sort.Slice(out, func(i, j int) bool { return out[i].Name < out[j].Name })
	return out
}

// AllTasks returns every known task sorted by name.
func (w *World) AllTasks() []*Task {
	w.mu.Lock()
	defer w.mu.Unlock()
	var out []*Task
	for _, t := range w.tasks {
		out = append(out, t)
	}
	sort.Slice(out, func(i, j int) bool { return out[i].Name < out[j].Name })
	return out
}

// Enabled reports whether the task's pending operation can be granted now.
// A parked task has not called the primitive yet (it may have been preempted
// just before the call), so by default a waiting writer does not hold readers
// off: every execution of the model is an execution of the real primitive in
// which the waiting writer called Lock later.  The other real behaviour - the
// writer has called Lock, waits for the active readers, and every RLock that
// arrives meanwhile blocks behind it (which is what makes a recursive read lock
// deadlock) - is the explicit scheduling event Announce.
func (w *World) Enabled(t *Task) bool {
	if !t.Parked {
		return false
	}
	switch t.Op.Kind {
	case OpYield:
		return true
	case OpLock:
		return t.Op.L.writer == nil && len(t.Op.L.readers) == 0 && (t.Op.L.announced == nil || t.Op.L.announced == t)
	case OpRLock:
		return t.Op.L.writer == nil && t.Op.L.announced == nil
	}
	return false
}

// CanAnnounce: t is a writer kept waiting by active readers only, and nobody
// has announced itself on that lock yet.
func (w *World) CanAnnounce(t *Task) bool {
	return t.Parked && t.Op.Kind == OpLock && t.Op.L.writer == nil && len(t.Op.L.readers) > 0 && t.Op.L.announced == nil
}

// Announce: t's Lock call has happened; RLock calls from now on wait for t.
func (w *World) Announce(t *Task) {
	w.mu.Lock()
	t.Op.L.announced = t
	w.mu.Unlock()
}

// BlockedBy returns the tasks that currently prevent t's operation.
func (w *World) BlockedBy(t *Task) []*Task {
	if !t.Parked || t.Op.L == nil {
		return nil
	}
	var out []*Task
	if t.Op.L.writer != nil {
		out = append(out, t.Op.L.writer)
	}
	if t.Op.L.announced != nil && t.Op.L.announced != t {
		out = append(out, t.Op.L.announced)
	}
	if t.Op.Kind == OpLock {
		out = append(out, t.Op.L.readers...)
	}
	return out
}

// Release grants the task's pending operation and lets it run.
func (w *World) Release(t *Task) {
	w.mu.Lock()
	switch t.Op.Kind {
	case OpLock:
		for _, h := range t.Held {
			w.Order[[2]int{h.l.id, t.Op.L.id}] = true
		}
		t.Op.L.writer = t
		if t.Op.L.announced == t {
			t.Op.L.announced = nil
		}
		t.Held = append(t.Held, held{t.Op.L, false})
	case OpRLock:
		for _, h := range t.Held {
			w.Order[[2]int{h.l.id, t.Op.L.id}] = true
		}
		t.Op.L.readers = append(t.Op.L.readers, t)
		t.Held = append(t.Held, held{t.Op.L, true})
	}
	t.Parked = false
	t.Steps++
	w.mu.Unlock()
	t.wake <- struct{}{}
}

func (w *World) unlock(l *lockState, read bool) {
	t := w.self()
	w.mu.Lock()
	defer w.mu.Unlock()
	if read {
		found := false
		for i, r := range l.readers {
			if r == t {
				l.readers = append(l.readers[:i], l.readers[i+1:]...)
				found = true
				break
			}
		}
		if !found {
			if len(l.readers) > 0 {
				// released by another goroutine than the one that acquired: legal for sync
				l.readers = l.readers[1:]
			} else {
				w.Violations = append(w.Violations, fmt.Sprintf("RUnlock of m%d which is not read-locked (task %s)", l.id, t.Name))
			}
		}
	} else {
		if l.writer == nil {
			w.Violations = append(w.Violations, fmt.Sprintf("Unlock of m%d which is not locked (task %s)", l.id, t.Name))
		}
		l.writer = nil
	}
	for i := len(t.Held) - 1; i >= 0; i-- {
		if t.Held[i].l == l && t.Held[i].read == read {
			t.Held = append(t.Held[:i], t.Held[i+1:]...)
			break
		}
	}
}

// HeldLocks lists, per task name, the ids of the locks it holds.
func (w *World) HeldLocks() map[string][]int {
	w.mu.Lock()
	defer w.mu.Unlock()
	out := map[string][]int{}
	for _, t := range w.tasks {
		for _, h := range t.Held {
			n := t.Name
			if n == "" {
				n = "?"
			}
			out[n] = append(out[n], h.l.id)
		}
	}
	return out
}

// Self returns the calling goroutine's task if it is known.
func (w *World) Self() *Task {
	g := goid()
	w.mu.Lock()
	defer w.mu.Unlock()
	return w.tasks[g]
}

// ---- the sync-compatible surface ------------------------------------------

func (m *RWMutex) Lock() {
	if w := cur.Load(); w != nil {
		w.park(Op{OpLock, &m.st})
		return
	}
	m.real.Lock()
}

func (m *RWMutex) Unlock() {
	if w := cur.Load(); w != nil {
		w.unlock(&m.st, false)
		return
	}
	m.real.Unlock()
}

func (m *RWMutex) RLock() {
	if w := cur.Load(); w != nil {
		w.park(Op{OpRLock, &m.st})
		return
	}
	m.real.RLock()
}

func (m *RWMutex) RUnlock() {
	if w := cur.Load(); w != nil {
		w.unlock(&m.st, true)
		return
	}
	m.real.RUnlock()
}

func (m *RWMutex) TryLock() bool {
	if w := cur.Load(); w != nil {
		t := w.self()
		w.mu.Lock()
		defer w.mu.Unlock()
		if m.st.writer == nil && len(m.st.readers) == 0 {
			w.lockID(&m.st)
			m.st.writer = t
			t.Held = append(t.Held, held{&m.st, false})
			return true
		}
		return false
	}
	return m.real.TryLock()
}

func (m *RWMutex) RLocker() sync.Locker { return (*rlocker)(m) }

type rlocker RWMutex

func (r *rlocker) Lock()   { (*RWMutex)(r).RLock() }
func (r *rlocker) Unlock() { (*RWMutex)(r).RUnlock() }

func (m *Mutex) Lock() {
	if w := cur.Load(); w != nil {
		w.park(Op{OpLock, &m.st})
		return
	}
	m.real.Lock()
}

func (m *Mutex) Unlock() {
	if w := cur.Load(); w != nil {
		w.unlock(&m.st, false)
		return
	}
	m.real.Unlock()
}

// Yield is inserted by the overlay pass between the load and the store of a
// split read-modify-write statement.
func Yield() {
	if w := cur.Load(); w != nil && w.YieldOnRMW {
		w.park(Op{OpYield, nil})
	}
}

// YieldPoint is an unconditional scheduling point (used by simconn writes).
func YieldPoint() {
	if w := cur.Load(); w != nil {
		w.park(Op{OpYield, nil})
	}
}

// PollInterval is what the overlay substitutes for the 100 ms polling period
// of the blocking list pops: one nanosecond longer, so that a poll tick and a
// whole-second timeout can never become ready at the same simulated instant
// (a two-way ready select is resolved by the runtime at random and cannot be
// replayed).
func PollInterval() time.Duration { return 100*time.Millisecond + time.Nanosecond }

// SortStrings is used by the overlay to make the KEYS scan order canonical.
func SortStrings(s []string) { sort.Strings(s) }

// Re-exports so that a file whose only use of "sync" was the mutex types still
// compiles when the import is replaced wholesale.
type WaitGroup = sync.WaitGroup
type Once = sync.Once
type Map = sync.Map
type Pool = sync.Pool
type Cond = sync.Cond
type Locker = sync.Locker
