#!/bin/bash
# Development aid: re-run, for every archived seeded change, the check of the property it was written
# against plus every check that reported it before; meta.json is updated (reeval_mutant.py).
cd /verif
for d in seeded/C*/; do
  id=$(basename $d)
  checks=$(python3 - "$d" <<'P'
import json,sys
m=json.load(open(sys.argv[1]+"/meta.json"))
own=m["breaks_property"]
cs=[own]+[k for k in m.get("detected_by",{}) if k!=own]
print(" ".join(cs))
P
)
  ./reeval_mutant.py $id $checks 2>&1 | tail -1
done
