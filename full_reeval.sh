#!/bin/bash
# Development aid: re-run, for archived seeded changes, the check of the property each was written
# against (and, where that check did not report it before, the checks that did); meta.json is
# updated (reeval_mutant.py).
#   ./full_reeval.sh [file with seeded ids, one per line; default: all]   (ids in $SKIP_FILE are skipped)
cd /verif
list=${1:-}
if [ -n "$list" ]; then ids=$(cat "$list"); else ids=$(ls seeded | grep '^C'); fi
for id in $ids; do
  [ -n "${SKIP_FILE:-}" ] && grep -qx "$id" "$SKIP_FILE" && continue
  checks=$(python3 - "seeded/$id" <<'P'
import json,sys
m=json.load(open(sys.argv[1]+"/meta.json"))
own=m["breaks_property"]
det=m.get("detected_by",{})
cs=[own]
if own not in det:
    cs+=[k for k in det][:2]
print(" ".join(cs))
P
)
  ./reeval_mutant.py $id $checks 2>&1 | tail -1
done
