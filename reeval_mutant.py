#!/usr/bin/env python3
"""Development aid: re-run checks against an archived seeded change and update its meta.json.
   ./reeval_mutant.py <seeded-id> <check> [<check>...]"""
import json, re, subprocess, sys
sid, checks = sys.argv[1], sys.argv[2:]
d = f"/verif/seeded/{sid}"
meta = json.load(open(f"{d}/meta.json"))
out = subprocess.run(["/verif/mutant_eval.sh", f"{d}/patch.diff"] + checks, capture_output=True, text=True).stdout
det, cur = {}, None
for line in out.splitlines():
    m = re.match(r"== (\S+) exit=(\d+)", line)
    if m:
        cur = m.group(1); det[cur] = {"exit": int(m.group(2)), "signatures": []}; continue
    m = re.match(r"\s+signature: (\S+)", line)
    if m and cur:
        det[cur]["signatures"].append(m.group(1))
    m = re.search(r"(quick|thorough): runs=(\d+).*wall=([\d.]+)s", line)
    if m and cur:
        det[cur]["runs"] = int(m.group(2)); det[cur]["wall_s"] = float(m.group(3))
vhead = subprocess.run(["git", "-C", "/verif", "rev-parse", "--short", "HEAD"], capture_output=True, text=True).stdout.strip()
rhead = subprocess.run(["git", "-C", "/repo", "rev-parse", "--short", "HEAD"], capture_output=True, text=True).stdout.strip()
for k, v in det.items():
    meta.setdefault("detected_by", {}).pop(k, None)
    meta["missed_by"] = [x for x in meta.get("missed_by", []) if x != k]
    meta["trouble"] = [x for x in meta.get("trouble", []) if x != k]
    if v["exit"] == 1:
        meta["detected_by"][k] = v
    elif v["exit"] == 0:
        meta["missed_by"].append(k)
    else:
        meta["trouble"].append(k)
meta.setdefault("what_was_run", []).append(f"/verif/mutant_eval.sh patch.diff {' '.join(checks)} (re-run: scratch worktree of /repo at {rhead} + VERIF_REPO, quick tier, /verif at {vhead})")
json.dump(meta, open(f"{d}/meta.json", "w"), indent=1)
print(sid, "| detected by:", list(meta["detected_by"]), "| missed by:", meta["missed_by"], "| trouble:", meta["trouble"])
