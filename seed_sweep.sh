#!/bin/bash
# Development aid: quick tier of every check for several VERIF_SEED values on the unchanged tree;
# prints one line per (check, seed) and every VIOLATION / TROUBLE line.
#   ./seed_sweep.sh "2 3 4" [quick|thorough] [checks...]
cd "$(dirname "$0")"
seeds=${1:-"2 3 4"}; tier=${2:-quick}; shift; shift
props=${*:-C01 C02 C03 C04 C05 C06 C07 C08 C09 C10 C11 C12 C13 C14 C15 C16 C18 C19 C20}
cp -r evidence /tmp/evidence-keep-$$
for s in $seeds; do
  for p in $props; do
    out=$(VERIF_SEED=$s ./check $p --tier $tier 2>&1); rc=$?
    echo "seed=$s $p rc=$rc $(echo "$out" | grep -E "$tier:" | cut -c1-120)"
    echo "$out" | grep -E "^VIOLATION|^  signature|^TROUBLE|BUILD-ERROR" | cut -c1-300
  done
done
# the committed evidence stays the one of the registered seed
rm -rf evidence && mv /tmp/evidence-keep-$$ evidence
