#!/bin/bash
# Run once after a fresh restore, offline: builds the worker binaries (which also
# warms the Go build cache: std, the etcd closure, with and without -race).
set -e
cd "$(dirname "$0")"
export GOFLAGS=-mod=mod GOPROXY=off GOSUMDB=off GOTOOLCHAIN=local
python3 ./check build
