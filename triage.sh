#!/bin/bash
# development aid: list violation signatures with one example each
cd /verif
VERIF_NOMIN=1 ./check "$@" 2>&1 | grep -v "^TROUBLE" | awk '/signature:/{s=$2; if(!(s in seen)){seen[s]=1; print; p=4; next}} p>0{print; p--}'
