#!/bin/bash
# Development aid: apply a patch to a scratch worktree of /repo and run the given checks against it.
#   ./mutant_eval.sh <patch.diff> C05 C13 ...
# Prints one line per check: <prop> exit=<code> and the VIOLATION/KNOWN lines.  The scratch tree is removed.
set -u
patch=$(readlink -f "$1"); shift
scratch=/tmp/mut-eval-$$
git -C /repo worktree add -q --detach "$scratch" HEAD || exit 2
cleanup() { git -C /repo worktree remove --force "$scratch" >/dev/null 2>&1; rm -rf "/verif/.build/alt-$(printf %s "$scratch" | sha1sum | cut -c1-10)"; }
trap cleanup EXIT
if ! git -C "$scratch" apply "$patch"; then echo "PATCH DOES NOT APPLY"; exit 2; fi
cd /verif
for p in "$@"; do
  out=$(VERIF_REPO="$scratch" timeout 900 ./check "$p" --tier "${TIER:-quick}" 2>&1); rc=$?
  echo "== $p exit=$rc"
  echo "$out" | grep -E "^VIOLATION|^  signature|^TROUBLE|BUILD-ERROR|quick:|thorough:" | cut -c1-220 | head -12
done
