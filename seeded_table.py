#!/usr/bin/env python3
"""Development aid: (re)write /verif/seeded/INDEX.md from /verif/seeded/*/meta.json and print the compact
table used in DESIGN.md section 10."""
import glob, json, sys
rows, full = [], []
n = caught_own = caught_other = missed = 0
for f in sorted(glob.glob("/verif/seeded/*/meta.json")):
    m = json.load(open(f))
    det = m.get("detected_by", {})
    own = m["breaks_property"]
    n += 1
    if own in det:
        caught_own += 1
    elif det:
        caught_other += 1
    else:
        missed += 1
    sigs = lambda v: (v["signatures"][0].split("/", 1)[1][:70] if v.get("signatures") else "")
    caught = "; ".join(f"{k} `{sigs(v)}`" for k, v in det.items())
    rows.append(f"| `{m['id']}` | {', '.join(det) or '—'} | {', '.join(m.get('missed_by', [])) or '—'} |")
    full.append(f"| `{m['id']}` | {own} | {m['needs_to_manifest'][:220]} | {caught or '—'} | {', '.join(m.get('missed_by', [])) or '—'} |")
hdr = f"{n} seeded changes: {caught_own} caught by the check of the property they were written against, {caught_other} only by another property's check, {missed} by none.\n"
open("/verif/seeded/INDEX.md", "w").write(
    "# Seeded changes\n\n" + hdr + "\nEach directory holds `patch.diff` (apply with `git -C /repo apply`), the author's demonstration, its README and `meta.json` "
    "(what was confirmed, which checks were run, what they reported).\n\n"
    "| seeded change | written against | needs, to manifest | caught by (quick tier, first signature) | run but not caught by |\n|---|---|---|---|---|\n" + "\n".join(full) + "\n")
print(hdr)
print("| seeded change | caught by | run, not caught by |\n|---|---|---|")
print("\n".join(rows))

import re
d = open("/verif/DESIGN.md").read()
blk = "<!-- seeded-table-begin -->\n" + hdr + "\n| seeded change | caught by | run, not caught by |\n|---|---|---|\n" + "\n".join(rows) + "\n<!-- seeded-table-end -->"
d = re.sub(r"<!-- seeded-table-begin -->.*?<!-- seeded-table-end -->", lambda m: blk, d, flags=re.S)
open("/verif/DESIGN.md", "w").write(d)
