#!/usr/bin/env python3
"""Development aid: print the markdown table of /verif/seeded/*/meta.json (for DESIGN.md section 10)."""
import glob, json
rows = []
for f in sorted(glob.glob("/verif/seeded/*/meta.json")):
    m = json.load(open(f))
    det = m.get("detected_by", {})
    caught = "; ".join(f"{k} ({len(v['signatures'])} sig, e.g. `{v['signatures'][0].split('/', 1)[1][:60]}`)" if v.get("signatures") else k for k, v in det.items())
    missed = ", ".join(m.get("missed_by", []))
    rows.append(f"| `{m['id']}` | {m['breaks_property']} | {m['needs_to_manifest'][:150]} | {caught or '—'} | {missed or '—'} |")
print("| seeded change | property | needs, to manifest | caught by (quick tier) | not caught by |")
print("|---|---|---|---|---|")
print("\n".join(rows))
