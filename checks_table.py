# Table of engines and per-property check configuration, read by ./check.
# wall = per-worker wall budget in seconds (16 workers by default);
# runs = cap on total runs (0 = until the wall budget is used).

ENGINES = {
    "e1": dict(pkg="./e1", overlay=True, race=True),
    "e2": dict(pkg="./e2", race=True),
    "e3": dict(pkg="./e3"),
    "e4": dict(pkg="./e4"),
}

REAL_E3 = dict(real=["etcd/raft (RawNode, raftLog, unstable, MemoryStorage, quorum, tracker, confchange)"],
               stubbed=["network (simulated message soup)", "disk (MemoryStorage snapshot of persisted state at crash)",
                        "clock (ticks are simulator events)"])
REAL_E4 = dict(real=["etcd/server/storage/wal (create/save/cut/open/readall/repair/verify)",
                     "etcd/server/etcdserver/api/snap (Snapshotter)", "etcd/client/pkg/fileutil", "etcd/pkg/ioutil PageWriter",
                     "tmpfs files"],
               stubbed=["durability: shadow durable image fed by the Fsync/Fdatasync hook; crash image = durable bytes "
                        "plus a seeded subset of unsynced 512-byte sectors"])

REAL_E1 = dict(real=["server.Manager.Handle connection loop", "resp.ParseStream parser goroutine", "memdb executors, data structures, TTL timer goroutines",
                     "memdb lock discipline (dblock/concurrentmap/pubsub/stream) with sync replaced by the cooperative vsync at build time",
                     "util (hash, glob)"],
               stubbed=["TCP accept loop and sockets (simconn implements net.Conn)", "wall clock (testing/synctest fake clock)",
                        "goroutine scheduling at lock operations (seeded cooperative scheduler)",
                        "blocking-pop poll period 100ms -> 100ms+1ns (overlay) so that tick and timeout never tie"])

PROPS = {
    "C01": dict(
        engine="e1", level="exploration",
        rule="one evaluation = one seeded run: 1-3 simulated clients each owning a key prefix run generated programs of "
             "string/key commands (all SET options, numeric edge values, binary keys, keys of other types pre-seeded) with "
             "fragmented and pipelined requests, fake-clock sleeps and co-tenants on colliding stripes; every reply is compared "
             "with the reference model in lock-step; non-trivial = at least 5 replies checked; distinct = distinct trace hash",
        state_measure="hash of the canonical final keyspace dump",
        components=REAL_E1,
        assumptions=["reference model written from the Redis 7 command reference; error text not compared",
                     "SET onto a key of another type: overwrite and WRONGTYPE both accepted"],
        quick=dict(wall=35), thorough=dict(wall=600),
    ),
    "C05": dict(
        engine="e1", level="exploration",
        phases=[dict(engine="e1", test="TestWorker")],
        rule="one evaluation = one seeded run: 2-6 simulated clients x 2-7 commands over 1-3 shared keys, every lock "
             "acquisition a tape-chosen scheduling point, history checked by porcupine against the reference model plus "
             "auditor read-back and structural self-check; non-trivial = at least one preemption of an enabled task and one "
             "context switch while a stripe was held; distinct = distinct hash of the full event trace",
        state_measure="hash of the canonical final keyspace dump",
        components=REAL_E1,
        assumptions=["no writer preference modelled for RWMutex (every modelled schedule is a real one)",
                     "true parallelism (torn words, concurrent map aborts) only in the race-sweep phase"],
        quick=dict(wall=35), thorough=dict(wall=600),
    ),
    "C15": dict(
        engine="e3", level="exploration",
        rule="one evaluation = one seeded run of 1-5 RawNodes under an adversarial event schedule "
             "(deliver/drop/dup/reorder/tick/propose/campaign/crash/restart/compact/conf-change/partition); "
             "non-trivial = at least one leader elected, one entry committed and one fault fired; "
             "distinct = distinct hash of the full event trace",
        state_measure="hash of the (term, role, commit, last index) vector over all nodes after each phase",
        components=REAL_E3,
        assumptions=["storage contract: what the harness persisted before send/apply survives a crash, nothing else",
                     "a node that never persisted anything restarts as a fresh node"],
        quick=dict(wall=40), thorough=dict(wall=900),
    ),
    "C16": dict(
        engine="e4", level="fault_enumeration",
        rule="one evaluation = one crash image or one corrupted image recovered and judged; images come from seeded "
             "save/snapshot/cut sequences; non-trivial = the image differs from the clean file (>=1 unsynced sector "
             "dropped or >=1 byte corrupted) ; distinct = distinct hash of (operation sequence, crash point, surviving "
             "sector set / corrupted offset)",
        state_measure="hash of (recovered hard state, recovered entry count, repair used, error class)",
        components=REAL_E4,
        assumptions=["sector-atomic storage: a 512-byte sector is either old or new", "directory operations are atomic and durable",
                     "durability obligation derived from the Raft persistence contract (entries, term, vote), not from observed syncs"],
        quick=dict(wall=40), thorough=dict(wall=900),
    ),
}
