# Table of engines and per-property check configuration, read by ./check.
# wall = per-worker wall budget in seconds (16 workers by default);
# runs = cap on total runs (0 = until the wall budget is used).

ENGINES = {
    "e1": dict(pkg="./e1", overlay=True, race=True),
    "e2": dict(pkg="./e2", race=True),
    "e3": dict(pkg="./e3"),
    "e4": dict(pkg="./e4"),
}

REAL_E3 = dict(real=["etcd/raft (RawNode, raftLog, unstable, MemoryStorage, quorum, tracker, confchange)"],
               stubbed=["network (simulated message soup)", "disk (MemoryStorage snapshot of persisted state at crash)",
                        "clock (ticks are simulator events)"])
REAL_E4 = dict(real=["etcd/server/storage/wal (create/save/cut/open/readall/repair/verify)",
                     "etcd/server/etcdserver/api/snap (Snapshotter)", "etcd/client/pkg/fileutil", "etcd/pkg/ioutil PageWriter",
                     "tmpfs files"],
               stubbed=["durability: shadow durable image fed by the Fsync/Fdatasync hook; crash image = durable bytes "
                        "plus a seeded subset of unsynced 512-byte sectors; the lost tail of a file that grew past its durable "
                        "length is zero-filled or missing (tape choice); crash points: before/after every sync, between operations, "
                        "and after every write the page writer hands to the file (page-writer hook)"])

REAL_E1 = dict(real=["server.Manager.Handle connection loop", "resp.ParseStream parser goroutine", "memdb executors, data structures, TTL timer goroutines",
                     "memdb lock discipline (dblock/concurrentmap/pubsub/stream) with sync replaced by the cooperative vsync at build time",
                     "util (hash, glob)"],
               stubbed=["TCP accept loop and sockets (simconn implements net.Conn; C20's sweep phase runs the real accept loop of server.Start)",
                        "wall clock (testing/synctest fake clock)",
                        "goroutine scheduling at lock operations, at connection reads/writes and between computing and serialising a reply "
                        "(seeded cooperative scheduler; a writer's Lock call ahead of later readers is an explicit event)",
                        "blocking-pop poll period 100ms -> 100ms+1ns (overlay) so that tick and timeout never tie"])

PROPS = {
    "C01": dict(
        engine="e1", level="exploration",
        rule="one evaluation = one seeded run: 1-3 simulated clients each owning a key prefix run generated programs of "
             "string/key commands (all SET options, numeric edge values, binary keys, keys of other types pre-seeded) with "
             "fragmented and pipelined requests, fake-clock sleeps and co-tenants on colliding stripes; every reply is compared "
             "with the reference model in lock-step; non-trivial = at least 5 replies checked; distinct = distinct trace hash",
        state_measure="hash of the canonical final keyspace dump",
        components=REAL_E1,
        assumptions=["reference model written from the Redis 7 command reference; error text not compared",
                     "SET onto a key of another type: overwrite and WRONGTYPE both accepted"],
        quick=dict(wall=35), thorough=dict(wall=600),
    ),
    "C05": dict(
        engine="e1", level="exploration",
        phases=[dict(engine="e1", test="TestWorker", share=0.8),
                dict(engine="e1", race=True, test="TestRaceSweep", share=0.2)],
        rule="one evaluation = one seeded run: 2-6 simulated clients x 2-7 commands over 1-3 shared keys, every lock "
             "acquisition a tape-chosen scheduling point, history checked by porcupine against the reference model plus "
             "auditor read-back and structural self-check; non-trivial = at least one preemption of an enabled task and one "
             "context switch while a stripe was held; distinct = distinct hash of the full event trace",
        state_measure="hash of the canonical final keyspace dump",
        components=REAL_E1,
        assumptions=["no writer preference modelled for RWMutex (every modelled schedule is a real one)",
                     "true parallelism (torn words, concurrent map aborts) only in the race-sweep phase"],
        quick=dict(wall=35), thorough=dict(wall=600),
    ),
    "C15": dict(
        engine="e3", level="exploration",
        rule="one evaluation = one seeded run of 1-5 RawNodes under an adversarial event schedule "
             "(deliver/drop/dup/reorder/tick/propose/campaign/crash/restart/compact/conf-change/partition); "
             "non-trivial = at least one leader elected, one entry committed and one fault fired; "
             "distinct = distinct hash of the full event trace",
        state_measure="hash of the (term, role, commit, last index) vector over all nodes after each phase",
        components=REAL_E3,
        assumptions=["storage contract (write-behind, as a WAL): what a Ready with MustSync=true or a snapshot hands over, and "
                     "everything written before it, survives a crash; what Readys with MustSync=false wrote since the last such "
                     "sync is lost as a whole or not at all (tape choice) - losing an unsynced commit index is legal, losing a "
                     "term, vote or entries the node already answered messages on is a violation; messages leave only after "
                     "their Ready's write",
                     "a node that never persisted anything restarts as a fresh node"],
        quick=dict(wall=40), thorough=dict(wall=900),
    ),
    "C16": dict(
        engine="e4", level="fault_enumeration",
        rule="one evaluation = one crash image or one corrupted image recovered and judged; images come from seeded "
             "save/snapshot/cut sequences; non-trivial = the image differs from the clean file (>=1 unsynced sector "
             "dropped or >=1 byte corrupted) ; distinct = distinct hash of (operation sequence, crash point, surviving "
             "sector set / corrupted offset)",
        state_measure="hash of (recovered hard state, recovered entry count, repair used, error class)",
        components=REAL_E4,
        assumptions=["sector-atomic storage: a 512-byte sector is either old or new; a file that grew since its last sync may come back "
                     "with its old length or zero-filled", "directory operations are atomic and durable",
                     "durability obligation derived from the Raft persistence contract (entries, term, vote), not from observed syncs"],
        quick=dict(wall=40), thorough=dict(wall=900),
    ),
}


def _lockstep(prop, what):
    return dict(
        engine="e1", level="exploration",
        rule="one evaluation = one seeded run: 1-3 simulated clients each owning a key prefix run generated programs of "
             + what + " with read-back after mutations, fragmented/pipelined requests, fake-clock sleeps and co-tenants on "
             "colliding stripes; every reply is compared with the reference model in lock-step; non-trivial = at least 5 "
             "replies checked; distinct = distinct trace hash",
        state_measure="hash of the canonical final keyspace dump",
        components=REAL_E1,
        assumptions=["reference model written from the Redis 7 command reference; error text not compared"],
        quick=dict(wall=35), thorough=dict(wall=600),
    )


PROPS["C09"] = _lockstep("C09", "list commands (all index/count shapes, duplicates, LMOVE, LPOS options)")
PROPS["C10"] = _lockstep("C10", "hash commands (empty/numeric/extreme fields and values, HRANDFIELD relational)")
PROPS["C11"] = _lockstep("C11", "set commands (algebra over existing/missing/wrong-typed keys, STORE forms, SPOP/SRANDMEMBER relational)")
PROPS["C12"] = _lockstep("C12", "sorted-set commands (all ZADD options, ties, infinities, updates; ZRANGE/ZRANK relational under ties; AVL self-check)")
PROPS["C18"] = _lockstep("C18", "stream commands (explicit/partial/auto IDs under a controlled millisecond clock, trimming, all XRANGE bounds)")

PROPS["C04"] = dict(
    engine="e1", level="exploration",
    phases=[dict(engine="e1", test="TestWorker", share=0.8),
            dict(engine="e1", race=True, test="TestRaceSweep", share=0.2, race_only=r"runtime\.map|internal/runtime/maps")],
    rule="one evaluation = one seeded run: an attacker connection sends 4-13 adversarial (command, argv) vectors (every registered "
         "command name in any letter case, arity 0-6, adversarial alphabet, option keywords, one key of each type, missing key, "
         "repeated key); the run index walks the (command x arity) grid so every cell is visited; after each input the same key, "
         "other keys and other connections are probed; oracle = process alive, all probes answered, no deadlock, no leaked lock, "
         "every reply RESP, blocking pops answer by their timeout; distinct = distinct trace hash.  Second phase (race sweep, "
         "-race build, real threads): 2-4 attacker connections fire adversarial commands at the same typed key at once; "
         "oracle = no runtime abort, and no race-detector report on a Go map (the race behind 'fatal error: concurrent map "
         "writes'); a single step that never completes within 45 s of real time is reported as a hang",
    state_measure="hash of the canonical final keyspace dump",
    components=REAL_E1,
    assumptions=["an executor panic counts as a process death (no recover exists on any server path)",
                 "in the race-sweep phase only data races on Go maps count for C04 (they abort the process); other races are C05's",
                 "blocking-pop timeouts are kept small so that 'never answers' is decidable"],
    quick=dict(wall=35), thorough=dict(wall=600),
)

PROPS["C02"] = dict(
    engine="e1", level="exploration",
    rule="one evaluation = one seeded stream: (parser mode) a sequence of argv with CR/LF/NUL/empty/non-UTF-8/4096-byte arguments, "
         "encoded by the simulator, optionally followed by ONE command mutated so that it violates the RESP grammar, cut into "
         "tape-chosen read chunks and fed to resp.ParseStream; (server mode) the same through Manager.Handle beside lock-step "
         "bystanders; oracle = decoded argv == encoded argv, malformed part never yields a command nor changes the keyspace, "
         "no death; non-trivial = at least one fragmented read or a malformed stream; distinct = distinct (stream, chunking) hash",
    state_measure="hash of the canonical final keyspace dump (server mode)",
    components=REAL_E1,
    assumptions=["'malformed' = the simulator's own RESP decoder cannot read a complete value from the mutated bytes at end of stream"],
    quick=dict(wall=35), thorough=dict(wall=600),
)
PROPS["C03"] = _lockstep("C03", "all command families mixed, pipelined 1-50 deep with unique PING sync markers, payloads with CR/LF/NUL/empty")
PROPS["C06"] = dict(
    engine="e1", level="exploration",
    rule="one evaluation = one seeded run: a time-controlling client attaches deadlines in every way (EXPIRE NX/XX/GT/LT, SETEX, SET "
         "EX/PX/EXAT) to values of every type, keeps/replaces/removes them, and probes with reading and writing commands at fake-clock "
         "instants stepped around the deadline (D-1s+e .. D+1s+e, days later) while the timer goroutine, the lazy check and co-tenants "
         "are interleaved by the tape; oracle = reference model with a one-second expiry window, monotone inside it; non-trivial = "
         "at least two commands judged on keys carrying a deadline and one clock advance; distinct = distinct trace hash",
    state_measure="hash of the canonical final keyspace dump",
    components=REAL_E1,
    assumptions=["one expiry instant E with D <= E < D+1s is accepted (whole-second and millisecond-precise implementations both pass)"],
    quick=dict(wall=35), thorough=dict(wall=600),
)
PROPS["C13"] = dict(
    engine="e1", level="exploration",
    rule="one evaluation = one seeded run: 2-4 clients issue MSET/RENAME/LMOVE/SMOVE/set algebra (+STORE)/multi-key DEL/EXISTS/MGET "
         "mixed with single-key commands over 2-4 keys with ShardNum 1-3 (forced stripe collisions); exact deadlock detection on "
         "the modelled locks, porcupine over the joint keyspace, auditor read-back; non-trivial = a context switch while a stripe was "
         "held and at least one multi-key command; distinct = distinct trace hash",
    state_measure="hash of the canonical final keyspace dump",
    components=REAL_E1,
    assumptions=["STORE forms: reply not judged, only deadlock freedom and well-formed values"],
    quick=dict(wall=35), thorough=dict(wall=600),
)
PROPS["C19"] = dict(
    engine="e1", level="exploration",
    phases=[dict(engine="e1", test="TestWorker", share=0.8),
            dict(engine="e1", race=True, test="TestRaceSweep", share=0.2)],
    rule="one evaluation = one seeded run: 1-4 subscriber connections, 1-3 publishers, 1-3 channels, unique payloads, abrupt "
         "disconnects; every write to a subscriber connection is a scheduling point; oracle = per-subscriber delivery log vs "
         "publish history (exactly once, intact, right channel, order of non-overlapping publishes, completeness for stable "
         "subscribers), PUBLISH count == receivers, no publisher left without reply; non-trivial = a message delivered and a "
         "preemption; distinct = distinct trace hash",
    state_measure="n/a",
    components=REAL_E1,
    assumptions=["a subscriber whose SUBSCRIBE overlaps a PUBLISH may or may not receive it"],
    quick=dict(wall=35), thorough=dict(wall=600),
)
PROPS["C20"] = dict(
    engine="e1", level="exploration",
    rule="one evaluation = one seeded run: 1-4 connections interleave SELECT (valid, out of range, negative, non-numeric, wrong "
         "arity) with SET/GET/DEL/EXISTS of the same key names, Databases in {1,2,16}; oracle = porcupine against a reference model "
         "with a selected-database field per connection; non-trivial = at least one SELECT and two active connections; distinct = "
         "distinct trace hash",
    state_measure="hash of the canonical final keyspace dumps",
    components=dict(real=REAL_E1["real"] + ["server.Start accept loop, event loop and per-connection goroutines (sweep phase only, through the listener hook: "
                                             "its TCP listener is replaced by one that yields simulated connections)"],
                    stubbed=REAL_E1["stubbed"]),
    assumptions=[],
    phases=[dict(engine="e1", test="TestWorker", share=0.85),
            dict(engine="e1", race=True, test="TestRaceSweep", share=0.15)],
    quick=dict(wall=35), thorough=dict(wall=600),
)

REAL_E2 = dict(real=["server.Manager.HandleCluster connection loop and proposal/reply rendezvous (resultCallback)", "server.handleClusterCommits apply loop",
                     "server cluster wiring of Start (repeated without listener/signals in the verif-tagged server/verif_cluster.go)",
                     "server.ClusterCmdFilter", "resp.ParseStream parser goroutine", "memdb executors and data structures, rconf",
                     "raftexample.RaftNode (startRaft, replayWAL, serveChannels, publishEntries, snapshots, compaction)",
                     "etcd/raft Node (node.run, raft, raftLog, MemoryStorage, joint conf changes)",
                     "etcd wal + snap + fileutil on tmpfs files", "rafthttp.Transport object (identity, Raft callback, peer set)"],
               stubbed=["TCP accept loop and client sockets (simconn implements net.Conn)", "wall clock (testing/synctest fake clock)",
                        "peer HTTP streams/pipelines (message-level simulated network: per-link queues, drop/delay/reorder/partition; "
                        "ReportSnapshot/ReportUnreachable issued as the real transport would)",
                        "durability: shadow durable image fed by the Fsync/Fdatasync hook; crash image = durable bytes plus a seeded subset of "
                        "unsynced 512-byte sectors; directory operations atomic and durable",
                        "process kill: the incarnation is marked dead at a seam crossing (sync, send, reply write, quiescence), its output discarded, "
                        "a new incarnation starts from the crash image",
                        "snapshot threshold / catch-up window lowered (5-200, window <= threshold) and WAL segment size 4-64 KiB through verif hooks",
                        "goroutine interleaving inside a node: one external stimulus per quiescence (logical concurrency explored, physical parallelism not)"])

PROPS["C07"] = dict(
    engine="e2", level="exploration",
    phases=[dict(engine="e2", test="TestWorker", share=0.85),
            dict(engine="e2", race=True, test="TestRaceSweep", share=0.15)],
    rule="one evaluation = one seeded run of a 1/3/5-node cluster: 2-5 clients send 12-60 single- and multi-key commands (unique values) to "
         "tape-chosen nodes while the tape schedules every message delivery, raft tick and client step and the adversary injects message "
         "drop/reorder/delay, partitions (symmetric, asymmetric, leader isolated) and heals, slow nodes, crash-restart of a minority at "
         "quiescence or at a sync/send/reply seam, rconf add/delete (in any letter case), in the "
         "rconf configurations and 12 % of the others 1-4 management commands in careless shapes (rconf/member without or with bad arguments, "
         "ids 0 / existing / huge, other letter cases, member list from another database after SELECT; a well-formed add of an unreachable "
         "member only where the real nodes remain a quorum of the enlarged configuration and no fault is planned; replies not judged, a "
         "refused command must change no membership; in 15 % of the non-directed runs the clients also issue EXPIRE / SETEX / SET EX|PX|EXAT / "
         "TTL / PERSIST on keys of their own with deadlines of 1-3 s (some 8-27 s) and idle stretches that cross them: such keys are judged "
         "by a deadline oracle instead of porcupine (a key given n seconds by a command invoked at ti and acknowledged at tr disappears no "
         "earlier than floor(ti)+n and no later than tr+n+1 s whichever node is asked, TTL may be off by one, no conclusion inside that "
         "window) and replicas with the same applied index are compared at the same instant leaving out keys within one second after a "
         "deadline, also while the finale waits past the pending deadlines) (35 % of the crash configurations are the directed ack-then-crash / "
         "vote-then-crash / vote-then-torn-crash choreographies described under C08); then everything is healed and restarted, every node must answer a fresh "
         "command within 60 simulated seconds and every key is read back on every node; oracles = porcupine over the client history against "
         "the reference model (unanswered commands stay pending), equal keyspace dumps for equal applied index after every step and at the "
         "end, no node death; non-trivial = at least two clients answered and (unless the fault-free configuration) at least one fault fired; "
         "distinct = distinct hash of the full event trace (events, messages with term/index, replies); a second phase (race sweep, 15 % of "
         "the budget) runs a binary built with -race at GOMAXPROCS 4 in which several clients of one node send in the same window, so that "
         "connection handlers and the apply loop truly run in parallel: any DATA RACE report or runtime abort is a violation (replay_exact false)",
    state_measure="hash of the per-node (term, role, commit, applied) vector after each step, plus final keyspace dumps",
    components=REAL_E2,
    assumptions=["workload restricted to commands on which the standalone server agrees with the reference model (pre-screened per run), "
                 "space-free and TTL-free arguments (argument fidelity is C14's)",
                 "client commands are only sent to nodes that currently know a leader (a proposal parked in a leaderless node is replay-inexact)",
                 "message duplication is not injected (a duplicated forwarded proposal is legitimately appended twice)",
                 "a client abandons a command after 5-12 simulated seconds and reconnects; abandoned commands stay pending in the history"],
    quick=dict(wall=40), thorough=dict(wall=900),
)
PROPS["C08"] = dict(
    engine="e2", level="exploration",
    rule="one evaluation = one seeded run as C07 with the shadow disk in charge: snapshot threshold 5-200 so that the log outgrows it several "
         "times, crashes of any subset of nodes including all at once, at quiescence or at the k-th sync/send/reply seam crossing, crash image = "
         "fsynced bytes plus a tape-chosen subset of unsynced sectors, restarts in any order from the node's own image; configurations: "
         "fault-free, clean kill-all-and-restart after the workload, crashes, crashes plus network faults (separate runs); 40 % of the crash "
         "configurations are choreographed by a directed adversary whose choices come from the tape: ack-then-crash (cut the other follower off, "
         "kill follower F at the before-sync seam of the Ready that answers the next append, lose its unsynced sectors, wait for the client "
         "acknowledgement, isolate/kill the leader, restart F and let the quorum without the leader serve, then heal) and vote-then-crash (kill "
         "the swing voter between answering MsgVote and persisting the vote, restart it, let the cut-off second candidate ask in the same term) and vote-then-torn-crash (isolate the leader, let the followers elect "
         "a new one, kill the voter at the before-sync seam of a large append losing only the last unsynced sector so that its WAL record is "
         "torn, restart it and reconnect it with the deposed leader of the older term); "
         "oracle = after repair every "
         "acknowledged SET must be visible in the read-back of every node (latest acknowledged or a later in-flight write), the whole history "
         "incl. read-backs must be linearizable, no node may die taking/applying a snapshot or fail to restart from its own image; "
         "non-trivial = at least 5 commands acknowledged and (unless fault-free) at least one restart; distinct = distinct trace hash",
    state_measure="hash of the per-node (term, role, commit, applied) vector after each step, plus final keyspace dumps",
    components=REAL_E2,
    assumptions=["sector-atomic storage; directory operations atomic and durable", "as C07 for the workload"],
    quick=dict(wall=40), thorough=dict(wall=900),
)
PROPS["C14"] = dict(
    engine="e2", level="exploration",
    rule="one evaluation = one seeded differential run: a program of 6-30 commands over all families whose arguments carry the run's feature "
         "set (spaces, empty strings, CR/LF, non-UTF-8 bytes, mixed case, the filtered commands PUBLISH and SUBSCRIBE in every letter case incl. subscribe-then-publish on one channel; a third of the runs plain; 30 % of the runs configure 2-4 numbered databases on the nodes and on the reference and interleave SELECT with "
         "valid, out-of-range and malformed indexes, the final comparison covering every database; 15 % of the fault-free runs add the time-dependent commands and idle stretches "
         "described under C07, the reference keeps the same idle stretches, replies on deadline-carrying keys are judged by the deadline oracle "
         "and the replicas are compared with each other at the same instant outside the one-second expiry windows) is executed through "
         "a standalone Manager.ExecCommand and through a simulated 1-node or 3-node cluster, fault-free or with message drops/reordering and a "
         "leader isolation; oracle = i-th replies equal (unordered collections as multisets, errors by class) and the final keyspace dump of "
         "every replica equals the standalone dump; non-trivial = at least 3 replies compared; distinct = distinct trace hash",
    state_measure="hash of the per-node (term, role, commit, applied) vector after each step, plus final keyspace dumps",
    components=REAL_E2,
    assumptions=["standalone RedisGO is the reference (the reference model is not involved)",
                 "a program is cut where the standalone server panics (no defined answer; C04's business)",
                 "commands whose reply depends on Go map iteration order are not generated; commands with a time-to-live are judged "
                 "only outside the one-second windows of every replica's own deadline",
                 "under faults a command that goes unanswered ends the comparison (its effect is undetermined)",
                 "a share of runs gives the cluster nodes several databases, a superset of what config.ParseConfigJson allows "
                 "in production (it forces one database in cluster mode)"],
    quick=dict(wall=40), thorough=dict(wall=900),
)
