#!/bin/bash
# Development aid: thorough tier of every check, one after the other (for `vp run`).
cd "$(dirname "$0")"
for p in ${PROPS:-C15 C16 C05 C13 C06 C19 C01 C02 C03 C04 C09 C10 C11 C12 C18 C20 C14 C07 C08}; do
  echo "=== $p $(date +%T)"
  VERIF_SEED=${VERIF_SEED:-2} ./check $p --tier thorough --workers ${WORKERS:-8} 2>&1 | grep -v "^built" | cut -c1-300 | tail -12
done
